/* C14 - sparse triangular solve / multiply kernels compute the documented operation.
 *
 * One case exercises one kernel family:
 *   trsv  : sp_?trsv on a valid (L supernodal, U column) factor pair for (uplo, trans, diag)
 *   gemv  : sp_?gemv  y := alpha*op(A)*x + beta*y on a rectangular A with strides
 *   gemm  : sp_?gemm  C := alpha*op(A)*B + beta*C with leading-dimension padding
 *   gstrs : ?gstrs on the factor pair, joint solve vs. one column at a time
 * Factor pairs come from real factorizations (?gssv, random small tuning) and from a direct
 * generator of valid SC/NC pairs. All references are evaluated in long double from the dense
 * expansion of the pair (expand_LU), i.e. the system that is "selected" is defined by the pair
 * itself, not by the matrix that was factored.
 */
#include "vf.h"

#define C14_NMAX 40
#define C14_GUARD 4

/* ------------------------------------------------------------------ small helpers */
static ldc c14_rand_scalar(vf_rng *r, const vf_api *P, ld lo_mag)
{
    ld re, im = 0;
    do { re = 2 * (ld)rng_unif(r) - 1; } while (fabsl(re) < lo_mag);
    if (P->cplx) im = 2 * (ld)rng_unif(r) - 1;
    return P->round(re + im * I);
}
static int c14_finite(ldc z) { return isfinite((double)creall(z)) && isfinite((double)cimagl(z)); }
static int c14_same_bytes(const void *a, const void *b, size_t n) { return n == 0 || memcmp(a, b, n) == 0; }

/* ------------------------------------------------------------------ factor pairs */
typedef struct {
    int n, src;                 /* src: 0 real factorization, 1 direct generator */
    int have;
    SuperMatrix L, U;
    int *perm_r, *perm_c;
    ldc *Ld, *Ud;               /* dense expansion, n x n col-major */
    int nsuper, maxsn, multi;
    uint64_t pathash;
} c14_fac;

static void c14_fac_free(c14_fac *F)
{
    if (F->have) { Destroy_SuperNode_Matrix(&F->L); Destroy_CompCol_Matrix(&F->U); }
    free(F->perm_r); free(F->perm_c); free(F->Ld); free(F->Ud);
    memset(F, 0, sizeof *F);
}

/* factor pair from a real factorization; returns 1 on success (info == 0 and well-formed factors) */
static int c14_real_factors(vf_case *c, c14_fac *F, SuperLUStat_t *stat, int nmax)
{
    const vf_api *P = c->P; vf_rng *r = &c->rng; char buf[200];
    gen_spec g; gen_spec_random(r, P, &g, 1, nmax, 1);
    if (nmax > C14_NMAX) g.n = g.m = rng_int(r, C14_NMAX, nmax);
    /* structurally nonsingular patterns, generic values: singular inputs are not the subject here */
    static const int pats[] = { PAT_RANDOM_DIAG, PAT_RANDOM_DIAG, PAT_BAND, PAT_ARROW, PAT_BLOCKDIAG, PAT_BLOCKTRI, PAT_PERMTRI, PAT_GRID, PAT_DENSE, PAT_DIAG };
    static const int vals[] = { VAL_UNIF, VAL_UNIF, VAL_DIAGDOM, VAL_ROWSCALED, VAL_COLSCALED, VAL_GRADED };
    g.pattern = rng_pick(r, pats, 10); g.values = rng_pick(r, vals, 6); g.scale_exp = rng_int(r, 1, 3); g.explicit_zeros = 0; g.drop_diag = 0;
    if (g.pattern == PAT_DENSE && g.n > 20) g.n = g.m = rng_int(r, 2, 20);
    vf_mat A; gen_matrix(r, P, &g, &A);
    int n = A.n;
    superlu_options_t opt; set_default_options(&opt);
    static const int cps[] = { NATURAL, MMD_ATA, MMD_AT_PLUS_A, COLAMD, MY_PERMC };
    static const double us[] = { 1.0, 1.0, 0.5, 0.1, 0.01 };
    opt.ColPerm = (colperm_t)rng_pick(r, cps, 5); opt.DiagPivotThresh = us[rng_int(r, 0, 4)]; opt.PrintStat = NO;
    int *perm_c = malloc(sizeof(int) * (size_t)(n + 1)), *perm_r = malloc(sizeof(int) * (size_t)(n + 1));
    for (int i = 0; i < n; i++) perm_r[i] = perm_c[i] = -1;
    if (opt.ColPerm == MY_PERMC) rng_perm(r, perm_c, n);
    SuperMatrix SA, SB; mk_sparse(P, &A, 0, &SA); mk_dense(P, n, 0, n, NULL, &SB, 0);
    memset(&F->L, 0, sizeof F->L); memset(&F->U, 0, sizeof F->U);
    int_t info = -999;
    P->gssv(&opt, &SA, perm_c, perm_r, &F->L, &F->U, &SB, stat, &info);
    gen_spec_str(&g, buf, sizeof buf); vf_desc(c, "factors of %s colperm=%s u=%g; ", buf, colperm_names[opt.ColPerm], opt.DiagPivotThresh);
    F->pathash = mat_pattern_hash(&A) ^ ((uint64_t)opt.ColPerm << 3);
    free_sparse(&SA); free_dense(&SB); mat_free(&A);
    int ok = 0;
    if (info == 0) {
        char why[200];
        F->have = 1;
        if (is_perm(perm_r, n) && is_perm(perm_c, n) && !structure_ok(P, &F->L, &F->U, n, n, 0, why, sizeof why)) ok = 1;
    } else if (info > 0 && info <= n) F->have = 1;   /* singular: factors exist and must be destroyed */
    F->n = n; F->src = 0; F->perm_r = perm_r; F->perm_c = perm_c;
    if (!ok) { c14_fac_free(F); return 0; }
    return 1;
}

/* direct generator of a valid SC/NC pair: random supernode partition, random row lists below each
   supernode (unsorted half of the time), dense diagonal blocks holding L (strictly lower) and U (upper),
   U columns holding rows strictly above the supernode. */
static void c14_direct_factors(vf_case *c, c14_fac *F, int nmax)
{
    const vf_api *P = c->P; vf_rng *r = &c->rng;
    int n = nmax > C14_NMAX ? rng_int(r, C14_NMAX, nmax) : rng_bool(r, 0.15) ? rng_int(r, 1, 3) : rng_int(r, 1, nmax);
    int wmax = rng_bool(r, 0.15) ? 1 : rng_int(r, 2, nmax > C14_NMAX ? 30 : 9);
    double pl = rng_unif(r) * 0.6, pu = rng_unif(r) * 0.6;
    int shuffle = rng_bool(r, 0.5);
    int diagmode = rng_int(r, 0, 3);          /* 0,1: |d| in [0.5,2]; 2: 10^[-3,3]; 3: exactly 1 (unit upper) */
    int *xsup = SUPERLU_MALLOC(sizeof(int) * (size_t)(n + 2)), *supno = SUPERLU_MALLOC(sizeof(int) * (size_t)(n + 1));
    int_t *xlsub = SUPERLU_MALLOC(sizeof(int_t) * (size_t)(n + 1)), *xlusup = SUPERLU_MALLOC(sizeof(int_t) * (size_t)(n + 1));
    int_t *ucolptr = SUPERLU_MALLOC(sizeof(int_t) * (size_t)(n + 1));
    /* pass 1: partition and row lists (harness scratch), counts */
    int *rows = malloc(sizeof(int) * (size_t)n * (size_t)n + sizeof(int)); int *rstart = malloc(sizeof(int) * (size_t)(n + 2)); int *tmp = malloc(sizeof(int) * (size_t)(n + 1));
    int ns = 0, f = 0; size_t nrows = 0, nlval = 0; long long lcount = 0, ucount = 0;
    while (f < n) {
        int w = rng_int(r, 1, wmax); if (f + w > n) w = n - f;
        int l = f + w; xsup[ns] = f; rstart[ns] = (int)nrows;
        for (int j = f; j < l; j++) { supno[j] = ns; rows[nrows++] = j; }
        int cnt = 0; for (int i = l; i < n; i++) if (rng_bool(r, pl)) tmp[cnt++] = i;
        if (shuffle) for (int a = cnt - 1; a > 0; a--) { int b = rng_int(r, 0, a); int t = tmp[a]; tmp[a] = tmp[b]; tmp[b] = t; }
        for (int a = 0; a < cnt; a++) rows[nrows++] = tmp[a];
        int nsupr = w + cnt;
        for (int j = f; j < l; j++) { lcount += nsupr - (j - f); ucount += j - f + 1; }
        nlval += (size_t)nsupr * (size_t)w;
        ns++; f = l;
    }
    xsup[ns] = n; rstart[ns] = (int)nrows; supno[n] = ns;
    int_t *lsub = SUPERLU_MALLOC(sizeof(int_t) * (nrows + 1)); void *lval = SUPERLU_MALLOC(P->ssz * (nlval + 1));
    for (size_t k = 0; k < nrows; k++) lsub[k] = rows[k];
    /* U structure */
    int_t unz = 0;
    int_t *urow_tmp = malloc(sizeof(int_t) * ((size_t)n * (size_t)n + 1));
    for (int s = 0; s < ns; s++) for (int j = xsup[s]; j < xsup[s + 1]; j++) {
        ucolptr[j] = unz; int cnt = 0;
        for (int i = 0; i < xsup[s]; i++) if (rng_bool(r, pu)) tmp[cnt++] = i;
        if (shuffle) for (int a = cnt - 1; a > 0; a--) { int b = rng_int(r, 0, a); int t = tmp[a]; tmp[a] = tmp[b]; tmp[b] = t; }
        for (int a = 0; a < cnt; a++) urow_tmp[unz++] = tmp[a];
    }
    ucolptr[n] = unz; ucount += (long long)unz;
    int_t *urow = SUPERLU_MALLOC(sizeof(int_t) * ((size_t)unz + 1)); void *uval = SUPERLU_MALLOC(P->ssz * ((size_t)unz + 1));
    for (int_t k = 0; k < unz; k++) { urow[k] = urow_tmp[k]; P->set(uval, (size_t)k, c14_rand_scalar(r, P, 1e-3L)); }
    /* L values and pointers */
    size_t vp = 0;
    for (int s = 0; s < ns; s++) {
        int fs = xsup[s], ls = xsup[s + 1], nsupr = rstart[s + 1] - rstart[s];
        for (int j = fs; j < ls; j++) {
            xlusup[j] = (int_t)vp;
            xlsub[j] = j == fs ? (int_t)rstart[s] : (int_t)rstart[s + 1];   /* consumers read [fsupc] and [fsupc+1] only */
            for (int k = 0; k < nsupr; k++) {
                int i = rows[rstart[s] + k]; ldc v;
                if (i == j) {
                    ldc ph = c14_rand_scalar(r, P, 0.05L); ph /= cabsl(ph);
                    ld mag = diagmode <= 1 ? 0.5L + 1.5L * (ld)rng_unif(r) : diagmode == 2 ? powl(10.0L, (ld)rng_int(r, -3, 3)) * (0.5L + (ld)rng_unif(r)) : 1.0L;
                    v = diagmode == 3 ? 1.0L : P->round(mag * ph);
                    if (v == 0) v = 1.0L;
                } else if (i < j) v = rng_bool(r, 0.2) ? 0 : c14_rand_scalar(r, P, 1e-3L);
                else v = rng_bool(r, 0.15) ? 0 : P->round(0.8L * c14_rand_scalar(r, P, 1e-3L));
                P->set(lval, vp++, v);
            }
        }
    }
    xlusup[n] = (int_t)vp; xlsub[n] = (int_t)nrows;
    SCformat *Ls = SUPERLU_MALLOC(sizeof(SCformat));
    Ls->nnz = (int_t)lcount; Ls->nsuper = ns - 1; Ls->nzval = lval; Ls->nzval_colptr = xlusup; Ls->rowind = lsub; Ls->rowind_colptr = xlsub;
    Ls->col_to_sup = supno; Ls->sup_to_col = xsup;
    F->L.Stype = SLU_SC; F->L.Dtype = P->dtype; F->L.Mtype = SLU_TRLU; F->L.nrow = n; F->L.ncol = n; F->L.Store = Ls;
    P->Create_CompCol(&F->U, n, n, (int_t)ucount, uval, urow, ucolptr, SLU_NC, P->dtype, SLU_TRU);
    F->have = 1; F->n = n; F->src = 1;
    F->perm_r = malloc(sizeof(int) * (size_t)(n + 1)); F->perm_c = malloc(sizeof(int) * (size_t)(n + 1));
    rng_perm(r, F->perm_r, n); rng_perm(r, F->perm_c, n);
    uint64_t h = fnv64(FNV0, xsup, sizeof(int) * (size_t)(ns + 1)); h = fnv64(h, rows, sizeof(int) * nrows); h = fnv64(h, urow_tmp, sizeof(int_t) * (size_t)unz);
    F->pathash = h;
    vf_desc(c, "direct SC/NC pair n=%d nsuper=%d wmax=%d pl=%.2f pu=%.2f shuffle=%d diagmode=%d; ", n, ns, wmax, pl, pu, shuffle, diagmode);
    free(rows); free(rstart); free(tmp); free(urow_tmp);
}

/* obtain a factor pair; returns 0 when the direct generator produced something structure_ok rejects (harness bug) */
static int c14_get_factors(vf_case *c, c14_fac *F, SuperLUStat_t *stat)
{
    const vf_api *P = c->P; vf_rng *r = &c->rng;
    memset(F, 0, sizeof *F);
    int got = 0;
    int nmax = (c->tier && rng_bool(r, 0.03)) ? 150 : C14_NMAX;      /* thorough tier: a tail of larger systems (default tuning territory) */
    if (rng_bool(r, 0.6)) got = c14_real_factors(c, F, stat, nmax);
    if (!got) {
        if (c->desc[0]) vf_desc(c, "(not usable, fell back) ");
        c14_direct_factors(c, F, nmax);
        char why[200];
        if (structure_ok(P, &F->L, &F->U, F->n, F->n, 0, why, sizeof why)) {
            vf_viol(c, "harness-direct-generator-invalid", "the harness's own SC/NC generator produced an invalid pair: %s", why);
            return 0;
        }
    }
    int n = F->n;
    F->Ld = malloc(sizeof(ldc) * (size_t)n * (size_t)n); F->Ud = malloc(sizeof(ldc) * (size_t)n * (size_t)n);
    expand_LU(P, &F->L, &F->U, n, n, F->Ld, F->Ud);
    snode_stats(&F->L, &F->nsuper, &F->maxsn, &F->multi);
    vf_tag(c, "src=%s", F->src ? "direct" : "real"); vf_tag(c, "maxsnode=%d", F->maxsn > 4 ? 4 : F->maxsn);
    vf_tag(c, "prec=%c", P->letter);
    return 1;
}

/* ------------------------------------------------------------------ sp_?trsv */
static const char *c14_uplo_sp[3][2]  = { { "L", "U" }, { "Lower", "Upper" }, { "l", "u" } };
static const char *c14_trans_sp[3][3] = { { "N", "T", "C" }, { "No transpose", "Transpose", "Conjugate transpose" }, { "n", "t", "c" } };
static const char *c14_diag_sp[3][2]  = { { "U", "N" }, { "Unit", "Non-unit" }, { "u", "n" } };

/* T(i,j) of the selected triangular operator op(T): ui 0 lower / 1 upper, ti 0 N / 1 T / 2 C, unit: diagonal taken as 1 */
static inline ldc c14_opT(const c14_fac *F, int ui, int ti, int unit, int i, int j)
{
    int n = F->n; const ldc *T = ui ? F->Ud : F->Ld;
    if (i == j) { if (unit || !ui) return 1.0L; ldc d = T[(size_t)i * n + i]; return ti == 2 ? conjl(d) : d; }
    ldc v = ti == 0 ? T[(size_t)j * n + i] : T[(size_t)i * n + j];
    return ti == 2 ? conjl(v) : v;
}
/* max_i |b - op(T) x|_i / (cf n eps (|op(T)||x|)_i + n tiny) */
static ld c14_tri_ratio(const vf_api *P, const c14_fac *F, int ui, int ti, int unit, const ldc *x, const ldc *b, ld cf)
{
    int n = F->n; ld worst = 0;
    for (int i = 0; i < n; i++) {
        ldc s = b[i]; ld a = 0;
        for (int j = 0; j < n; j++) { ldc t = c14_opT(F, ui, ti, unit, i, j); if (t == 0) continue; s -= t * x[j]; a += cabsl(t) * cabsl(x[j]); }
        ld bound = cf * (ld)n * P->eps * a + (ld)n * P->tiny;
        ld q = cabsl(s) / bound; if (!(q <= worst)) worst = q;
    }
    return worst;
}
/* long double reference solution (substitution); returns max modulus (inf on breakdown) */
static ld c14_tri_refmax(const c14_fac *F, int ui, int ti, int unit, const ldc *b)
{
    int n = F->n; ldc *x = malloc(sizeof(ldc) * (size_t)n); ld mx = 0;
    /* op(T) is lower triangular iff (ui==0) == (ti==0) */
    int lower = (ui == 0) == (ti == 0);
    for (int k = 0; k < n; k++) {
        int i = lower ? k : n - 1 - k; ldc s = b[i];
        if (lower) { for (int j = 0; j < i; j++) s -= c14_opT(F, ui, ti, unit, i, j) * x[j]; }
        else { for (int j = i + 1; j < n; j++) s -= c14_opT(F, ui, ti, unit, i, j) * x[j]; }
        x[i] = s / c14_opT(F, ui, ti, unit, i, i);
        ld a = cabsl(x[i]); if (!(a <= mx)) mx = a;
    }
    free(x); return mx;
}

/* Structural precondition of a defect found on the unchanged tree (sp_[cz]trsv, L/N branch: the scalar `comp_zero` is
   used as scratch by the singleton-supernode code and later stored into work[] as "zero"): a singleton supernode with
   rows below it, later a multi-column supernode with rows below (stores the dirty value), later another one (accumulates
   onto it). Used only to give those violations their own key; the verdict never depends on it. */
static int c14_dirty_work_possible(const c14_fac *F)
{
    const SCformat *Ls = F->L.Store; int stage = 0;
    for (long s = 0; s <= (long)Ls->nsuper; s++) {
        int f = Ls->sup_to_col[s], w = Ls->sup_to_col[s + 1] - f; long nrow = (long)(Ls->rowind_colptr[f + 1] - Ls->rowind_colptr[f]) - w;
        if (nrow < 1) continue;
        if (w == 1) { if (stage == 0) stage = 1; }
        else if (stage == 1) stage = 2;
        else if (stage == 2) return 1;
    }
    return 0;
}

static void c14_fill_rhs(vf_rng *r, const vf_api *P, int n, ldc *b)
{
    int mode = rng_int(r, 0, 5);
    for (int i = 0; i < n; i++) {
        ldc v = c14_rand_scalar(r, P, 0);
        if (mode == 0 && rng_bool(r, 0.5)) v = 0;
        if (mode == 1) v = 0;
        b[i] = v;
    }
    if (mode == 1) b[rng_int(r, 0, n - 1)] = 1.0L;
}

static void c14_trsv(vf_case *c, c14_fac *F, SuperLUStat_t *stat)
{
    const vf_api *P = c->P; vf_rng *r = &c->rng; int n = F->n;
    const int G = C14_GUARD; const ld cf = P->cplx ? 16 : 8;
    /* mode 0: ordinary spellings (upper case / long words), several calls; 1: one lower-case argument; 2: upper with diag 'U' */
    double um = rng_unif(r); int mode = um < 0.78 ? 0 : um < 0.95 ? 1 : 2;
    int ncalls = mode == 0 ? rng_int(r, 1, 4) : 1;
    uint64_t h0 = hash_factors(P, &F->L, &F->U, NULL, NULL, n, n);
    ldc *b = malloc(sizeof(ldc) * (size_t)(n + 1)), *x = malloc(sizeof(ldc) * (size_t)(n + 1));
    size_t tot = (size_t)n + 2 * (size_t)G; void *xb = malloc(P->ssz * tot); unsigned char *snap = malloc(P->ssz * tot);
    vf_tag(c, "kind=trsv"); vf_tag(c, "mode=%s", mode == 0 ? "ordinary" : mode == 1 ? "lowercase" : "upper-unit");
    ld worst = 0; int checked = 0;
    for (int call = 0; call < ncalls && c->verdict != 1; call++) {
        int ui = rng_int(r, 0, 1), ti = rng_int(r, 0, 2), di;
        int su = 0, st = 0, sd = 0;                       /* spelling class per argument */
        if (mode == 0) { di = ui == 0 ? (rng_bool(r, 0.7) ? 0 : 1) : 1; su = rng_bool(r, 0.12); st = rng_bool(r, 0.12); sd = rng_bool(r, 0.12); }
        else if (mode == 1) { di = ui == 0 ? 0 : 1; int w = rng_int(r, 0, 2); if (w == 0) su = 2; else if (w == 1) st = 2; else sd = 2; }
        else { ui = 1; di = 0; }
        const char *uplo = c14_uplo_sp[su][ui], *trans = c14_trans_sp[st][ti], *diag = c14_diag_sp[sd][di];
        int unit = di == 0;
        c14_fill_rhs(r, P, n, b);
        for (size_t k = 0; k < tot; k++) P->set(xb, k, 777.0L + (ld)(k % 13));
        for (int i = 0; i < n; i++) P->set(xb, (size_t)(G + i), b[i]);
        memcpy(snap, xb, P->ssz * tot);
        vf_tag(c, "uplo=%c", "LU"[ui]); vf_tag(c, "trans=%c", "NTC"[ti]); vf_tag(c, "diag=%c", "UN"[di]);
        if (su == 1 || st == 1 || sd == 1) vf_tag(c, "spell=longword");
        vf_desc(c, "trsv(\"%s\",\"%s\",\"%s\") ", uplo, trans, diag);
        vf_sig_u64(c, (uint64_t)(ui * 100 + ti * 10 + di) + 1000u * (uint64_t)(su + 3 * st + 9 * sd));
        int info = -999;
        int rc = P->trsv((char *)uplo, (char *)trans, (char *)diag, &F->L, &F->U, (char *)xb + P->ssz * (size_t)G, stat, &info);
        (void)rc;
        if (info != 0) {
            if (mode == 1 && info >= -3 && info <= -1) {
                static const char *an[] = { "uplo", "trans", "diag" }; char key[80];
                snprintf(key, sizeof key, "trsv-lowercase-%s-rejected", an[-info - 1]);
                vf_viol(c, key, "sp_%ctrsv(\"%s\",\"%s\",\"%s\") returned info=%d (x %s): the header documents the lower-case spelling of %s",
                        P->letter, uplo, trans, diag, info, c14_same_bytes(snap, xb, P->ssz * tot) ? "unchanged" : "changed", an[-info - 1]);
            } else
                vf_viol(c, "trsv-info", "sp_%ctrsv(\"%s\",\"%s\",\"%s\") on a valid pair (n=%d) returned info=%d", P->letter, uplo, trans, diag, n, info);
            break;
        }
        if (!c14_same_bytes(snap, xb, P->ssz * (size_t)G) || !c14_same_bytes(snap + P->ssz * (size_t)(G + n), (char *)xb + P->ssz * (size_t)(G + n), P->ssz * (size_t)G)) {
            vf_viol(c, "trsv-wrote-outside-x", "sp_%ctrsv(\"%s\",\"%s\",\"%s\") changed bytes outside the n=%d element vector", P->letter, uplo, trans, diag, n); break;
        }
        int fin = 1; for (int i = 0; i < n; i++) { x[i] = P->get(xb, (size_t)(G + i)); if (!c14_finite(x[i])) fin = 0; }
        ld refmax = c14_tri_refmax(F, ui, ti, unit, b);
        if (!(refmax <= sqrtl(P->huge) * 1e-3L)) { vf_tag(c, "undecided=range"); continue; }   /* the exact solution leaves the safe range */
        if (!fin && mode == 2 && !(c14_tri_refmax(F, ui, ti, 0, b) <= sqrtl(P->huge) * 1e-3L)) {
            vf_viol(c, "trsv-upper-diag-unit-ignored", "sp_%ctrsv(\"U\",\"%s\",\"U\"): x is not finite: the non-unit system was solved (its solution leaves the range) although the unit-triangular system the header documents for diag='U' has a solution of max modulus %.3Lg (n=%d)", P->letter, trans, refmax, n); break; }
        if (!fin) { vf_viol(c, "trsv-nonfinite", "sp_%ctrsv(\"%s\",\"%s\",\"%s\") returned a non-finite x although the exact solution has max modulus %.3Lg", P->letter, uplo, trans, diag, refmax); break; }
        ld q = c14_tri_ratio(P, F, ui, ti, unit, x, b, cf);
        if (!(q <= 1.0L)) {
            if (mode == 2) {
                ld q2 = c14_tri_ratio(P, F, ui, ti, 0, x, b, cf);
                if (q2 <= 1.0L) { vf_viol(c, "trsv-upper-diag-unit-ignored", "sp_%ctrsv(\"U\",\"%s\",\"U\"): x solves the non-unit system (ratio %.3Lg) but not the unit-triangular one the header documents for diag='U' (ratio %.3Lg, n=%d)", P->letter, trans, q2, q, n); break; }
            }
            char key[80]; snprintf(key, sizeof key, "trsv-residual-%c%c-%c%s", "LU"[ui], "NTC"[ti], P->letter,   /* s/d and c/z kernels are different source files */
                                   P->cplx && ui == 0 && ti == 0 && c14_dirty_work_possible(F) ? "-work-not-cleared" : "");
            vf_viol(c, key, "sp_%ctrsv(\"%s\",\"%s\",\"%s\"): residual of the selected triangular system exceeds %Lg*n*eps*|T||x| by a factor %.3Lg (n=%d, %s pair, max supernode %d)",
                    P->letter, uplo, trans, diag, cf, q, n, F->src ? "generated" : "factored", F->maxsn);
            break;
        }
        vf_log(c, "trsv(%s,%s,%s) n=%d ratio %.4Lg", uplo, trans, diag, n, q);
        if (q > worst) worst = q;
        checked++;
    }
    if (c->verdict != 1 && hash_factors(P, &F->L, &F->U, NULL, NULL, n, n) != h0) vf_viol(c, "trsv-factors-modified", "sp_%ctrsv changed the contents of L or U", P->letter);
    c->counters[0] += checked; if (c->verdict != 1) c->counters[1] = (long)(worst * 1000);
    if (checked > 0 && n >= 2) c->nontrivial = 1;
    vf_sig_u64(c, F->pathash); vf_sig_u64(c, 14001);
    free(b); free(x); free(xb); free(snap);
}

/* ------------------------------------------------------------------ ?gstrs */
static void c14_gstrs(vf_case *c, c14_fac *F, SuperLUStat_t *stat)
{
    const vf_api *P = c->P; vf_rng *r = &c->rng; int n = F->n;
    const ld cf = P->cplx ? 16 : 8; const ldc PAD = 555.0L;
    int ti = rng_int(r, 0, 2); trans_t trans = (trans_t)ti;
    int nrhs = rng_bool(r, 0.03) ? 0 : rng_int(r, 1, 5);
    int ldb = n + (rng_bool(r, 0.5) ? rng_int(r, 1, 5) : 0);
    vf_tag(c, "kind=gstrs"); vf_tag(c, "trans=%c", "NTC"[ti]); vf_tag(c, "nrhs=%d", nrhs); vf_tag(c, "ldpad=%d", ldb > n);
    vf_tag(c, "colind=%s", c->variant_vendor ? "tolerance" : "bitwise");
    vf_desc(c, "gstrs trans=%c nrhs=%d ldb=%d (n=%d)", "NTC"[ti], nrhs, ldb, n);
    vf_sig_u64(c, F->pathash); vf_sig_u64(c, 14002u + (uint64_t)ti * 7u + (uint64_t)nrhs * 31u + (uint64_t)(ldb - n) * 257u);
    /* the system the pair defines: M(i,j) = sum_k L(perm_r[i],k) U(k,perm_c[j]);  E likewise from |L||U| */
    vf_mat M; M.m = M.n = n; M.nnz = (int_t)n * n;
    M.colptr = malloc(sizeof(int_t) * (size_t)(n + 1)); M.rowind = malloc(sizeof(int_t) * ((size_t)n * n + 1)); M.v = malloc(sizeof(ldc) * ((size_t)n * n + 1));
    for (int j = 0; j < n; j++) {
        M.colptr[j] = (int_t)j * n; int pj = F->perm_c[j];
        for (int i = 0; i < n; i++) {
            int pi = F->perm_r[i]; ldc s = 0; int kmax = pi < pj ? pi : pj;
            for (int k = 0; k <= kmax; k++) s += F->Ld[(size_t)k * n + pi] * F->Ud[(size_t)pj * n + k];
            M.rowind[(size_t)j * n + i] = i; M.v[(size_t)j * n + i] = s;
        }
    }
    M.colptr[n] = (int_t)n * n;
    ld *E = malloc(sizeof(ld) * ((size_t)n * n + 1)); absLU_orig(P, F->perm_r, F->perm_c, F->Ld, F->Ud, n, E);
    ldc *B0 = malloc(sizeof(ldc) * ((size_t)n * (size_t)(nrhs + 1) + 1)), *X = malloc(sizeof(ldc) * ((size_t)n * (size_t)(nrhs + 1) + 1)), *x1 = malloc(sizeof(ldc) * (size_t)(n + 1));
    for (int j = 0; j < nrhs; j++) {
        c14_fill_rhs(r, P, n, &B0[(size_t)j * n]);
        if (j > 0 && rng_bool(r, 0.15)) memcpy(&B0[(size_t)j * n], &B0[0], sizeof(ldc) * (size_t)n);   /* repeated column */
    }
    SuperMatrix SB; mk_dense(P, n, nrhs, ldb, B0, &SB, PAD);
    uint64_t h0 = hash_factors(P, &F->L, &F->U, F->perm_r, F->perm_c, n, n);
    int info = -999;
    P->gstrs(trans, &F->L, &F->U, F->perm_c, F->perm_r, &SB, stat, &info);
    ld worst = 0; int cols = 0, bitcmp = 0, undecided = 0;
    if (info != 0) vf_viol(c, "gstrs-info", "%cgstrs(trans=%c) on a valid pair returned info=%d", P->letter, "NTC"[ti], info);
    else if (!dense_padding_intact(P, &SB, PAD)) vf_viol(c, "gstrs-wrote-padding", "%cgstrs wrote rows beyond n=%d of B (ldb=%d)", P->letter, n, ldb);
    else if (hash_factors(P, &F->L, &F->U, F->perm_r, F->perm_c, n, n) != h0) vf_viol(c, "gstrs-inputs-modified", "%cgstrs changed L, U, perm_r or perm_c", P->letter);
    else {
        dense_read(P, &SB, X);
        for (int j = 0; j < nrhs && c->verdict != 1; j++) {
            const ldc *xj = &X[(size_t)j * n], *bj = &B0[(size_t)j * n]; int fin = 1; ld xm = 0;
            for (int i = 0; i < n; i++) { if (!c14_finite(xj[i])) fin = 0; else if (cabsl(xj[i]) > xm) xm = cabsl(xj[i]); }
            if (!fin || xm > sqrtl(P->huge) * 1e-3L) { undecided++; continue; }     /* out of the safe range: not decided here */
            ld q = solve_residual_ratio(P, &M, ti, xj, bj, E, cf);
            if (!(q <= 1.0L)) { vf_viol(c, "gstrs-residual", "%cgstrs(trans=%c): column %d of %d: componentwise residual against the system defined by the pair exceeds the bound by a factor %.3Lg (n=%d, ldb=%d, max supernode %d)", P->letter, "NTC"[ti], j, nrhs, q, n, ldb, F->maxsn); break; }
            if (q > worst) worst = q; cols++;
        }
        /* column independence: every column alone (ldb = n, nrhs = 1), and a leading subset with another padding */
        DNformat *bs = SB.Store;
        for (int j = 0; j < nrhs && c->verdict != 1 && nrhs >= 1; j++) {
            SuperMatrix S1; mk_dense(P, n, 1, n, &B0[(size_t)j * n], &S1, PAD);
            int info1 = -999; P->gstrs(trans, &F->L, &F->U, F->perm_c, F->perm_r, &S1, stat, &info1);
            DNformat *s1 = S1.Store;
            if (info1 != 0) vf_viol(c, "gstrs-info", "%cgstrs(trans=%c) single column returned info=%d", P->letter, "NTC"[ti], info1);
            else if (!c->variant_vendor) {
                bitcmp++;
                if (!c14_same_bytes(s1->nzval, (char *)bs->nzval + P->ssz * (size_t)j * (size_t)ldb, P->ssz * (size_t)n)) {
                    int at = 0; for (int i = 0; i < n; i++) if (memcmp((char *)s1->nzval + P->ssz * (size_t)i, (char *)bs->nzval + P->ssz * ((size_t)j * ldb + i), P->ssz)) { at = i; break; }
                    vf_viol(c, "gstrs-column-dependence", "%cgstrs(trans=%c): column %d solved alone (ldb=n=%d) differs bitwise at row %d from the same column solved with nrhs=%d, ldb=%d (%.17Lg vs %.17Lg)",
                            P->letter, "NTC"[ti], j, n, at, nrhs, ldb, creall(P->get(s1->nzval, (size_t)at)), creall(P->get(bs->nzval, (size_t)j * ldb + at)));
                }
            } else {
                int fin = 1; ld xm = 0;
                for (int i = 0; i < n; i++) { x1[i] = P->get(s1->nzval, (size_t)i); if (!c14_finite(x1[i])) fin = 0; else if (cabsl(x1[i]) > xm) xm = cabsl(x1[i]); }
                if (fin && xm <= sqrtl(P->huge) * 1e-3L) {
                    ld q = solve_residual_ratio(P, &M, ti, x1, &B0[(size_t)j * n], E, cf);
                    if (!(q <= 1.0L)) vf_viol(c, "gstrs-residual-single", "%cgstrs(trans=%c): column %d solved alone violates the residual bound by a factor %.3Lg", P->letter, "NTC"[ti], j, q);
                    if (q > worst) worst = q;
                }
            }
            free_dense(&S1);
        }
        if (nrhs >= 2 && c->verdict != 1 && !c->variant_vendor) {
            int k = rng_int(r, 1, nrhs - 1), ld2 = n + rng_int(r, 0, 3);
            SuperMatrix S2; mk_dense(P, n, k, ld2, B0, &S2, PAD); int info2 = -999;
            P->gstrs(trans, &F->L, &F->U, F->perm_c, F->perm_r, &S2, stat, &info2);
            DNformat *s2 = S2.Store;
            if (info2 != 0) vf_viol(c, "gstrs-info", "%cgstrs subset returned info=%d", P->letter, info2);
            else for (int j = 0; j < k; j++) { bitcmp++;
                if (!c14_same_bytes((char *)s2->nzval + P->ssz * (size_t)j * (size_t)ld2, (char *)bs->nzval + P->ssz * (size_t)j * (size_t)ldb, P->ssz * (size_t)n)) {
                    vf_viol(c, "gstrs-column-dependence", "%cgstrs(trans=%c): column %d differs bitwise between nrhs=%d,ldb=%d and nrhs=%d,ldb=%d (n=%d)", P->letter, "NTC"[ti], j, k, ld2, nrhs, ldb, n); break; } }
            free_dense(&S2);
        }
    }
    if (undecided) vf_tag(c, "undecided=range");
    c->counters[4] += cols; if (c->verdict != 1) c->counters[5] = (long)(worst * 1000); c->counters[6] += bitcmp;
    if (cols > 0 && n >= 2) c->nontrivial = 1;
    free_dense(&SB); mat_free(&M); free(E); free(B0); free(X); free(x1);
}

/* ------------------------------------------------------------------ sp_?gemv / sp_?gemm */
typedef struct { size_t tot; void *buf; unsigned char *snap; unsigned char *islog; } c14_buf;
static void c14_buf_init(const vf_api *P, c14_buf *b, size_t tot, ld base)
{
    b->tot = tot; b->buf = malloc(P->ssz * tot + 1); b->snap = malloc(P->ssz * tot + 1); b->islog = calloc(tot + 1, 1);
    for (size_t k = 0; k < tot; k++) P->set(b->buf, k, base + (ld)(k % 29));
}
static void c14_buf_seal(const vf_api *P, c14_buf *b) { memcpy(b->snap, b->buf, P->ssz * b->tot); }
static void c14_buf_free(c14_buf *b) { free(b->buf); free(b->snap); free(b->islog); }
/* first non-logical element whose bytes changed, or -1 */
static long c14_buf_outside(const vf_api *P, const c14_buf *b)
{
    for (size_t k = 0; k < b->tot; k++) if (!b->islog[k] && memcmp((char *)b->buf + P->ssz * k, b->snap + P->ssz * k, P->ssz)) return (long)k;
    return -1;
}
static int c14_buf_unchanged(const vf_api *P, const c14_buf *b) { return c14_same_bytes(b->buf, b->snap, P->ssz * b->tot); }

/* reference y = alpha*op(A)*x + beta*y0 and componentwise bound; t: 0 N, 1 T, 2 C; beta == 0 ignores y0 */
static void c14_mv_ref(const vf_api *P, const vf_mat *A, int t, ldc alpha, ldc beta, const ldc *x, const ldc *y0, int leny, ldc *ref, ld *bnd)
{
    ldc *acc = calloc((size_t)leny + 1, sizeof(ldc)); ld *aa = calloc((size_t)leny + 1, sizeof(ld)); int *cnt = calloc((size_t)leny + 1, sizeof(int));
    for (int j = 0; j < A->n; j++) for (int_t q = A->colptr[j]; q < A->colptr[j + 1]; q++) {
        int i = (int)A->rowind[q]; ldc a = A->v[q];
        if (t == 0) { acc[i] += a * x[j]; aa[i] += cabsl(a) * cabsl(x[j]); cnt[i]++; }
        else { if (t == 2) a = conjl(a); acc[j] += a * x[i]; aa[j] += cabsl(a) * cabsl(x[i]); cnt[j]++; }
    }
    int b0 = (beta == 0);
    for (int i = 0; i < leny; i++) {
        ref[i] = alpha * acc[i] + (b0 ? 0 : beta * y0[i]);
        ld g = (P->cplx ? 4.0L : 1.0L) * (ld)(cnt[i] + 3) * P->eps;
        bnd[i] = g * (cabsl(alpha) * aa[i] + (b0 ? 0 : cabsl(beta) * cabsl(y0[i]))) + (ld)(cnt[i] + 3) * P->tiny;
    }
    free(acc); free(aa); free(cnt);
}
static ldc c14_pick_coef(vf_rng *r, const vf_api *P, int *cls)
{
    int k = rng_int(r, 0, P->cplx ? 5 : 4); *cls = k > 3 ? 3 : k;
    switch (k) { case 0: return 0; case 1: return 1.0L; case 2: return -1.0L; case 5: return P->round((2 * (ld)rng_unif(r) - 1) * I); default: break; }
    ldc v = c14_rand_scalar(r, P, 1e-3L); return P->round(2 * v);
}
static ldc c14_junk(vf_rng *r, const vf_api *P)
{
    switch (rng_int(r, 0, 3)) { case 0: return (ldc)NAN; case 1: return (ldc)INFINITY; case 2: return P->cplx ? (ldc)(NAN + NAN * I) : (ldc)-INFINITY; default: return (ldc)(P->huge / 4); }
}
static const char *c14_coef_name[] = { "0", "1", "-1", "r" };

static void c14_mv(vf_case *c, int is_gemm)
{
    const vf_api *P = c->P; vf_rng *r = &c->rng; char buf[200];
    gen_spec g; gen_spec_random(r, P, &g, 1, 30, 0);
    if (rng_bool(r, 0.12)) { if (rng_bool(r, 0.5)) g.m = 1; else g.n = 1; }
    vf_mat A; gen_matrix(r, P, &g, &A);
    int m = A.m, n = A.n;
    SuperMatrix SA; mk_sparse(P, &A, 0, &SA);
    vf_snap ai, av; snap_sparse(P, &SA, &ai, &av);
    /* mode: 0 upper case, 1 long word, 2 lower case, 3 non-unit strides (gemv) / transb other than N (gemm) */
    double um = rng_unif(r); int mode = um < 0.60 ? 0 : um < 0.68 ? 1 : um < 0.82 ? 2 : 3;
    if (is_gemm && mode == 3 && rng_bool(r, 0.6)) mode = 0;
    int t = rng_int(r, 0, 2);
    const char *trans = c14_trans_sp[mode == 3 ? 0 : mode][t];
    int ca, cb; ldc alpha = c14_pick_coef(r, P, &ca), beta = c14_pick_coef(r, P, &cb);
    int lenx = t == 0 ? n : m, leny = t == 0 ? m : n, mx = m > n ? m : n;
    const char *kind = is_gemm ? "gemm" : "gemv";
    gen_spec_str(&g, buf, sizeof buf);
    vf_tag(c, "prec=%c", P->letter); vf_tag(c, "kind=%s", kind); vf_tag(c, "trans=%c", "NTC"[t]);
    vf_tag(c, "spell=%s", mode == 1 ? "longword" : mode == 2 ? "lower" : "upper");
    vf_tag(c, "alpha=%s", c14_coef_name[ca]); vf_tag(c, "beta=%s", c14_coef_name[cb]); vf_tag(c, "shape=%s", m > n ? "tall" : m < n ? "wide" : "square");
    vf_sig_u64(c, mat_pattern_hash(&A)); vf_sig_u64(c, 14003u + (uint64_t)is_gemm + 2u * (uint64_t)t + 8u * (uint64_t)mode + 64u * (uint64_t)ca + 256u * (uint64_t)cb);
    int aborted = 0; int expect_ok = 1;
    if (!is_gemm) {
        static const int incs[] = { 1, 2, -1, -3 };
        int incx = 1, incy = 1;
        if (mode == 3) { incx = rng_pick(r, incs, 4); incy = rng_pick(r, incs, 4); if (incx == 1 && incy == 1) incy = rng_pick(r, incs + 1, 3); }
        int ax = abs(incx), ay = abs(incy); size_t G = (size_t)3 * (size_t)(mx + 2);
        vf_tag(c, "incx=%d", incx); vf_tag(c, "incy=%d", incy);
        vf_desc(c, "%s; gemv(\"%s\") alpha=(%Lg,%Lg) beta=(%Lg,%Lg) incx=%d incy=%d", buf, trans, creall(alpha), cimagl(alpha), creall(beta), cimagl(beta), incx, incy);
        c14_buf xb, yb; c14_buf_init(P, &xb, 2 * G + 1 + (size_t)(lenx - 1) * ax, 300.0L); c14_buf_init(P, &yb, 2 * G + 1 + (size_t)(leny - 1) * ay, 900.0L);
        ldc *x = malloc(sizeof(ldc) * (size_t)lenx), *y0 = malloc(sizeof(ldc) * (size_t)leny), *ref = malloc(sizeof(ldc) * (size_t)leny); ld *bnd = malloc(sizeof(ld) * (size_t)leny);
        size_t *ypos = malloc(sizeof(size_t) * (size_t)leny);
        int xz = rng_bool(r, 0.3);
        for (int i = 0; i < lenx; i++) { x[i] = (xz && rng_bool(r, 0.4)) ? 0 : c14_rand_scalar(r, P, 0); size_t p = G + (incx > 0 ? (size_t)i * ax : (size_t)(lenx - 1 - i) * ax); P->set(xb.buf, p, x[i]); xb.islog[p] = 1; }
        for (int i = 0; i < leny; i++) { y0[i] = beta == 0 ? c14_junk(r, P) : c14_rand_scalar(r, P, 0); size_t p = G + (incy > 0 ? (size_t)i * ay : (size_t)(leny - 1 - i) * ay); ypos[i] = p; P->set(yb.buf, p, y0[i]); yb.islog[p] = 1; }
        c14_buf_seal(P, &xb); c14_buf_seal(P, &yb);
        c14_mv_ref(P, &A, t, alpha, beta, x, y0, leny, ref, bnd);
        jmp_buf jb;
        if (VF_TRY_BEGIN(jb)) { P->gemv((char *)trans, alpha, &SA, (char *)xb.buf + P->ssz * G, incx, beta, (char *)yb.buf + P->ssz * G, incy); }
        else aborted = 1;
        VF_TRY_END();
        if (aborted) {
            c->counters[7]++;
            if (strstr(vf_abort_msg, "Not implemented") && ((t == 0 && incy != 1) || (t != 0 && incx != 1)))
                vf_viol(c, t == 0 ? "gemv-incy-not-implemented" : "gemv-incx-not-implemented",
                        "sp_%cgemv(\"%s\", incx=%d, incy=%d) called ABORT(\"%s\"): the header documents any non-zero %s", P->letter, trans, incx, incy, vf_abort_msg, t == 0 ? "INCY" : "INCX");
            else vf_viol(c, "gemv-abort", "sp_%cgemv(\"%s\", incx=%d, incy=%d) called ABORT(\"%s\")", P->letter, trans, incx, incy, vf_abort_msg);
            expect_ok = 0;
        }
        if (expect_ok) {
            long out = c14_buf_outside(P, &yb); int noop = out < 0; ld worst = 0; int bad = -1;
            for (int i = 0; i < leny; i++) {
                ldc v = P->get(yb.buf, ypos[i]); ld e = cabsl(v - ref[i]); ld q = e / bnd[i];
                if (!(e <= bnd[i])) { if (bad < 0) bad = i; } else if (q > worst) worst = q;
                if (memcmp((char *)yb.buf + P->ssz * ypos[i], yb.snap + P->ssz * ypos[i], P->ssz)) noop = 0;
            }
            if (out < 0 && bad < 0) { c->counters[2] += leny; c->counters[3] = (long)(worst * 1000); }
            if (!c14_buf_unchanged(P, &xb)) vf_viol(c, "gemv-x-modified", "sp_%cgemv(\"%s\") changed the input vector x or its surroundings", P->letter, trans);
            else if (out >= 0 || bad >= 0) {
                if (mode == 2) {
                    char key[64];
                    if (noop) snprintf(key, sizeof key, "gemv-lowercase-%s-rejected", trans); else snprintf(key, sizeof key, "gemv-lowercase-%s-wrong-y", trans);
                    vf_viol(c, key, "sp_%cgemv(\"%s\") on %dx%d A, alpha=(%Lg,%Lg) beta=(%Lg,%Lg): %s; the header documents the lower-case spelling",
                            P->letter, trans, m, n, creall(alpha), cimagl(alpha), creall(beta), cimagl(beta),
                            noop ? "y returned unchanged (call silently rejected)" : out >= 0 ? "elements outside the documented extent of y were written" : "y differs from alpha*op(A)*x+beta*y");
                } else if (out >= 0) vf_viol(c, "gemv-wrote-outside-y", "sp_%cgemv(\"%s\", incx=%d, incy=%d) on %dx%d A changed element %ld of the y buffer, which is not one of the %d strided output elements (first at %zu)", P->letter, trans, incx, incy, m, n, out, leny, (size_t)G);
                else { ldc v = P->get(yb.buf, ypos[bad]);
                    vf_viol(c, "gemv-result", "sp_%cgemv(\"%s\", incx=%d, incy=%d) on %dx%d A: y[%d] = (%.10Lg,%.10Lg), alpha*op(A)*x+beta*y = (%.10Lg,%.10Lg), allowed error %.3Lg; alpha=(%Lg,%Lg) beta=(%Lg,%Lg)",
                            P->letter, trans, incx, incy, m, n, bad, creall(v), cimagl(v), creall(ref[bad]), cimagl(ref[bad]), bnd[bad], creall(alpha), cimagl(alpha), creall(beta), cimagl(beta)); }
            } else c->nontrivial = (m >= 2 || n >= 2) && A.nnz > 0;
        }
        c14_buf_free(&xb); c14_buf_free(&yb); free(x); free(y0); free(ref); free(bnd); free(ypos);
    } else {
        int tb = 0;                                   /* op(B): 0 N, 1 T, 2 C */
        int nc = rng_bool(r, 0.04) ? 0 : rng_int(r, 1, 4);
        if (mode == 3) { tb = rng_int(r, 1, 2); nc = lenx; }
        const char *transb = mode == 3 ? c14_trans_sp[0][tb] : c14_trans_sp[rng_int(r, 0, 2)][0];
        int ldb = lenx + (rng_bool(r, 0.5) ? rng_int(r, 1, 4) : 0), ldc_ = leny + (rng_bool(r, 0.5) ? rng_int(r, 1, 4) : 0);
        size_t G = (size_t)mx + 4;
        vf_tag(c, "transb=%c", "NTC"[tb]); vf_tag(c, "ncols=%d", nc > 2 ? 2 : nc); vf_tag(c, "ldbpad=%d", ldb > lenx); vf_tag(c, "ldcpad=%d", ldc_ > leny);
        vf_desc(c, "%s; gemm(\"%s\",\"%s\") ncols=%d ldb=%d ldc=%d alpha=(%Lg,%Lg) beta=(%Lg,%Lg)", buf, trans, transb, nc, ldb, ldc_, creall(alpha), cimagl(alpha), creall(beta), cimagl(beta));
        c14_buf bb, cbuf; c14_buf_init(P, &bb, 2 * G + (size_t)ldb * (size_t)(nc + 1), 300.0L); c14_buf_init(P, &cbuf, 2 * G + (size_t)ldc_ * (size_t)(nc + 1), 900.0L);
        size_t nb = (size_t)lenx * (size_t)(nc > 0 ? nc : 1), ncc = (size_t)leny * (size_t)(nc > 0 ? nc : 1);
        ldc *Bv = malloc(sizeof(ldc) * nb), *C0 = malloc(sizeof(ldc) * ncc), *ref = malloc(sizeof(ldc) * ncc), *ref2 = malloc(sizeof(ldc) * ncc), *xcol = malloc(sizeof(ldc) * (size_t)lenx);
        ld *bnd = malloc(sizeof(ld) * ncc), *bnd2 = malloc(sizeof(ld) * ncc);
        for (int j = 0; j < nc; j++) for (int i = 0; i < lenx; i++) { ldc v = rng_bool(r, 0.1) ? 0 : c14_rand_scalar(r, P, 0); Bv[(size_t)j * lenx + i] = v; size_t p = G + (size_t)j * ldb + i; P->set(bb.buf, p, v); bb.islog[p] = 1; }
        for (int j = 0; j < nc; j++) for (int i = 0; i < leny; i++) { ldc v = beta == 0 ? c14_junk(r, P) : c14_rand_scalar(r, P, 0); C0[(size_t)j * leny + i] = v; size_t p = G + (size_t)j * ldc_ + i; P->set(cbuf.buf, p, v); cbuf.islog[p] = 1; }
        c14_buf_seal(P, &bb); c14_buf_seal(P, &cbuf);
        for (int j = 0; j < nc; j++) {
            for (int i = 0; i < lenx; i++) xcol[i] = tb == 0 ? Bv[(size_t)j * lenx + i] : tb == 1 ? Bv[(size_t)i * lenx + j] : conjl(Bv[(size_t)i * lenx + j]);
            c14_mv_ref(P, &A, t, alpha, beta, xcol, &C0[(size_t)j * leny], leny, &ref[(size_t)j * leny], &bnd[(size_t)j * leny]);
            if (tb) c14_mv_ref(P, &A, t, alpha, beta, &Bv[(size_t)j * lenx], &C0[(size_t)j * leny], leny, &ref2[(size_t)j * leny], &bnd2[(size_t)j * leny]);
        }
        jmp_buf jb;
        if (VF_TRY_BEGIN(jb)) { P->gemm((char *)trans, (char *)transb, leny, nc, lenx, alpha, &SA, (char *)bb.buf + P->ssz * G, ldb, beta, (char *)cbuf.buf + P->ssz * G, ldc_); }
        else aborted = 1;
        VF_TRY_END();
        if (aborted) { c->counters[7]++; vf_viol(c, "gemm-abort", "sp_%cgemm(\"%s\",\"%s\") called ABORT(\"%s\")", P->letter, trans, transb, vf_abort_msg); }
        else {
            long out = c14_buf_outside(P, &cbuf); int noop = out < 0; ld worst = 0; long bad = -1; int plain_ok = tb != 0;
            for (int j = 0; j < nc; j++) for (int i = 0; i < leny; i++) {
                size_t p = G + (size_t)j * ldc_ + i, k = (size_t)j * leny + i; ldc v = P->get(cbuf.buf, p); ld e = cabsl(v - ref[k]);
                if (!(e <= bnd[k])) { if (bad < 0) bad = (long)k; } else if (e / bnd[k] > worst) worst = e / bnd[k];
                if (tb && !(cabsl(v - ref2[k]) <= bnd2[k])) plain_ok = 0;
                if (memcmp((char *)cbuf.buf + P->ssz * p, cbuf.snap + P->ssz * p, P->ssz)) noop = 0;
            }
            if (out < 0 && bad < 0) { c->counters[2] += (long)leny * nc; c->counters[3] = (long)(worst * 1000); }
            if (!c14_buf_unchanged(P, &bb)) vf_viol(c, "gemm-B-modified", "sp_%cgemm(\"%s\",\"%s\") changed the input matrix B or its padding", P->letter, trans, transb);
            else if (out >= 0 || bad >= 0) {
                if (mode == 2) {
                    char key[64];
                    if (noop) snprintf(key, sizeof key, "gemm-lowercase-%s-rejected", trans); else snprintf(key, sizeof key, "gemm-lowercase-%s-wrong-c", trans);
                    vf_viol(c, key, "sp_%cgemm(\"%s\",\"%s\") on %dx%d A, %d columns, ldc=%d: %s; the header documents the lower-case spelling", P->letter, trans, transb, m, n, nc, ldc_,
                            noop ? "C returned unchanged (silently rejected)" : out >= 0 ? "elements outside the leading part of C were written" : "C differs from alpha*op(A)*B+beta*C");
                } else if (tb && out < 0 && plain_ok) vf_viol(c, "gemm-transb-ignored", "sp_%cgemm(\"%s\",\"%s\") on %dx%d A with square B (%d x %d): the result equals alpha*op(A)*B+beta*C, not alpha*op(A)*op(B)+beta*C as documented for TRANSB", P->letter, trans, transb, m, n, lenx, lenx);
                else if (out >= 0) vf_viol(c, "gemm-wrote-outside-c", "sp_%cgemm(\"%s\",\"%s\") changed element %ld of the C buffer outside its leading %d x %d part (ldc=%d)", P->letter, trans, transb, out - (long)G, leny, nc, ldc_);
                else { size_t p = G + (size_t)(bad / leny) * ldc_ + (size_t)(bad % leny); ldc v = P->get(cbuf.buf, p);
                    vf_viol(c, "gemm-result", "sp_%cgemm(\"%s\",\"%s\") on %dx%d A: C(%ld,%ld) = (%.10Lg,%.10Lg), expected (%.10Lg,%.10Lg), allowed error %.3Lg; alpha=(%Lg,%Lg) beta=(%Lg,%Lg) ldb=%d ldc=%d",
                            P->letter, trans, transb, m, n, bad % leny, bad / leny, creall(v), cimagl(v), creall(ref[bad]), cimagl(ref[bad]), bnd[bad], creall(alpha), cimagl(alpha), creall(beta), cimagl(beta), ldb, ldc_); }
            } else c->nontrivial = (m >= 2 || n >= 2) && A.nnz > 0 && nc > 0;
        }
        c14_buf_free(&bb); c14_buf_free(&cbuf); free(Bv); free(C0); free(ref); free(ref2); free(xcol); free(bnd); free(bnd2);
    }
    if (c->verdict != 1) {
        vf_snap i2, v2; snap_sparse(P, &SA, &i2, &v2);
        if (!snap_same(&ai, &i2) || !snap_same(&av, &v2)) vf_viol(c, is_gemm ? "gemm-A-modified" : "gemv-A-modified", "sp_%c%s changed the arrays of A", P->letter, kind);
        snap_free(&i2); snap_free(&v2);
    }
    snap_free(&ai); snap_free(&av); free_sparse(&SA); mat_free(&A);
}

/* ------------------------------------------------------------------ case */
static void c14_run(vf_case *c)
{
    vf_rng *r = &c->rng;
    double u = rng_unif(r);
    if (u < 0.25) c14_mv(c, 0);
    else if (u < 0.37) c14_mv(c, 1);
    else {
        int want_gstrs = u >= 0.72;
        gen_tuning(r, rng_bool(r, 0.9));
        SuperLUStat_t stat; StatInit(&stat);
        c14_fac F;
        if (c14_get_factors(c, &F, &stat)) {
            char tb[100]; tuning_str(tb, sizeof tb); vf_desc(c, "%s; ", tb);
            if (want_gstrs) c14_gstrs(c, &F, &stat); else c14_trsv(c, &F, &stat);
        }
        c14_fac_free(&F);
        StatFree(&stat);
    }
    vf_check_ledger(c, "after kernel calls");
}

VF_REGISTER("C14", c14_run)
