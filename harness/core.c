/* Building library objects from generated matrices; snapshots. */
#include "vf.h"

/* arrays handed to the library's Destroy_* must come from SUPERLU_MALLOC */
static void *lmalloc(size_t n) { void *p = SUPERLU_MALLOC(n ? n : 1); if (!p) { fprintf(stderr, "harness: out of memory\n"); exit(VF_EXIT_PROTO); } return p; }

void mk_sparse(const vf_api *P, const vf_mat *A, int rowmajor, SuperMatrix *S)
{
    if (!rowmajor) {
        int_t *cp = lmalloc(sizeof(int_t) * (size_t)(A->n + 1)), *ri = lmalloc(sizeof(int_t) * (size_t)(A->nnz + 1));
        void *v = lmalloc(P->ssz * (size_t)(A->nnz + 1));
        memcpy(cp, A->colptr, sizeof(int_t) * (size_t)(A->n + 1)); memcpy(ri, A->rowind, sizeof(int_t) * (size_t)A->nnz);
        for (int_t k = 0; k < A->nnz; k++) P->set(v, (size_t)k, A->v[k]);
        P->Create_CompCol(S, A->m, A->n, A->nnz, v, ri, cp, SLU_NC, P->dtype, SLU_GE);
    } else {
        vf_mat T; mat_transpose(&T, A);   /* CSC of A^T == CSR of A */
        int_t *rp = lmalloc(sizeof(int_t) * (size_t)(A->m + 1)), *ci = lmalloc(sizeof(int_t) * (size_t)(A->nnz + 1));
        void *v = lmalloc(P->ssz * (size_t)(A->nnz + 1));
        memcpy(rp, T.colptr, sizeof(int_t) * (size_t)(A->m + 1)); memcpy(ci, T.rowind, sizeof(int_t) * (size_t)A->nnz);
        for (int_t k = 0; k < A->nnz; k++) P->set(v, (size_t)k, T.v[k]);
        P->Create_CompRow(S, A->m, A->n, A->nnz, v, ci, rp, SLU_NR, P->dtype, SLU_GE);
        mat_free(&T);
    }
}
void free_sparse(SuperMatrix *S)
{
    if (!S->Store) return;
    if (S->Stype == SLU_NR) Destroy_CompRow_Matrix(S); else Destroy_CompCol_Matrix(S);
    S->Store = NULL;
}
void mk_dense(const vf_api *P, int m, int ncol, int ld_, const ldc *cm, SuperMatrix *D, ldc padval)
{
    size_t tot = (size_t)ld_ * (size_t)(ncol > 0 ? ncol : 1) + 1;
    void *v = lmalloc(P->ssz * tot);
    for (size_t k = 0; k < tot; k++) P->set(v, k, padval);
    if (cm) for (int j = 0; j < ncol; j++) for (int i = 0; i < m; i++) P->set(v, (size_t)j * ld_ + i, cm[(size_t)j * m + i]);
    P->Create_Dense(D, m, ncol, v, ld_, SLU_DN, P->dtype, SLU_GE);
}
void free_dense(SuperMatrix *D) { if (D->Store) { Destroy_Dense_Matrix(D); D->Store = NULL; } }
void dense_read(const vf_api *P, const SuperMatrix *D, ldc *out)
{
    DNformat *s = D->Store; int m = (int)D->nrow, nc = (int)D->ncol;
    for (int j = 0; j < nc; j++) for (int i = 0; i < m; i++) out[(size_t)j * m + i] = P->get(s->nzval, (size_t)j * s->lda + i);
}
int dense_padding_intact(const vf_api *P, const SuperMatrix *D, ldc padval)
{
    DNformat *s = D->Store; int m = (int)D->nrow, nc = (int)D->ncol; ldc pv = P->round(padval);
    for (int j = 0; j < nc; j++) for (int i = m; i < s->lda; i++) {
        ldc v = P->get(s->nzval, (size_t)j * s->lda + i);
        if (creall(v) != creall(pv) || cimagl(v) != cimagl(pv)) return 0;
    }
    return 1;
}
void sparse_read(const vf_api *P, const SuperMatrix *S, vf_mat *out)
{
    vf_mat T; NCformat *s = S->Store;   /* NRformat has the same layout */
    if (S->Stype == SLU_NR) { T.m = (int)S->ncol; T.n = (int)S->nrow; } else { T.m = (int)S->nrow; T.n = (int)S->ncol; }
    T.nnz = s->colptr[T.n];
    T.colptr = malloc(sizeof(int_t) * (size_t)(T.n + 1)); memcpy(T.colptr, s->colptr, sizeof(int_t) * (size_t)(T.n + 1));
    T.rowind = malloc(sizeof(int_t) * (size_t)(T.nnz + 1)); memcpy(T.rowind, s->rowind, sizeof(int_t) * (size_t)T.nnz);
    T.v = malloc(sizeof(ldc) * (size_t)(T.nnz + 1)); for (int_t k = 0; k < T.nnz; k++) T.v[k] = P->get(s->nzval, (size_t)k);
    if (S->Stype == SLU_NR) { mat_transpose(out, &T); mat_free(&T); } else *out = T;
}

void snap_bytes(const void *p, size_t n, vf_snap *s) { s->n = n; s->b = malloc(n ? n : 1); if (n) memcpy(s->b, p, n); }
void snap_sparse(const vf_api *P, const SuperMatrix *S, vf_snap *idx, vf_snap *val)
{
    NCformat *s = S->Store; int nc = S->Stype == SLU_NR ? (int)S->nrow : (int)S->ncol; int_t nnz = s->colptr[nc];
    if (idx) { idx->n = sizeof(int_t) * (size_t)(nc + 1 + nnz) + sizeof(int_t); idx->b = malloc(idx->n);
        memcpy(idx->b, s->colptr, sizeof(int_t) * (size_t)(nc + 1)); memcpy(idx->b + sizeof(int_t) * (size_t)(nc + 1), s->rowind, sizeof(int_t) * (size_t)nnz);
        memcpy(idx->b + sizeof(int_t) * (size_t)(nc + 1 + nnz), &s->nnz, sizeof(int_t)); }
    if (val) snap_bytes(s->nzval, P->ssz * (size_t)nnz, val);
}
void snap_dense(const vf_api *P, const SuperMatrix *D, vf_snap *s)
{
    DNformat *d = D->Store; snap_bytes(d->nzval, P->ssz * (size_t)d->lda * (size_t)(D->ncol > 0 ? D->ncol : 0), s);
}
int snap_same(const vf_snap *a, const vf_snap *b) { return a->n == b->n && (a->n == 0 || !memcmp(a->b, b->b, a->n)); }
void snap_free(vf_snap *s) { free(s->b); s->b = NULL; s->n = 0; }

void vf_ws_fill(vf_case *c, void *p, size_t n)
{
#if defined(__has_feature)
#if __has_feature(memory_sanitizer)
    (void)c; (void)p; (void)n; return;
#endif
#endif
    if (getenv("VF_NOJUNK")) return;
    static const unsigned char pats[] = { 0xA5, 0xFF, 0x7F, 0x01 };
    unsigned char b = pats[(unsigned long)c->index % 4];
    if (c->index % 6 == 3) {   /* what an earlier factorization leaves behind: small integers that look like column / row numbers and marks */
        uint64_t z = (uint64_t)c->index * 0x9E3779B97F4A7C15ULL + 7; unsigned char *q = p;
        for (size_t i = 0; i < n / 4; i++) { z = z * 6364136223846793005ULL + 1442695040888963407ULL; int32_t v = (int32_t)((z >> 40) % 50) - 1; memcpy(q + 4 * i, &v, 4); }
        memset((unsigned char *)p + (n / 4) * 4, 0, n % 4);
    }
    else if (c->index % 5 == 4) { uint64_t z = (uint64_t)c->index * 0x9E3779B97F4A7C15ULL + 1; unsigned char *q = p; for (size_t i = 0; i < n; i++) { z = z * 6364136223846793005ULL + 1442695040888963407ULL; q[i] = (unsigned char)(z >> 56); } }
    else memset(p, b, n);
}
void *vf_ws_alloc(vf_case *c, size_t n) { void *p = malloc(n ? n : 1); if (p) vf_ws_fill(c, p, n); return p; }
