/* C18 - illegal arguments are rejected with the documented negative info, and a rejected call has
 * not modified the caller's matrix, right-hand sides, solution array, permutations, scale factors
 * or factor objects, nor retained any allocation.
 *
 * Fault enumeration over a TABLE of (routine, single-argument corruption, documented info)
 * transcribed from the header comments of ?gssv, ?gssvx, ?gsisx, ?gstrs, ?gsrfs, ?gscon, ?gsequ and
 * sp_?trsv.  case index -> (table row = index % NROWS, base-call slot = index / NROWS), so that
 * `count = NROWS * NB` cases per precision enumerate the whole table x NB base calls.
 *
 * For each row: a VALID call is built and executed first (its info must be >= 0: the base really is
 * valid; FACTORED / SamePattern_SameRowPerm rows keep the real factors of that call), the caller's
 * objects are re-initialised, exactly one argument is corrupted, every object the property names is
 * snapshotted byte-wise, the routine is called, and the oracle demands
 *      info == -(documented position), all snapshots unchanged, no allocation retained,
 *      no bad free, no ABORT.
 * Rows with doc = 0 ("probes") are executed and recorded in the evidence but nothing is asserted.
 */
#include "vf.h"
#include <limits.h>

/* ------------------------------------------------------------------ the table */
enum { RT_GSSV, RT_GSSVX, RT_GSISX, RT_GSTRS, RT_GSRFS, RT_GSCON, RT_GSEQU, RT_TRSV, RT__N };
static const char *rt_name[RT__N] = { "gssv", "gssvx", "gsisx", "gstrs", "gsrfs", "gscon", "gsequ", "trsv" };

enum { TG_FACT, TG_OTRANS, TG_EQUIL, TG_COLPERM, TG_TRANS, TG_A, TG_L, TG_U, TG_B, TG_X, TG_EQUED, TG_R, TG_C,
       TG_LWORK, TG_NORM, TG_UPLO, TG_TRCH, TG_DIAG };
enum { K_ENUM, K_ROWP1, K_COLP1, K_NEG, K_ROWNEG, K_COLNEG, K_STYPE, K_DTYPE, K_MTYPE, K_LDA, K_NCOLNEG, K_NCOLP1,
       K_LETTER, K_NONPOS, K_LWORK };
enum { NEED_ANY, NEED_FACTORED, NEED_ROWEQ, NEED_COLEQ };

typedef struct {
    short rt, pos, tgt, kind; int val; short need, doc;
    const char *cls;    /* class of the corruption: part of the violation key */
    const char *what;   /* unique (within routine+position) description */
} row_t;

#define ROW(rt, pos, tg, k, v, need, doc, cls, what) { rt, pos, tg, k, v, need, doc, cls, what },
/* dimension corruptions of a square matrix argument */
#define DIMS(rt, pos, tg, need) \
    ROW(rt, pos, tg, K_ROWP1, 0, need, 1, "nonsquare", "nrow=n+1") \
    ROW(rt, pos, tg, K_COLP1, 0, need, 1, "nonsquare", "ncol=n+1") \
    ROW(rt, pos, tg, K_NEG,   0, need, 1, "negdim",    "nrow=ncol=-1")
#define DT3(rt, pos, tg, need, doc) \
    ROW(rt, pos, tg, K_DTYPE, 0, need, doc, "Dtype", "Dtype=other#0") \
    ROW(rt, pos, tg, K_DTYPE, 1, need, doc, "Dtype", "Dtype=other#1") \
    ROW(rt, pos, tg, K_DTYPE, 2, need, doc, "Dtype", "Dtype=other#2")
#define ST(rt, pos, tg, need, doc, v) ROW(rt, pos, tg, K_STYPE, v, need, doc, "Stype", "Stype=" #v)
#define MT(rt, pos, tg, need, doc, v) ROW(rt, pos, tg, K_MTYPE, v, need, doc, "Mtype", "Mtype=" #v)
/* general sparse matrix A of a driver (Stype NC or NR allowed) */
#define DRV_A(rt) DIMS(rt, 2, TG_A, NEED_ANY) \
    ST(rt, 2, TG_A, NEED_ANY, 1, SLU_NCP) ST(rt, 2, TG_A, NEED_ANY, 1, SLU_SC) ST(rt, 2, TG_A, NEED_ANY, 1, SLU_DN) ST(rt, 2, TG_A, NEED_ANY, 1, 99) \
    DT3(rt, 2, TG_A, NEED_ANY, 1) \
    MT(rt, 2, TG_A, NEED_ANY, 1, SLU_TRU) MT(rt, 2, TG_A, NEED_ANY, 1, SLU_SYL) MT(rt, 2, TG_A, NEED_ANY, 1, SLU_HEU)
/* factor L (SC / TRLU) and factor U (NC / TRU) of a computational routine; tagdoc = are the type tags asserted */
#define FAC_L(rt, pos, tagdoc) DIMS(rt, pos, TG_L, NEED_ANY) \
    ST(rt, pos, TG_L, NEED_ANY, tagdoc, SLU_NC) ST(rt, pos, TG_L, NEED_ANY, tagdoc, SLU_SCP) ST(rt, pos, TG_L, NEED_ANY, tagdoc, SLU_SR) \
    DT3(rt, pos, TG_L, NEED_ANY, tagdoc) \
    MT(rt, pos, TG_L, NEED_ANY, tagdoc, SLU_GE) MT(rt, pos, TG_L, NEED_ANY, tagdoc, SLU_TRL) MT(rt, pos, TG_L, NEED_ANY, tagdoc, SLU_TRU)
#define FAC_U(rt, pos, tagdoc) DIMS(rt, pos, TG_U, NEED_ANY) \
    ST(rt, pos, TG_U, NEED_ANY, tagdoc, SLU_SC) ST(rt, pos, TG_U, NEED_ANY, tagdoc, SLU_NCP) ST(rt, pos, TG_U, NEED_ANY, tagdoc, SLU_NR) \
    DT3(rt, pos, TG_U, NEED_ANY, tagdoc) \
    MT(rt, pos, TG_U, NEED_ANY, tagdoc, SLU_GE) MT(rt, pos, TG_U, NEED_ANY, tagdoc, SLU_TRUU) MT(rt, pos, TG_U, NEED_ANY, tagdoc, SLU_TRLU)
/* dense argument (B or X): leading dimension and type tags */
#define DENSE(rt, pos, tg) \
    ROW(rt, pos, tg, K_LDA, 1, NEED_ANY, 1, "lda", "lda=n-1") ROW(rt, pos, tg, K_LDA, 3, NEED_ANY, 1, "lda", "lda=-1") \
    ST(rt, pos, tg, NEED_ANY, 1, SLU_NC) ST(rt, pos, tg, NEED_ANY, 1, SLU_SC) \
    DT3(rt, pos, tg, NEED_ANY, 1) \
    MT(rt, pos, tg, NEED_ANY, 1, SLU_TRU) MT(rt, pos, tg, NEED_ANY, 1, SLU_SYU)
#define TRANS_ARG(rt) \
    ROW(rt, 1, TG_TRANS, K_ENUM, 3, NEED_ANY, 1, "enum", "trans=3") ROW(rt, 1, TG_TRANS, K_ENUM, -1, NEED_ANY, 1, "enum", "trans=-1")
/* expert drivers: same argument list up to position 14 */
#define XDRV(rt) \
    ROW(rt, 1, TG_FACT,   K_ENUM, 4,  NEED_ANY, 1, "enum", "Fact=4")   ROW(rt, 1, TG_FACT,   K_ENUM, -1, NEED_ANY, 1, "enum", "Fact=-1") \
    ROW(rt, 1, TG_OTRANS, K_ENUM, 3,  NEED_ANY, 1, "enum", "Trans=3")  ROW(rt, 1, TG_OTRANS, K_ENUM, -1, NEED_ANY, 1, "enum", "Trans=-1") \
    ROW(rt, 1, TG_EQUIL,  K_ENUM, 2,  NEED_ANY, 1, "enum", "Equil=2")  ROW(rt, 1, TG_EQUIL,  K_ENUM, -1, NEED_ANY, 1, "enum", "Equil=-1") \
    DRV_A(rt) \
    ROW(rt, 6, TG_EQUED, K_LETTER, 'X', NEED_FACTORED, 1, "letter", "equed='X'") ROW(rt, 6, TG_EQUED, K_LETTER, 'n', NEED_FACTORED, 1, "letter", "equed='n'") \
    ROW(rt, 6, TG_EQUED, K_LETTER, 'r', NEED_FACTORED, 1, "letter", "equed='r'") ROW(rt, 6, TG_EQUED, K_LETTER, 0,   NEED_FACTORED, 1, "letter", "equed=NUL") \
    ROW(rt, 7, TG_R, K_NONPOS, 0, NEED_ROWEQ, 1, "nonpositive", "R[k]=0") ROW(rt, 7, TG_R, K_NONPOS, 1, NEED_ROWEQ, 1, "nonpositive", "R[k]<0") \
    ROW(rt, 8, TG_C, K_NONPOS, 0, NEED_COLEQ, 1, "nonpositive", "C[k]=0") ROW(rt, 8, TG_C, K_NONPOS, 1, NEED_COLEQ, 1, "nonpositive", "C[k]<0") \
    ROW(rt, 12, TG_LWORK, K_LWORK, -2, NEED_ANY, 1, "lwork", "lwork=-2") ROW(rt, 12, TG_LWORK, K_LWORK, -1000000, NEED_ANY, 1, "lwork", "lwork=-1000000") \
    ROW(rt, 12, TG_LWORK, K_LWORK, INT_MIN, NEED_ANY, 1, "lwork", "lwork=INT_MIN") \
    ROW(rt, 13, TG_B, K_NCOLNEG, 0, NEED_ANY, 1, "ncol", "ncol=-1") DENSE(rt, 13, TG_B) \
    ROW(rt, 14, TG_X, K_NCOLNEG, 0, NEED_ANY, 1, "ncol", "ncol=-1") ROW(rt, 14, TG_X, K_NCOLP1, 0, NEED_ANY, 1, "mismatch", "X.ncol=B.ncol+1") DENSE(rt, 14, TG_X)

static const row_t TABLE[] = {
    /* ---- ?gssv(options, A, perm_c, perm_r, L, U, B, stat, info) */
    ROW(RT_GSSV, 1, TG_FACT, K_ENUM, 4, NEED_ANY, 1, "enum", "Fact=4") ROW(RT_GSSV, 1, TG_FACT, K_ENUM, -1, NEED_ANY, 1, "enum", "Fact=-1")
    ROW(RT_GSSV, 1, TG_FACT, K_ENUM, FACTORED, NEED_ANY, 0, "enum", "Fact=FACTORED")       /* probe: not documented as illegal */
    ROW(RT_GSSV, 1, TG_FACT, K_ENUM, SamePattern, NEED_ANY, 0, "enum", "Fact=SamePattern") /* probe */
    ROW(RT_GSSV, 1, TG_COLPERM, K_ENUM, 99, NEED_ANY, 0, "enum", "ColPerm=99")             /* probe: library ABORTs */
    DRV_A(RT_GSSV)
    ROW(RT_GSSV, 7, TG_B, K_NCOLNEG, 0, NEED_ANY, 1, "ncol", "ncol=-1") DENSE(RT_GSSV, 7, TG_B)
    /* ---- ?gssvx / ?gsisx (options, A, perm_c, perm_r, etree, equed, R, C, L, U, work, lwork, B, X, ...) */
    XDRV(RT_GSSVX)
    ROW(RT_GSSVX, 1, TG_COLPERM, K_ENUM, 99, NEED_ANY, 0, "enum", "ColPerm=99")            /* probe */
    XDRV(RT_GSISX)
    /* ---- ?gstrs(trans, L, U, perm_c, perm_r, B, stat, info) */
    TRANS_ARG(RT_GSTRS) FAC_L(RT_GSTRS, 2, 1) FAC_U(RT_GSTRS, 3, 1) DENSE(RT_GSTRS, 6, TG_B)
    /* ---- ?gsrfs(trans, A, L, U, perm_c, perm_r, equed, R, C, B, X, ferr, berr, stat, info) */
    TRANS_ARG(RT_GSRFS)
    DIMS(RT_GSRFS, 2, TG_A, NEED_ANY)
    ST(RT_GSRFS, 2, TG_A, NEED_ANY, 1, SLU_NR) ST(RT_GSRFS, 2, TG_A, NEED_ANY, 1, SLU_NCP) ST(RT_GSRFS, 2, TG_A, NEED_ANY, 1, SLU_SC)
    DT3(RT_GSRFS, 2, TG_A, NEED_ANY, 1) MT(RT_GSRFS, 2, TG_A, NEED_ANY, 1, SLU_TRU) MT(RT_GSRFS, 2, TG_A, NEED_ANY, 1, SLU_SYL)
    FAC_L(RT_GSRFS, 3, 1) FAC_U(RT_GSRFS, 4, 1)
    ROW(RT_GSRFS, 7, TG_EQUED, K_LETTER, 'X', NEED_ANY, 0, "letter", "equed='X'")          /* probe: letters documented, no check */
    DENSE(RT_GSRFS, 10, TG_B) DENSE(RT_GSRFS, 11, TG_X)
    /* ---- ?gscon(norm, L, U, anorm, rcond, stat, info) */
    ROW(RT_GSCON, 1, TG_NORM, K_LETTER, 'X', NEED_ANY, 1, "letter", "norm='X'") ROW(RT_GSCON, 1, TG_NORM, K_LETTER, 'i', NEED_ANY, 1, "letter", "norm='i'")
    ROW(RT_GSCON, 1, TG_NORM, K_LETTER, '0', NEED_ANY, 1, "letter", "norm='0'") ROW(RT_GSCON, 1, TG_NORM, K_LETTER, 0, NEED_ANY, 1, "letter", "norm=NUL")
    FAC_L(RT_GSCON, 2, 1) FAC_U(RT_GSCON, 3, 1)
    /* ---- ?gsequ(A, r, c, rowcnd, colcnd, amax, info) */
    ROW(RT_GSEQU, 1, TG_A, K_ROWNEG, 0, NEED_ANY, 1, "negdim", "nrow=-1") ROW(RT_GSEQU, 1, TG_A, K_COLNEG, 0, NEED_ANY, 1, "negdim", "ncol=-1")
    ST(RT_GSEQU, 1, TG_A, NEED_ANY, 1, SLU_NR) ST(RT_GSEQU, 1, TG_A, NEED_ANY, 1, SLU_NCP) ST(RT_GSEQU, 1, TG_A, NEED_ANY, 1, SLU_DN)
    DT3(RT_GSEQU, 1, TG_A, NEED_ANY, 1) MT(RT_GSEQU, 1, TG_A, NEED_ANY, 1, SLU_TRU) MT(RT_GSEQU, 1, TG_A, NEED_ANY, 1, SLU_SYL)
    /* ---- sp_?trsv(uplo, trans, diag, L, U, x, stat, info): the header documents the type tags of L and U too */
    ROW(RT_TRSV, 1, TG_UPLO, K_LETTER, 'X', NEED_ANY, 1, "letter", "uplo='X'") ROW(RT_TRSV, 1, TG_UPLO, K_LETTER, 0, NEED_ANY, 1, "letter", "uplo=NUL")
    ROW(RT_TRSV, 2, TG_TRCH, K_LETTER, 'X', NEED_ANY, 1, "letter", "trans='X'") ROW(RT_TRSV, 2, TG_TRCH, K_LETTER, 'H', NEED_ANY, 1, "letter", "trans='H'")
    ROW(RT_TRSV, 3, TG_DIAG, K_LETTER, 'X', NEED_ANY, 1, "letter", "diag='X'") ROW(RT_TRSV, 3, TG_DIAG, K_LETTER, 'L', NEED_ANY, 1, "letter", "diag='L'")
    FAC_L(RT_TRSV, 4, 1) FAC_U(RT_TRSV, 5, 1)
};
#define NROWS ((int)(sizeof TABLE / sizeof TABLE[0]))

/* ------------------------------------------------------------------ snapshot registry */
typedef struct { char name[24]; const void *p; size_t n; unsigned char *b; } reg_t;
typedef struct { reg_t r[48]; int k; } regs_t;
static void reg_add(regs_t *g, const char *name, const void *p, size_t n)
{
    if (g->k >= 48) return;
    reg_t *e = &g->r[g->k++]; snprintf(e->name, sizeof e->name, "%s", name); e->p = p; e->n = n;
    e->b = malloc(n ? n : 1); if (n) memcpy(e->b, p, n);
}
static const char *reg_diff(const regs_t *g)
{
    for (int i = 0; i < g->k; i++) if (g->r[i].n && memcmp(g->r[i].b, g->r[i].p, g->r[i].n)) return g->r[i].name;
    return NULL;
}
static void reg_free(regs_t *g) { for (int i = 0; i < g->k; i++) free(g->r[i].b); g->k = 0; }
static void reg_name(char *out, size_t n, const char *obj, const char *part) { snprintf(out, n, "%s.%s", obj, part); }
/* compressed matrix with `nvec` vectors (columns for NC, rows for NR): header, store struct, three arrays */
static void reg_add_comp(regs_t *g, const vf_api *P, const char *obj, const SuperMatrix *S, int nvec)
{
    char nm[24]; NCformat *s = S->Store; int_t nnz = s->colptr[nvec];
    reg_name(nm, sizeof nm, obj, "hdr"); reg_add(g, nm, S, sizeof *S);
    reg_name(nm, sizeof nm, obj, "store"); reg_add(g, nm, s, sizeof *s);
    reg_name(nm, sizeof nm, obj, "nzval"); reg_add(g, nm, s->nzval, P->ssz * (size_t)nnz);
    reg_name(nm, sizeof nm, obj, "rowind"); reg_add(g, nm, s->rowind, sizeof(int_t) * (size_t)nnz);
    reg_name(nm, sizeof nm, obj, "colptr"); reg_add(g, nm, s->colptr, sizeof(int_t) * (size_t)(nvec + 1));
}
static void reg_add_snode(regs_t *g, const vf_api *P, const char *obj, const SuperMatrix *S, int n)
{
    char nm[24]; SCformat *s = S->Store;
    reg_name(nm, sizeof nm, obj, "hdr"); reg_add(g, nm, S, sizeof *S);
    reg_name(nm, sizeof nm, obj, "store"); reg_add(g, nm, s, sizeof *s);
    reg_name(nm, sizeof nm, obj, "nzval"); reg_add(g, nm, s->nzval, P->ssz * (size_t)s->nzval_colptr[n]);
    reg_name(nm, sizeof nm, obj, "nzcolptr"); reg_add(g, nm, s->nzval_colptr, sizeof(int_t) * (size_t)(n + 1));
    reg_name(nm, sizeof nm, obj, "rowind"); reg_add(g, nm, s->rowind, sizeof(int_t) * (size_t)s->rowind_colptr[n]);
    reg_name(nm, sizeof nm, obj, "ricolptr"); reg_add(g, nm, s->rowind_colptr, sizeof(int_t) * (size_t)(n + 1));
    reg_name(nm, sizeof nm, obj, "col2sup"); reg_add(g, nm, s->col_to_sup, sizeof(int) * (size_t)n);
    reg_name(nm, sizeof nm, obj, "sup2col"); reg_add(g, nm, s->sup_to_col, sizeof(int) * (size_t)(s->nsuper + 2));
}
static void reg_add_dense(regs_t *g, const vf_api *P, const char *obj, const SuperMatrix *D, int lda, int cols_alloc)
{
    char nm[24]; DNformat *s = D->Store;
    reg_name(nm, sizeof nm, obj, "hdr"); reg_add(g, nm, D, sizeof *D);
    reg_name(nm, sizeof nm, obj, "store"); reg_add(g, nm, s, sizeof *s);
    reg_name(nm, sizeof nm, obj, "val"); reg_add(g, nm, s->nzval, P->ssz * ((size_t)lda * (size_t)cols_alloc + 1));
}

/* ------------------------------------------------------------------ case context */
#define PADV 777.0L
typedef struct {
    const vf_api *P; vf_case *c; const row_t *rw;
    int m, n, nrhs, ldb, ldx, rowmajor;
    vf_mat Am; ldc *B0, *X0;                 /* n x (nrhs+1) each */
    SuperMatrix A, B, X, L, U; int haveA, haveB, haveX, haveLU, haveStat;
    SuperMatrix sA, sB, sX, sL, sU; DNformat sBst, sXst;   /* pristine headers (restored before cleanup) */
    int *perm_c, *perm_r, *etree; void *R, *C, *ferr, *berr, *xv; char equed[4];
    superlu_options_t opt; SuperLUStat_t stat; GlobalLU_t Glu; mem_usage_t mu;
    void *work; int_t lwork;
    trans_t trans; char norm[4], uplo[4], trch[4], diag[4]; ld anorm;
    double rpg[2], rcond[2], sc3[6];
    char cdesc[96];
} ctx_t;

/* small nonsingular system: full diagonal, column diagonally dominant small integers, optionally scaled by
   powers of two on rows and columns (exact in every precision); rectangular (gsequ only) when m != n */
static void gen_system(vf_rng *r, const vf_api *P, int m, int n, int scaled, vf_mat *A)
{
    size_t cap = (size_t)m * (size_t)n + 1;
    A->m = m; A->n = n; A->colptr = malloc(sizeof(int_t) * (size_t)(n + 1)); A->rowind = malloc(sizeof(int_t) * cap); A->v = malloc(sizeof(ldc) * cap);
    double dens = 0.15 + 0.6 * rng_unif(r); int_t k = 0;
    int *re = malloc(sizeof(int) * (size_t)(m + 1)), *ce = malloc(sizeof(int) * (size_t)(n + 1));
    for (int i = 0; i < m; i++) re[i] = scaled ? rng_int(r, -8, 8) : 0;
    for (int j = 0; j < n; j++) ce[j] = scaled ? rng_int(r, -8, 8) : 0;
    for (int j = 0; j < n; j++) {
        A->colptr[j] = k; ld sum = 0; int_t dpos = -1;
        for (int i = 0; i < m; i++) {
            if (i == j && m == n) { dpos = k; A->rowind[k] = i; A->v[k] = 0; k++; continue; }
            if (!rng_bool(r, dens)) continue;
            int a = rng_int(r, 1, 4) * (rng_bool(r, 0.5) ? 1 : -1), bi = P->cplx ? rng_int(r, -3, 3) : 0;
            A->rowind[k] = i; A->v[k] = (ld)a + (ld)bi * I; sum += abs1(A->v[k]); k++;
        }
        if (dpos >= 0) A->v[dpos] = (sum + 1 + rng_int(r, 0, 2)) * (rng_bool(r, 0.5) ? 1 : -1) + (P->cplx ? (ld)rng_int(r, -2, 2) * I : 0);
    }
    A->colptr[n] = k; A->nnz = k;
    for (int j = 0; j < n; j++) for (int_t q = A->colptr[j]; q < A->colptr[j + 1]; q++)
        A->v[q] = P->round(A->v[q] * ldexpl(1.0L, re[A->rowind[q]] + ce[j]));
    free(re); free(ce);
}
static void dense_fill(const vf_api *P, SuperMatrix *D, int m, int cols_alloc, int lda, const ldc *src)
{
    DNformat *s = D->Store; size_t tot = (size_t)lda * (size_t)(cols_alloc > 0 ? cols_alloc : 1) + 1;
    for (size_t k = 0; k < tot; k++) P->set(s->nzval, k, PADV);
    for (int j = 0; j < cols_alloc; j++) for (int i = 0; i < m; i++) P->set(s->nzval, (size_t)j * lda + i, src[(size_t)j * m + i]);
}
static void ctx_free_private(ctx_t *x)
{
    free(x->perm_c); free(x->perm_r); free(x->etree); free(x->R); free(x->C); free(x->ferr); free(x->berr); free(x->xv);
    free(x->work); free(x->B0); free(x->X0); mat_free(&x->Am);
}
/* allocate and generate everything that does not live in the ledger */
static void ctx_init(ctx_t *x, vf_case *c, const row_t *rw, int m, int n, int scaled)
{
    const vf_api *P = c->P; vf_rng *r = &c->rng;
    memset(x, 0, sizeof *x); x->P = P; x->c = c; x->rw = rw; x->m = m; x->n = n;
    x->nrhs = rng_int(r, 1, 3); x->ldb = n + (rng_bool(r, 0.4) ? rng_int(r, 1, 3) : 0); x->ldx = n + (rng_bool(r, 0.4) ? rng_int(r, 1, 3) : 0);
    gen_system(r, P, m, n, scaled, &x->Am);
    size_t tot = (size_t)(m > n ? m : n) * (size_t)(x->nrhs + 1);
    x->B0 = malloc(sizeof(ldc) * tot); x->X0 = malloc(sizeof(ldc) * tot);
    for (size_t k = 0; k < tot; k++) {
        x->B0[k] = P->round((ld)rng_int(r, -8, 8) / 4 + (P->cplx ? (ld)rng_int(r, -8, 8) / 4 * I : 0));
        x->X0[k] = P->round((ld)rng_int(r, -8, 8) / 4 + (P->cplx ? (ld)rng_int(r, -8, 8) / 4 * I : 0));
    }
    int q = (m > n ? m : n) + 2;
    x->perm_c = malloc(sizeof(int) * (size_t)q); x->perm_r = malloc(sizeof(int) * (size_t)q); x->etree = malloc(sizeof(int) * (size_t)q);
    x->R = malloc(P->rsz * (size_t)q); x->C = malloc(P->rsz * (size_t)q);
    x->ferr = malloc(P->rsz * (size_t)(x->nrhs + 2)); x->berr = malloc(P->rsz * (size_t)(x->nrhs + 2));
    x->xv = malloc(P->ssz * (size_t)q);
    for (int i = 0; i < q; i++) { x->perm_c[i] = x->perm_r[i] = x->etree[i] = -12345; P->rset(x->R, (size_t)i, 1.5L); P->rset(x->C, (size_t)i, 1.5L); }
    for (int i = 0; i < x->nrhs + 2; i++) { P->rset(x->ferr, (size_t)i, 9.0L); P->rset(x->berr, (size_t)i, 9.0L); }
    strcpy(x->equed, "N"); strcpy(x->norm, "1"); strcpy(x->uplo, "L"); strcpy(x->trch, "N"); strcpy(x->diag, "U");
    memset(&x->L, 0, sizeof x->L); memset(&x->U, 0, sizeof x->U);
}
static void reset_perms(ctx_t *x, int keep_permc)
{
    for (int i = 0; i < x->n + 2; i++) { if (!keep_permc) x->perm_c[i] = -12345; x->perm_r[i] = x->etree[i] = -12345; x->P->rset(x->R, (size_t)i, 1.5L); x->P->rset(x->C, (size_t)i, 1.5L); }
}
static void destroy_LU(ctx_t *x)
{
    if (x->haveLU) { Destroy_SuperNode_Matrix(&x->L); Destroy_CompCol_Matrix(&x->U); x->haveLU = 0; }
    memset(&x->L, 0, sizeof x->L); memset(&x->U, 0, sizeof x->U);
}
/* orderly end of a case whose library state is known (every call returned, nothing half-built) */
static void ctx_cleanup(ctx_t *x)
{
    if (x->haveLU) { x->L = x->sL; x->U = x->sU; }
    if (x->haveA) x->A = x->sA;
    if (x->haveB) { x->B = x->sB; *(DNformat *)x->B.Store = x->sBst; }
    if (x->haveX) { x->X = x->sX; *(DNformat *)x->X.Store = x->sXst; }
    destroy_LU(x);
    if (x->haveA) free_sparse(&x->A);
    if (x->haveB) free_dense(&x->B);
    if (x->haveX) free_dense(&x->X);
    if (x->haveStat) StatFree(&x->stat);
    ctx_free_private(x);
    vf_check_ledger(x->c, "after the rejected call and the caller's cleanup");
}
/* end of a case whose library state is unknown (accepted illegal call, ABORT, probe, unusable base):
   release everything that is still in the ledger without touching it */
static void ctx_abandon(ctx_t *x)
{
    vf_ledger_purge();
    ctx_free_private(x);
}
static void save_headers(ctx_t *x)
{
    x->sA = x->A; x->sB = x->B; x->sX = x->X; x->sL = x->L; x->sU = x->U;
    if (x->haveB) x->sBst = *(DNformat *)x->B.Store;
    if (x->haveX) x->sXst = *(DNformat *)x->X.Store;
}

static Dtype_t other_dtype(const vf_api *P, int j, int avoid_d)
{
    Dtype_t o[3]; int k = 0;
    for (int d = 0; d < 4; d++) if ((Dtype_t)d != P->dtype) o[k++] = (Dtype_t)d;
    Dtype_t v = o[j % 3];
    /* the headers of [scz]gssvx.c name SLU_D as the Dtype of A (a copy/paste slip): never use SLU_D as the
       "wrong" tag there, so that the row is illegal under either reading of the header */
    if (avoid_d && v == SLU_D) v = o[(j + 1) % 3] == SLU_D ? o[(j + 2) % 3] : o[(j + 1) % 3];
    return v;
}
/* corrupt exactly one argument; returns 0 if the row cannot be applied to this base (never happens for n >= 1) */
static int apply_corruption(ctx_t *x)
{
    const row_t *w = x->rw; const vf_api *P = x->P; SuperMatrix *S = NULL; char *ch = NULL;
    switch (w->tgt) {
    case TG_A: S = &x->A; break; case TG_L: S = &x->L; break; case TG_U: S = &x->U; break;
    case TG_B: S = &x->B; break; case TG_X: S = &x->X; break;
    case TG_EQUED: ch = x->equed; break; case TG_NORM: ch = x->norm; break; case TG_UPLO: ch = x->uplo; break;
    case TG_TRCH: ch = x->trch; break; case TG_DIAG: ch = x->diag; break;
    default: break;
    }
    switch (w->kind) {
    case K_ENUM:
        if (w->tgt == TG_FACT) x->opt.Fact = (fact_t)w->val;
        else if (w->tgt == TG_OTRANS) x->opt.Trans = (trans_t)w->val;
        else if (w->tgt == TG_EQUIL) x->opt.Equil = (yes_no_t)w->val;
        else if (w->tgt == TG_COLPERM) x->opt.ColPerm = (colperm_t)w->val;
        else if (w->tgt == TG_TRANS) x->trans = (trans_t)w->val;
        else return 0;
        break;
    case K_ROWP1: S->nrow = S->nrow + 1; break;
    case K_COLP1: S->ncol = S->ncol + 1; break;
    case K_NEG: S->nrow = S->ncol = -1; break;
    case K_ROWNEG: S->nrow = -1; break;
    case K_COLNEG: S->ncol = -1; break;
    case K_STYPE: S->Stype = (Stype_t)w->val; break;
    case K_DTYPE: S->Dtype = other_dtype(P, w->val, w->rt == RT_GSSVX && w->tgt == TG_A); break;
    case K_MTYPE: S->Mtype = (Mtype_t)w->val; break;
    case K_LDA: ((DNformat *)S->Store)->lda = w->val == 1 ? x->n - 1 : w->val == 2 ? 0 : -1; break;
    case K_NCOLNEG: S->ncol = -1; break;
    case K_NCOLP1: S->ncol = x->nrhs + 1; break;
    case K_LETTER: ch[0] = (char)w->val; break;
    case K_NONPOS: {
        int k = rng_int(&x->c->rng, 0, x->n - 1); ld v = w->val == 0 ? 0.0L : -ldexpl(1.0L, rng_int(&x->c->rng, -20, 20));
        P->rset(w->tgt == TG_R ? x->R : x->C, (size_t)k, v);
        snprintf(x->cdesc, sizeof x->cdesc, " (k=%d value=%Lg)", k, v);
        break; }
    case K_LWORK: x->lwork = (int_t)w->val; break;
    default: return 0;
    }
    return 1;
}

/* ------------------------------------------------------------------ the library calls */
static void call_rt(ctx_t *x, int rt, long long *info)
{
    const vf_api *P = x->P; int_t it = -999; int ii = -999;
    switch (rt) {
    case RT_GSSV: P->gssv(&x->opt, &x->A, x->perm_c, x->perm_r, &x->L, &x->U, &x->B, &x->stat, &it); *info = it; break;
    case RT_GSSVX: P->gssvx(&x->opt, &x->A, x->perm_c, x->perm_r, x->etree, x->equed, x->R, x->C, &x->L, &x->U, x->work, x->lwork,
                            &x->B, &x->X, x->rpg, x->rcond, x->ferr, x->berr, &x->Glu, &x->mu, &x->stat, &it); *info = it; break;
    case RT_GSISX: P->gsisx(&x->opt, &x->A, x->perm_c, x->perm_r, x->etree, x->equed, x->R, x->C, &x->L, &x->U, x->work, x->lwork,
                            &x->B, &x->X, x->rpg, x->rcond, &x->Glu, &x->mu, &x->stat, &it); *info = it; break;
    case RT_GSTRS: P->gstrs(x->trans, &x->L, &x->U, x->perm_c, x->perm_r, &x->B, &x->stat, &ii); *info = ii; break;
    case RT_GSRFS: P->gsrfs(x->trans, &x->A, &x->L, &x->U, x->perm_c, x->perm_r, x->equed, x->R, x->C, &x->B, &x->X, x->ferr, x->berr, &x->stat, &ii); *info = ii; break;
    case RT_GSCON: P->gscon(x->norm, &x->L, &x->U, x->anorm, x->rcond, &x->stat, &ii); *info = ii; break;
    case RT_GSEQU: P->gsequ(&x->A, x->R, x->C, &x->sc3[0], &x->sc3[2], &x->sc3[4], &ii); *info = ii; break;
    case RT_TRSV: P->trsv(x->uplo, x->trch, x->diag, &x->L, &x->U, x->xv, &x->stat, &ii); *info = ii; break;
    }
}
/* returns 1 when the library called ABORT */
static int guarded_call(ctx_t *x, int rt, long long *info)
{
    jmp_buf jb; volatile int aborted = 0;
    *info = -999;
    if (VF_TRY_BEGIN(jb)) call_rt(x, rt, info); else aborted = 1;
    VF_TRY_END();
    return aborted;
}

/* ------------------------------------------------------------------ the oracle */
/* returns 1 when the caller's objects are in a known state (the call returned a negative info) */
static int evaluate(ctx_t *x, regs_t *g, int aborted, long long info, long live_before, uint64_t seq_before)
{
    vf_case *c = x->c; const row_t *w = x->rw; char key[160], base[96];
    snprintf(base, sizeof base, "%s-arg%d-%s", rt_name[w->rt], w->pos, w->cls);
    if (!w->doc) {
        vf_tag(c, "probe:%s-arg%d-%s=%s", rt_name[w->rt], w->pos, w->what, aborted ? "ABORT" : info < 0 ? "rejected" : "accepted");
        vf_log(c, "probe %s: aborted=%d info=%lld", w->what, aborted, info);
        c->counters[2]++;
        return 0;
    }
    c->counters[3] += g->k;
    if (aborted) {
        snprintf(key, sizeof key, "%s/abort", base);
        vf_viol(c, key, "%c%s with %s: the library called ABORT (%s) instead of returning info=-%d", x->P->letter, rt_name[w->rt], w->what, vf_abort_msg, w->pos);
        return 0;
    }
    if (info != -(long long)w->pos) {
        snprintf(key, sizeof key, "%s/info", base);
        vf_viol(c, key, "%c%s with argument %d corrupted (%s%s) returned info=%lld; the header documents info=-%d for an illegal value of that argument",
                x->P->letter, rt_name[w->rt], w->pos, w->what, x->cdesc, info, w->pos);
        vf_tag(c, "outcome=%s", info < 0 ? "wrong-code" : "accepted");
        return info < 0;
    }
    c->counters[1]++;
    vf_tag(c, "outcome=rejected");
    const char *d = reg_diff(g);
    if (d) {
        snprintf(key, sizeof key, "%s/modified-%s", base, d);
        vf_viol(c, key, "%c%s rejected argument %d (%s) with info=%lld but had already modified the caller's %s", x->P->letter, rt_name[w->rt], w->pos, w->what, info, d);
    }
    long live = vf_ledger_live();
    if (live != live_before) {
        vf_block bl[16]; int k = vf_ledger_list(bl, 16); char sites[200] = "";
        for (int i = 0; i < k; i++) if (bl[i].seq > seq_before) { size_t l = strlen(sites); snprintf(sites + l, sizeof sites - l, "%s%s:%d(%zu)", l ? "," : "", bl[i].func, bl[i].line, bl[i].size); }
        snprintf(key, sizeof key, "%s/retained", base);
        vf_viol(c, key, "%c%s rejected argument %d (%s) with info=%lld but %ld allocation(s) made during the call are still live: %s",
                x->P->letter, rt_name[w->rt], w->pos, w->what, info, live - live_before, sites);
    }
    if (vf_bad_frees() > 0) {
        snprintf(key, sizeof key, "%s/badfree", base);
        vf_viol(c, key, "%c%s rejected argument %d (%s) but freed a pointer that is not a live allocation (%s)", x->P->letter, rt_name[w->rt], w->pos, w->what, vf_bad_free_site());
    }
    if (c->verdict == 0) c->counters[0]++;
    return 1;
}
static int base_info_ok(ctx_t *x, int rt, long long info, const char *which)
{
    vf_case *c = x->c; char key[96];
    int ok = info == 0 || ((rt == RT_GSSVX || rt == RT_GSISX) && info == x->n + 1);
    c->counters[4]++;
    if (ok) return 1;
    if (info < 0) {
        snprintf(key, sizeof key, "%s-base-call-rejected", rt_name[rt]);
        vf_viol(c, key, "the VALID %s call of %c%s (before any corruption) returned info=%lld", which, x->P->letter, rt_name[rt], info);
    } else vf_skip(c, "base call did not succeed (info > 0)");
    vf_log(c, "base call %s info=%lld", which, info);
    return 0;
}

/* ------------------------------------------------------------------ drivers */
static const char *fact_names[] = { "DOFACT", "SamePattern", "SamePattern_SameRowPerm", "FACTORED" };
static void set_opts(ctx_t *x, int rt, int colperm, int equil, int trans)
{
    vf_rng *r = &x->c->rng;
    if (rt == RT_GSISX) ilu_set_default_options(&x->opt); else set_default_options(&x->opt);
    x->opt.PrintStat = NO; x->opt.ColPerm = (colperm_t)colperm; x->opt.Equil = equil ? YES : NO; x->opt.Trans = (trans_t)trans;
    if (rt == RT_GSSVX) {
        x->opt.IterRefine = rng_bool(r, 0.5) ? NOREFINE : (IterRefine_t)rng_int(r, 1, 3);
        x->opt.PivotGrowth = rng_bool(r, 0.5) ? YES : NO; x->opt.ConditionNumber = rng_bool(r, 0.5) ? YES : NO;
    }
}
static void run_driver(vf_case *c, const row_t *w, int rowi, int b)
{
    const vf_api *P = c->P; vf_rng *r = &c->rng; ctx_t X, *x = &X; int rt = w->rt; long long info;
    int h = b / 2 + rowi * 7;
    int n = rng_int(r, 1, 9), scaled = rng_bool(r, 0.6);
    ctx_init(x, c, w, n, n, scaled);
    x->rowmajor = b & 1;
    int factmode = rt == RT_GSSV ? DOFACT : w->need == NEED_ANY ? h % 4 : FACTORED;
    const char *eqset = w->need == NEED_ROWEQ ? "RB" : w->need == NEED_COLEQ ? "CB" : "NRCB";
    char eq = factmode == FACTORED ? eqset[(h / 4) % (int)strlen(eqset)] : 'N';
    static const int cps[] = { NATURAL, MMD_ATA, MMD_AT_PLUS_A, COLAMD, MY_PERMC };
    int colperm = rng_pick(r, cps, 5), equil = rng_bool(r, 0.6), trans = rng_int(r, 0, 2);
    /* a caller workspace (lwork > 0) only for asserted rows: an accepted probe would go on to factor inside it, and what
       happens there is the subject of C08/C19, not of this check */
    int use_work = rt != RT_GSSV && (factmode == DOFACT || factmode == SamePattern) && rng_bool(r, 0.3) && w->doc;
    /* the otherwise valid call may also be a workspace size query (lwork = -1 with a factorization requested) */
    int use_query = !use_work && rt != RT_GSSV && factmode != FACTORED && w->doc && w->kind != K_LWORK && rng_bool(r, 0.25);
    gen_tuning(r, 1);
    vf_desc(c, "row %d: %c%s arg %d %s -> documented info -%d%s; base: n=%d %s %s nrhs=%d ldb=%d ldx=%d Fact=%s equed=%c colperm=%s equil=%d trans=%d %s lwork%s",
            rowi, P->letter, rt_name[rt], w->pos, w->what, w->pos, w->doc ? "" : " [probe: undocumented]", n, x->rowmajor ? "NR" : "NC", scaled ? "scaled" : "unscaled",
            x->nrhs, x->ldb, x->ldx, fact_names[factmode], eq, colperm_names[colperm], equil, trans, rt == RT_GSISX ? "ilu" : "", use_work ? ">0" : use_query ? "=-1 (size query)" : "=0");
    if (use_query) vf_tag(c, "base=size-query");
    vf_tag(c, "base=%s/%s/%c", x->rowmajor ? "NR" : "NC", fact_names[factmode], eq);

    mk_sparse(P, &x->Am, x->rowmajor, &x->A); x->haveA = 1;
    mk_dense(P, n, x->nrhs + 1, x->ldb, x->B0, &x->B, PADV); x->B.ncol = x->nrhs; x->haveB = 1;
    mk_dense(P, n, x->nrhs + 1, x->ldx, x->X0, &x->X, PADV); x->X.ncol = x->nrhs; x->haveX = 1;
    if (colperm == MY_PERMC) rng_perm(r, x->perm_c, n);
    StatInit(&x->stat); x->haveStat = 1;

    /* phase 1: the valid call (always a full factorization) */
    set_opts(x, rt, colperm, factmode == DOFACT ? equil : 0, trans);
    x->opt.Fact = DOFACT; x->work = NULL; x->lwork = 0;
    if (guarded_call(x, rt, &info)) { vf_skip(c, "base call aborted"); vf_log(c, "base abort: %s", vf_abort_msg); ctx_abandon(x); return; }
    if (!base_info_ok(x, rt, info, "Fact=DOFACT")) { ctx_abandon(x); return; }
    x->haveLU = 1;
    if (factmode == DOFACT || factmode == SamePattern) {
        destroy_LU(x);
        free_sparse(&x->A); mk_sparse(P, &x->Am, x->rowmajor, &x->A);      /* equilibration may have scaled A */
        if (factmode == DOFACT) { reset_perms(x, colperm == MY_PERMC); strcpy(x->equed, "N"); }
    }
    dense_fill(P, &x->B, n, x->nrhs + 1, x->ldb, x->B0); dense_fill(P, &x->X, n, x->nrhs + 1, x->ldx, x->X0);
    if (factmode == FACTORED) {
        x->equed[0] = eq;
        for (int i = 0; i < n; i++) { P->rset(x->R, (size_t)i, ldexpl(1.0L, rng_int(r, -6, 6))); P->rset(x->C, (size_t)i, ldexpl(1.0L, rng_int(r, -6, 6))); }
        x->opt.Fact = FACTORED; x->opt.Equil = equil ? YES : NO;
        if (guarded_call(x, rt, &info)) { vf_skip(c, "base call aborted"); ctx_abandon(x); return; }
        if (!base_info_ok(x, rt, info, "Fact=FACTORED")) { ctx_abandon(x); return; }
        dense_fill(P, &x->B, n, x->nrhs + 1, x->ldb, x->B0); dense_fill(P, &x->X, n, x->nrhs + 1, x->ldx, x->X0);
        x->equed[0] = eq;
    }
    /* phase 2: the same call with exactly one argument corrupted */
    x->opt.Fact = (fact_t)factmode; x->opt.Equil = equil ? YES : NO;
    if (use_work) { x->lwork = 1 << 16; x->work = malloc((size_t)x->lwork); }
    if (use_query) { x->lwork = -1; x->work = NULL; }
    save_headers(x);
    if (!apply_corruption(x)) { vf_skip(c, "row not applicable"); ctx_cleanup(x); return; }
    regs_t g; g.k = 0;
    reg_add_comp(&g, P, "A", &x->A, n);
    reg_add_dense(&g, P, "B", &x->B, x->ldb, x->nrhs + 1);
    reg_add_dense(&g, P, "X", &x->X, x->ldx, x->nrhs + 1);
    reg_add(&g, "perm_c", x->perm_c, sizeof(int) * (size_t)n); reg_add(&g, "perm_r", x->perm_r, sizeof(int) * (size_t)n);
    if (rt != RT_GSSV) { reg_add(&g, "R", x->R, P->rsz * (size_t)n); reg_add(&g, "C", x->C, P->rsz * (size_t)n); }
    if (x->haveLU) { reg_add_snode(&g, P, "L", &x->L, n); reg_add_comp(&g, P, "U", &x->U, n); }
    else { reg_add(&g, "L.hdr", &x->L, sizeof x->L); reg_add(&g, "U.hdr", &x->U, sizeof x->U); }
    char eq_before = x->equed[0]; int et0 = x->etree[0];
    long live_before = vf_ledger_live(); uint64_t seq_before = vf_alloc_count();
    int aborted = guarded_call(x, rt, &info);
    vf_log(c, "corrupted call: aborted=%d info=%lld equed %c->%c etree[0] %d->%d", aborted, info, eq_before ? eq_before : '0', x->equed[0] ? x->equed[0] : '0', et0, x->etree[0]);
    if (x->equed[0] != eq_before) vf_tag(c, "equed-reset");      /* recorded, not asserted (documented output when not FACTORED) */
    int known = evaluate(x, &g, aborted, info, live_before, seq_before);
    reg_free(&g);
    if (w->doc) c->nontrivial = 1;
    if (known) ctx_cleanup(x); else ctx_abandon(x);
}

/* ------------------------------------------------------------------ computational routines */
/* factor the column-major A with the simple driver: L, U, perm_c, perm_r; B holds the solution afterwards */
static int factor_nc(ctx_t *x)
{
    const vf_api *P = x->P; vf_rng *r = &x->c->rng; long long info;
    static const int cps[] = { NATURAL, MMD_ATA, MMD_AT_PLUS_A, COLAMD };
    gen_tuning(r, 1);
    mk_sparse(P, &x->Am, 0, &x->A); x->haveA = 1;
    mk_dense(P, x->n, x->nrhs + 1, x->ldb, x->B0, &x->B, PADV); x->B.ncol = x->nrhs; x->haveB = 1;
    StatInit(&x->stat); x->haveStat = 1;
    set_default_options(&x->opt); x->opt.PrintStat = NO; x->opt.ColPerm = (colperm_t)rng_pick(r, cps, 4);
    if (guarded_call(x, RT_GSSV, &info)) { vf_skip(x->c, "factorization for the base call aborted"); return 0; }
    if (info != 0) { vf_skip(x->c, "factorization for the base call did not succeed"); vf_log(x->c, "gssv info=%lld", info); return 0; }
    x->haveLU = 1;
    dense_fill(P, &x->B, x->n, x->nrhs + 1, x->ldb, x->B0);
    return 1;
}
static void run_comp(vf_case *c, const row_t *w, int rowi, int b)
{
    const vf_api *P = c->P; vf_rng *r = &c->rng; ctx_t X, *x = &X; int rt = w->rt; long long info;
    int h = b + rowi * 7;
    int n = rng_int(r, 1, 9), m = n, scaled = rng_bool(r, 0.5);
    if (rt == RT_GSEQU && (h & 1)) m = rng_int(r, 1, 9);
    ctx_init(x, c, w, m, n, scaled);
    static const char *trs[3] = { "N", "T", "C" };
    x->trans = (trans_t)(h % 3);
    char eq = "NRCB"[(h / 3) % 4];
    strcpy(x->norm, (const char *[]){ "1", "O", "I" }[h % 3]);
    /* sp_?trsv as the library itself uses it: unit lower / non-unit upper, every trans */
    strcpy(x->uplo, (h & 1) ? "U" : "L"); strcpy(x->diag, (h & 1) ? "N" : "U"); strcpy(x->trch, trs[(h / 2) % 3]);
    vf_desc(c, "row %d: %c%s arg %d %s -> documented info -%d%s; base: %dx%d %s nrhs=%d ldb=%d ldx=%d trans=%d equed=%c norm=%s uplo=%s tr=%s diag=%s",
            rowi, P->letter, rt_name[rt], w->pos, w->what, w->pos, w->doc ? "" : " [probe: undocumented]", m, n, scaled ? "scaled" : "unscaled",
            x->nrhs, x->ldb, x->ldx, (int)x->trans, eq, x->norm, x->uplo, x->trch, x->diag);
    regs_t g; g.k = 0;

    if (rt == RT_GSEQU) {
        vf_tag(c, "base=%s", m == n ? "square" : "rectangular");
        mk_sparse(P, &x->Am, 0, &x->A); x->haveA = 1;
        free(x->R); x->R = malloc(P->rsz * (size_t)(m + 2)); for (int i = 0; i < m + 2; i++) P->rset(x->R, (size_t)i, 1.5L);
        call_rt(x, rt, &info);
        c->counters[4]++;
        if (info < 0) { vf_viol(c, "gsequ-base-call-rejected", "the VALID %cgsequ call returned info=%lld", P->letter, info); ctx_abandon(x); return; }
    } else {
        if (!factor_nc(x)) { ctx_abandon(x); return; }
        if (rt == RT_GSTRS) {
            vf_tag(c, "base=trans%d", (int)x->trans);
            call_rt(x, rt, &info);
            if (!base_info_ok(x, rt, info, "solve")) { ctx_abandon(x); return; }
            dense_fill(P, &x->B, n, x->nrhs + 1, x->ldb, x->B0);
        } else if (rt == RT_GSRFS) {
            vf_tag(c, "base=trans%d/%c", (int)x->trans, eq);
            /* X := solution of op(A) X = B0 from the factors */
            ldc *sol = malloc(sizeof(ldc) * (size_t)n * (size_t)(x->nrhs + 1));
            int ii = -999; P->gstrs(x->trans, &x->L, &x->U, x->perm_c, x->perm_r, &x->B, &x->stat, &ii);
            if (ii != 0) { free(sol); vf_skip(c, "solve for the base call failed"); ctx_abandon(x); return; }
            { DNformat *s = x->B.Store; for (int j = 0; j < x->nrhs + 1; j++) for (int i = 0; i < n; i++) sol[(size_t)j * n + i] = j < x->nrhs ? P->get(s->nzval, (size_t)j * x->ldb + i) : x->X0[(size_t)j * n + i]; }
            dense_fill(P, &x->B, n, x->nrhs + 1, x->ldb, x->B0);
            mk_dense(P, n, x->nrhs + 1, x->ldx, sol, &x->X, PADV); x->X.ncol = x->nrhs; x->haveX = 1;
            x->equed[0] = eq;
            for (int i = 0; i < n; i++) { P->rset(x->R, (size_t)i, ldexpl(1.0L, rng_int(r, -6, 6))); P->rset(x->C, (size_t)i, ldexpl(1.0L, rng_int(r, -6, 6))); }
            call_rt(x, rt, &info);
            if (!base_info_ok(x, rt, info, "refinement")) { free(sol); ctx_abandon(x); return; }
            dense_fill(P, &x->X, n, x->nrhs + 1, x->ldx, sol); free(sol);
        } else if (rt == RT_GSCON) {
            vf_tag(c, "base=norm%s", x->norm);
            x->anorm = P->langs(x->norm, &x->A);
            call_rt(x, rt, &info);
            if (!base_info_ok(x, rt, info, "condition estimate")) { ctx_abandon(x); return; }
        } else { /* RT_TRSV */
            vf_tag(c, "base=%s%s%s", x->uplo, x->trch, x->diag);
            for (int i = 0; i < n; i++) P->set(x->xv, (size_t)i, x->B0[i]);
            call_rt(x, rt, &info);
            if (!base_info_ok(x, rt, info, "triangular solve")) { ctx_abandon(x); return; }
            for (int i = 0; i < n; i++) P->set(x->xv, (size_t)i, x->B0[i]);
        }
    }
    save_headers(x);
    if (!apply_corruption(x)) { vf_skip(c, "row not applicable"); ctx_cleanup(x); return; }
    switch (rt) {
    case RT_GSEQU:
        reg_add_comp(&g, P, "A", &x->A, n); reg_add(&g, "r", x->R, P->rsz * (size_t)m); reg_add(&g, "c", x->C, P->rsz * (size_t)n); break;
    case RT_GSTRS:
        reg_add_snode(&g, P, "L", &x->L, n); reg_add_comp(&g, P, "U", &x->U, n);
        reg_add(&g, "perm_c", x->perm_c, sizeof(int) * (size_t)n); reg_add(&g, "perm_r", x->perm_r, sizeof(int) * (size_t)n);
        reg_add_dense(&g, P, "B", &x->B, x->ldb, x->nrhs + 1); break;
    case RT_GSRFS:
        reg_add_comp(&g, P, "A", &x->A, n); reg_add_snode(&g, P, "L", &x->L, n); reg_add_comp(&g, P, "U", &x->U, n);
        reg_add(&g, "perm_c", x->perm_c, sizeof(int) * (size_t)n); reg_add(&g, "perm_r", x->perm_r, sizeof(int) * (size_t)n);
        reg_add(&g, "R", x->R, P->rsz * (size_t)n); reg_add(&g, "C", x->C, P->rsz * (size_t)n);
        reg_add_dense(&g, P, "B", &x->B, x->ldb, x->nrhs + 1); reg_add_dense(&g, P, "X", &x->X, x->ldx, x->nrhs + 1); break;
    case RT_GSCON:
        reg_add_snode(&g, P, "L", &x->L, n); reg_add_comp(&g, P, "U", &x->U, n); break;
    default: /* RT_TRSV */
        reg_add_snode(&g, P, "L", &x->L, n); reg_add_comp(&g, P, "U", &x->U, n); reg_add(&g, "x", x->xv, P->ssz * (size_t)n); break;
    }
    long live_before = vf_ledger_live(); uint64_t seq_before = vf_alloc_count();
    int aborted = guarded_call(x, rt, &info);
    vf_log(c, "corrupted call: aborted=%d info=%lld", aborted, info);
    int known = evaluate(x, &g, aborted, info, live_before, seq_before);
    reg_free(&g);
    if (w->doc) c->nontrivial = 1;
    if (known) ctx_cleanup(x); else ctx_abandon(x);
}

static void c18_run(vf_case *c)
{
    int rowi = (int)(c->index % NROWS), b = (int)(c->index / NROWS);
    const row_t *w = &TABLE[rowi];
    vf_tag(c, "nrows=%d.", NROWS); vf_tag(c, "row=%03d", rowi); vf_tag(c, "rt=%s", rt_name[w->rt]); vf_tag(c, "prec=%c", c->P->letter);
    vf_tag(c, "code=%s:-%d", rt_name[w->rt], w->pos); vf_tag(c, "class=%s", w->cls); vf_tag(c, "%s", w->doc ? "documented" : "undocumented");
    vf_sig_u64(c, (uint64_t)rowi); vf_sig_u64(c, (uint64_t)b); vf_sig_u64(c, (uint64_t)c->P->prec); vf_sig_u64(c, (uint64_t)sizeof(int_t));
    if (w->rt <= RT_GSISX) run_driver(c, w, rowi, b); else run_comp(c, w, rowi, b);
}

VF_REGISTER("C18", c18_run)
