/* C17 - large-diagonal row permutation (?ldperm job 5, wrapping MC64) is a max-product matching with unit scaling.
 *
 * Contract read from SRC/?ldperm.c + SRC/mc64ad.c:
 *   perm[i] = j  : row i of A goes to row j of the permuted matrix, i.e. a(i, perm[i]) lands on the diagonal;
 *   u, v         : natural logarithms of row / column scale factors, b_ij = a_ij * exp(u_i + v_j),
 *                  |b| = 1 on the permuted diagonal, <= 1 elsewhere;
 *   return value : MC64's INFO(1): 0 ok, 1 structurally singular, 2 "scale factors large" (some u_i or v_j >= log(DBL_MAX)/2),
 *                  negative for illegal n / nnz (nnz = 0 gives -3);
 *   magnitude    : |x| for real, |re|+|im| for complex (?_abs1 in the c/z wrappers); all arithmetic in double;
 *   colptr/adjncy are shifted to 1-based for the call and shifted back.
 */
#include "vf.h"

enum { RM_NONE, RM_RANDOM, RM_CYCLIC, RM_REVERSE, RM__N };
static const char *rm_names[] = { "none", "random", "cyclic", "reverse" };
enum { VM_GEN, VM_WIDE, VM_TIES, VM_FEW, VM_SYM, VM_EXTREME, VM_RANK1, VM__N };
static const char *vm_names[] = { "gen", "wide", "ties", "few", "sym", "extreme", "rank1" };
enum { SG_NONE, SG_EMPTYCOL, SG_EMPTYROW, SG_HALLCOLS, SG_HALLROWS };
static const char *sg_names[] = { "none", "emptycol", "emptyrow", "hallcols", "hallrows" };

/* keep only the entries with keep[k] != 0 */
static void c17_filter(vf_mat *A, const unsigned char *keep)
{
    int_t q = 0, k = 0;
    for (int j = 0; j < A->n; j++) {
        int_t e = A->colptr[j + 1];
        A->colptr[j] = q;
        for (; k < e; k++) if (keep[k]) { A->rowind[q] = A->rowind[k]; A->v[q] = A->v[k]; q++; }
    }
    A->colptr[A->n] = q; A->nnz = q;
}

/* a value of library magnitude in [2^-10, 1] (not a tie class), shape chosen by cmode as in gen.c */
static ldc c17_unitval(vf_rng *r, const vf_api *P, int cmode)
{
    ld re, im = 0;
    do { re = (ld)(2.0 * rng_unif(r) - 1.0); } while (fabsl(re) < 1e-3L);
    if (P->cplx) {
        do { im = (ld)(2.0 * rng_unif(r) - 1.0); } while (fabsl(im) < 1e-3L);
        if (cmode == 2) im = 0;
        if (cmode == 3) { if (rng_bool(r, 0.5)) im = 0; else { im = re; re = 0; } }
        if (cmode < 2) { re *= 0.5L; im *= 0.5L; }
    }
    return re + im * I;
}
/* a value of library magnitude exactly 1 */
static ldc c17_mag1(vf_rng *r, const vf_api *P)
{
    if (!P->cplx) return rng_bool(r, 0.5) ? 1.0L : -1.0L;
    switch (rng_int(r, 0, 5)) {
    case 0: return 1.0L; case 1: return -1.0L; case 2: return 1.0L * I; case 3: return -1.0L * I;
    case 4: return 0.5L + 0.5L * I; default: return -0.25L + 0.75L * I;
    }
}

/* key = failing clause, plus "+densecol" when some column holds at least (n+2)/2 entries: only then can the list/Q2 overlap in
   mc64wd (see the report of the finding) occur, so keys without the suffix are never explained by that defect */
static void c17_key(vf_case *c, int dc, const char *key, char *out, size_t n) { (void)c; snprintf(out, n, "%s%s", key, dc ? "+densecol" : ""); }

static void c17_run(vf_case *c)
{
    const vf_api *P = c->P; vf_rng *r = &c->rng;
    gen_spec g; char buf[300];
    int big = c->tier && rng_bool(r, 0.02);
    gen_spec_random(r, P, &g, 1, big ? 150 : 60, 1);
    if (rng_bool(r, 0.2)) g.drop_diag = rng_int(r, 1, 3);
    vf_mat A; gen_matrix(r, P, &g, &A);
    int n = A.n;

    /* ---- row permutation of the pattern: structurally zero diagonals on a structurally nonsingular matrix */
    int rowmode = rng_bool(r, 0.5) ? RM_NONE : rng_int(r, 1, RM__N - 1);
    if (rowmode != RM_NONE) {
        int *rp = malloc(sizeof(int) * (size_t)n);
        if (rowmode == RM_RANDOM) rng_perm(r, rp, n);
        else if (rowmode == RM_CYCLIC) { int s = rng_int(r, 1, n > 1 ? n - 1 : 1); for (int i = 0; i < n; i++) rp[i] = (i + s) % n; }
        else for (int i = 0; i < n; i++) rp[i] = n - 1 - i;
        for (int_t k = 0; k < A.nnz; k++) A.rowind[k] = rp[A.rowind[k]];
        free(rp);
    }
    /* ---- value classes beyond those of gen.c */
    int valmode = VM_GEN;
    {   double x = rng_unif(r);
        if (x < 0.40) valmode = VM_GEN; else if (x < 0.60) valmode = VM_WIDE; else if (x < 0.70) valmode = VM_TIES;
        else if (x < 0.80) valmode = VM_FEW; else if (x < 0.88) valmode = VM_SYM; else if (x < 0.94) valmode = VM_RANK1; else valmode = VM_EXTREME;
        if (valmode == VM_EXTREME && P->rsz == 4) valmode = VM_WIDE;
    }
    int cmode = P->cplx ? rng_int(r, 0, 3) : 0;
    if (valmode == VM_SYM) {
        /* symmetrise pattern and values: A(i,j) = A(j,i) -> every matching has a mirror image of equal weight */
        ldc *D = calloc((size_t)n * (size_t)n + 1, sizeof(ldc)); unsigned char *S = calloc((size_t)n * (size_t)n + 1, 1);
        for (int j = 0; j < n; j++) for (int_t k = A.colptr[j]; k < A.colptr[j + 1]; k++) {
            int i = (int)A.rowind[k]; if (S[(size_t)i * n + j]) continue;      /* mirror already set */
            S[(size_t)j * n + i] = S[(size_t)i * n + j] = 1; D[(size_t)j * n + i] = D[(size_t)i * n + j] = A.v[k];
        }
        int_t nz = 0; for (size_t k = 0; k < (size_t)n * n; k++) nz += S[k];
        mat_free(&A); A.m = A.n = n; A.nnz = nz;
        A.colptr = malloc(sizeof(int_t) * (size_t)(n + 1)); A.rowind = malloc(sizeof(int_t) * (size_t)(nz + 1)); A.v = malloc(sizeof(ldc) * (size_t)(nz + 1));
        int_t q = 0; for (int j = 0; j < n; j++) { A.colptr[j] = q; for (int i = 0; i < n; i++) if (S[(size_t)j * n + i]) { A.rowind[q] = i; A.v[q] = D[(size_t)j * n + i]; q++; } }
        A.colptr[n] = q; free(D); free(S);
    } else if (valmode != VM_GEN) {
        int E = valmode == VM_EXTREME ? 330 : (P->rsz == 4 ? 40 : 240);
        int *er = malloc(sizeof(int) * (size_t)n), *ec = malloc(sizeof(int) * (size_t)n);
        for (int i = 0; i < n; i++) { er[i] = rng_int(r, -E, E); ec[i] = rng_int(r, -E, E); }
        if (valmode == VM_EXTREME && rng_bool(r, 0.5)) for (int i = 0; i < n; i++) { er[i] = -abs(er[i]); ec[i] = -abs(ec[i]); }   /* tiny entries -> large scale factors */
        static const ld few[] = { 1.0L, 2.0L, 4.0L, 0.5L };
        int nfew = rng_int(r, 2, 4);
        for (int j = 0; j < n; j++) for (int_t k = A.colptr[j]; k < A.colptr[j + 1]; k++) {
            if (A.v[k] == 0) continue;                                           /* explicit zeros stay */
            int i = (int)A.rowind[k]; ldc v;
            switch (valmode) {
            case VM_WIDE: case VM_EXTREME: v = c17_unitval(r, P, cmode) * ldexpl(1.0L, er[i] + ec[j]); break;
            case VM_TIES: v = c17_mag1(r, P); break;
            case VM_FEW: v = c17_mag1(r, P) * few[rng_int(r, 0, nfew - 1)]; break;
            default: /* VM_RANK1 */ v = c17_mag1(r, P) * ldexpl(1.0L, er[i] / 8 + ec[j] / 8); break;
            }
            A.v[k] = P->round(v);
        }
        free(er); free(ec);
    }
    /* ---- forced structural singularity (Hall violations) */
    int sing = SG_NONE;
    if (rng_bool(r, 0.15)) {
        sing = rng_int(r, SG_EMPTYCOL, SG_HALLROWS);
        unsigned char *keep = malloc((size_t)A.nnz + 1); memset(keep, 1, (size_t)A.nnz + 1);
        if (sing == SG_EMPTYCOL || sing == SG_EMPTYROW) {
            int t = rng_int(r, 0, n - 1);
            for (int j = 0; j < n; j++) for (int_t k = A.colptr[j]; k < A.colptr[j + 1]; k++) if ((sing == SG_EMPTYCOL ? j : (int)A.rowind[k]) == t) keep[k] = 0;
        } else if (n >= 2) {
            /* kk lines (columns or rows) confined to kk-1 lines of the other kind */
            int kk = rng_int(r, 2, n < 5 ? n : 5);
            int *pa = malloc(sizeof(int) * (size_t)n), *pb = malloc(sizeof(int) * (size_t)n); rng_perm(r, pa, n); rng_perm(r, pb, n);
            unsigned char *ina = calloc((size_t)n, 1), *inb = calloc((size_t)n, 1);
            for (int t = 0; t < kk; t++) ina[pa[t]] = 1; for (int t = 0; t < kk - 1; t++) inb[pb[t]] = 1;
            for (int j = 0; j < n; j++) for (int_t k = A.colptr[j]; k < A.colptr[j + 1]; k++) {
                int i = (int)A.rowind[k]; int a = sing == SG_HALLCOLS ? j : i, b = sing == SG_HALLCOLS ? i : j;
                if (ina[a] && !inb[b]) keep[k] = 0;
            }
            free(pa); free(pb); free(ina); free(inb);
        } else { for (int_t k = 0; k < A.nnz; k++) keep[k] = 0; }
        c17_filter(&A, keep); free(keep);
    }
    int_t nnz = A.nnz;
    gen_spec_str(&g, buf, sizeof buf);
    vf_desc(c, "%s; rows=%s values=%s cmode=%d forced-singular=%s nnz=%lld", buf, rm_names[rowmode], vm_names[valmode], cmode, sg_names[sing], (long long)nnz);

    /* ---- classification by independent matching */
    int_t nxz = 0; for (int_t k = 0; k < nnz; k++) if (A.v[k] == 0) nxz++;
    int rank_stored = sprank(&A), rank_nz = rank_stored;
    if (nxz > 0) {
        vf_mat Z; mat_copy(&Z, &A); unsigned char *keep = malloc((size_t)nnz + 1);
        for (int_t k = 0; k < nnz; k++) keep[k] = A.v[k] != 0;
        c17_filter(&Z, keep); rank_nz = sprank(&Z); free(keep); mat_free(&Z);
    }
    int zdiag = 0; { for (int j = 0; j < n; j++) { int has = 0; for (int_t k = A.colptr[j]; k < A.colptr[j + 1]; k++) if (A.rowind[k] == j && A.v[k] != 0) has = 1; zdiag += !has; } }

    /* ---- caller arrays, exactly sized so that any overrun is seen by ASan */
    int_t *colptr = malloc(sizeof(int_t) * (size_t)(n + 1)), *rowind = malloc(sizeof(int_t) * (size_t)nnz);
    void *nzval = malloc(P->ssz * (size_t)nnz);
    memcpy(colptr, A.colptr, sizeof(int_t) * (size_t)(n + 1)); if (nnz) memcpy(rowind, A.rowind, sizeof(int_t) * (size_t)nnz);
    for (int_t k = 0; k < nnz; k++) P->set(nzval, (size_t)k, A.v[k]);
    int *perm = malloc(sizeof(int) * (size_t)n); void *u = malloc(P->rsz * (size_t)n), *v = malloc(P->rsz * (size_t)n);
    for (int i = 0; i < n; i++) { perm[i] = -12345; P->rset(u, (size_t)i, 7.5L); P->rset(v, (size_t)i, -7.5L); }
    vf_snap s_cp, s_ri, s_nz; snap_bytes(colptr, sizeof(int_t) * (size_t)(n + 1), &s_cp); snap_bytes(rowind, sizeof(int_t) * (size_t)nnz, &s_ri); snap_bytes(nzval, P->ssz * (size_t)nnz, &s_nz);

    int ret = -777, aborted = 0; jmp_buf jb;
    if (VF_TRY_BEGIN(jb)) { ret = P->ldperm(5, n, nnz, colptr, rowind, nzval, perm, u, v); } else aborted = 1;
    VF_TRY_END();

    int xz = nxz > 0; char key[100];
    int dc = 0; { for (int j = 0; j < n; j++) if (2 * (long)(A.colptr[j + 1] - A.colptr[j]) >= (long)n + 2) dc = 1; }
    vf_tag(c, "prec=%c", P->letter); vf_tag(c, "rows=%s", rm_names[rowmode]); vf_tag(c, "val=%s", vm_names[valmode]); vf_tag(c, "pat=%s", pat_names[g.pattern]);
    vf_tag(c, "forced=%s", sg_names[sing]); vf_tag(c, "xzero=%d", xz); vf_tag(c, "densecol=%d", dc); vf_tag(c, "n=%s", n == 1 ? "1" : n <= 8 ? "2-8" : n <= 30 ? "9-30" : n <= 60 ? "31-60" : "61+");
    vf_tag(c, "zdiag=%s", zdiag == 0 ? "0" : zdiag <= 3 ? "few" : "many");
    if (P->cplx) vf_tag(c, "cmode=%d", cmode);
    vf_sig_u64(c, mat_pattern_hash(&A)); vf_sig_u64(c, (uint64_t)valmode * 16 + (uint64_t)xz);

    if (aborted) {
        vf_tag(c, "ret=abort");
        vf_viol(c, "ldperm-abort", "?ldperm called ABORT on a valid call (n=%d nnz=%lld): %s", n, (long long)nnz, vf_abort_msg);
        vf_ledger_purge();
        goto done;
    }
    vf_tag(c, "ret=%s", ret == 0 ? "0" : ret == 1 ? "1" : ret == 2 ? "2" : ret < 0 ? "neg" : "other");

    /* clause: inputs unchanged (all classes) */
    {   vf_snap t;
        snap_bytes(colptr, sizeof(int_t) * (size_t)(n + 1), &t); if (!snap_same(&t, &s_cp)) { c17_key(c, dc, "colptr-modified", key, sizeof key); vf_viol(c, key, "colptr differs from the caller's array after the call (colptr[0]=%lld, ret=%d)", (long long)colptr[0], ret); } snap_free(&t);
        snap_bytes(rowind, sizeof(int_t) * (size_t)nnz, &t); if (!snap_same(&t, &s_ri)) { c17_key(c, dc, "rowind-modified", key, sizeof key); vf_viol(c, key, "row indices differ from the caller's array after the call (ret=%d)", ret); } snap_free(&t);
        snap_bytes(nzval, P->ssz * (size_t)nnz, &t); if (!snap_same(&t, &s_nz)) { c17_key(c, dc, "nzval-modified", key, sizeof key); vf_viol(c, key, "nzval (input) differs from the caller's array after the call (ret=%d)", ret); } snap_free(&t);
    }
    if (c->verbose && n <= 12) {
        for (int j = 0; j < n; j++) for (int_t k = A.colptr[j]; k < A.colptr[j + 1]; k++) vf_log(c, "  a(%d,%d) = %.17Lg %+.17Lgi  |.|=%.17Lg", (int)A.rowind[k], j, creall(A.v[k]), cimagl(A.v[k]), abs1(A.v[k]));
        for (int i = 0; i < n; i++) vf_log(c, "  perm[%d]=%d u=%.17Lg v=%.17Lg", i, perm[i], P->rget(u, (size_t)i), P->rget(v, (size_t)i));
    }
    vf_log(c, "n=%d nnz=%lld sprank(stored)=%d sprank(nonzero)=%d ret=%d", n, (long long)nnz, rank_stored, rank_nz, ret);

    if (rank_stored < n) {
        /* clause: structural singularity is reported by a nonzero return value */
        vf_tag(c, "class=singular"); vf_tag(c, "deficiency=%s", n - rank_stored == 1 ? "1" : n - rank_stored <= 3 ? "2-3" : "4+");
        if (ret == 0) { c17_key(c, dc, "singular-returns-zero", key, sizeof key); vf_viol(c, key, "structurally singular matrix (n=%d, structural rank %d) but ?ldperm returned 0", n, rank_stored); }
        c->nontrivial = 1; vf_sig_u64(c, 1);
        c->counters[3]++;
    } else if (rank_nz < n) {
        /* stored pattern has a perfect matching, the nonzero entries do not: "a nonzero on every diagonal position" cannot be demanded,
           and the statement does not say which notion of structure the return value follows */
        vf_tag(c, "class=xzero-ambiguous");
        vf_skip(c, "perfect matching exists only through explicitly stored zeros");
    } else {
        vf_tag(c, "class=nonsing");
        ld *W = malloc(sizeof(ld) * (size_t)n * (size_t)n), *uu = malloc(sizeof(ld) * (size_t)n), *vv = malloc(sizeof(ld) * (size_t)n);
        for (size_t k = 0; k < (size_t)n * n; k++) W[k] = -INFINITY;
        unsigned char *stored = calloc((size_t)n * (size_t)n, 1);
        ld maxw = 0, maxu = 0, maxv = 0; int finite = 1;
        for (int j = 0; j < n; j++) for (int_t k = A.colptr[j]; k < A.colptr[j + 1]; k++) {
            size_t p = (size_t)j * n + (size_t)A.rowind[k]; stored[p] = 1;
            if (A.v[k] != 0) { W[p] = logl(abs1(A.v[k])); if (fabsl(W[p]) > maxw) maxw = fabsl(W[p]); }
        }
        for (int i = 0; i < n; i++) {
            uu[i] = P->rget(u, (size_t)i); vv[i] = P->rget(v, (size_t)i);
            if (!isfinite((double)uu[i]) || !isfinite((double)vv[i])) finite = 0;
            if (fabsl(uu[i]) > maxu) maxu = fabsl(uu[i]); if (fabsl(vv[i]) > maxv) maxv = fabsl(vv[i]);
        }
        const ld epsd = 0x1p-52L;
        const ld HALFLOGMAX = 0.5L * 709.782712893384L;          /* MC64: INFO(1)=2 iff some u_i or v_j >= log(RINF)/2 */
        /* clause: return value. 0 expected; the documented warning 2 is accepted only when a scale factor really is that large */
        if (ret != 0) {
            ld mx = -INFINITY; for (int i = 0; i < n; i++) { if (uu[i] > mx) mx = uu[i]; if (vv[i] > mx) mx = vv[i]; }
            if (ret == 2 && finite && mx >= HALFLOGMAX * (1 - 1e-6L)) vf_tag(c, "warn2=justified");
            else { c17_key(c, dc, "nonsingular-returns-nonzero", key, sizeof key); vf_viol(c, key, "structurally nonsingular matrix (n=%d) but ?ldperm returned %d (largest log scale factor %.6Lg)", n, ret, mx); }
        }
        if (!is_perm(perm, n)) {
            int bad = 0; for (int i = 0; i < n; i++) if (perm[i] < 0 || perm[i] >= n) { bad = i; break; }
            c17_key(c, dc, "perm-not-bijection", key, sizeof key); vf_viol(c, key, "perm is not a permutation of 0..%d (e.g. perm[%d]=%d, ret=%d)", n - 1, bad, perm[bad], ret);
        } else {
            int ident = 1; for (int i = 0; i < n; i++) if (perm[i] != i) ident = 0;
            vf_tag(c, "ident=%d", ident);
            /* clause: a nonzero on every diagonal position: a(i, perm[i]) is what lands on the diagonal */
            int okdiag = 1; ld slib = 0;
            for (int i = 0; i < n && okdiag; i++) {
                size_t p = (size_t)perm[i] * n + (size_t)i;
                if (!stored[p]) { okdiag = 0; c17_key(c, dc, "diagonal-structural-zero", key, sizeof key); vf_viol(c, key, "perm[%d]=%d but a(%d,%d) is not stored: the permuted diagonal position %d is structurally zero", i, perm[i], i, perm[i], perm[i]); }
                else if (isinf((double)W[p])) { okdiag = 0; c17_key(c, dc, "diagonal-explicit-zero", key, sizeof key); vf_viol(c, key, "perm[%d]=%d puts the stored zero a(%d,%d) on the diagonal although a zero-free diagonal exists", i, perm[i], i, perm[i]); }
                else slib += W[p];
            }
            if (okdiag) {
                /* clause: product of diagonal magnitudes is maximal (independent assignment solver on log|a_ij|) */
                ld G = 1 + maxu + maxv + maxw;
                int *roc = malloc(sizeof(int) * (size_t)n); ld hv = 0;
                int hok = hungarian_max(n, W, roc, &hv);
                ld sh = 0; if (hok && is_perm(roc, n)) { for (int j = 0; j < n; j++) sh += W[(size_t)j * n + (size_t)roc[j]]; } else hok = 0;
                ld margin = 16.0L * n * (8.0L + (ld)n * n) * epsd * G;
                if (!hok) vf_viol(c, "harness-hungarian-failed", "reference assignment found no perfect matching although sprank = n = %d", n);
                else if (slib < sh - margin) { c17_key(c, dc, "product-not-maximal", key, sizeof key); vf_viol(c, key, "sum log|diag| = %.15Lg but a matching with %.15Lg exists (deficit %.3Lg > margin %.3Lg, n=%d)", slib, sh, sh - slib, margin, n); }
                else if (slib > sh + margin) vf_viol(c, "harness-hungarian-suboptimal", "library matching %.15Lg beats the reference optimum %.15Lg (n=%d)", slib, sh, n);
                if (c->verdict != 1) { ld d = (sh - slib) / margin; long pm = (long)(d * 1000); if (pm > c->counters[2]) c->counters[2] = pm; }
                free(roc);
                /* clause: scaling. s_ij = u_i + v_j + log|a_ij| : = 0 on the matching, <= 0 elsewhere.
                   margin: u, v are delivered rounded to the working precision T (<= eps_T/2 relative each), log|a_ij| and the column
                   maxima carry one double rounding each, and the dual updates of the shortest-path passes accumulate at most
                   O(n^2) double roundings of quantities bounded by G = 1 + max|u| + max|v| + max|log|a||. */
                if (!finite) { c17_key(c, dc, "scaling-nonfinite", key, sizeof key); vf_viol(c, key, "u or v holds a non-finite value on a structurally nonsingular matrix (ret=%d)", ret); }
                else {
                    ld worst = 0;
                    for (int j = 0; j < n; j++) for (int_t k = A.colptr[j]; k < A.colptr[j + 1]; k++) {
                        int i = (int)A.rowind[k]; ld w = W[(size_t)j * n + (size_t)i]; if (isinf((double)w)) continue;      /* 0 * finite = 0 <= 1 */
                        ld s = uu[i] + vv[j] + w;
                        ld tol = 64.0L * P->eps * (1 + fabsl(uu[i]) + fabsl(vv[j]) + fabsl(w)) + 8.0L * (ld)n * n * epsd * G;
                        if (perm[i] == j) {
                            if (!(fabsl(s) <= tol)) { c17_key(c, dc, "scaled-diag-not-one", key, sizeof key); vf_viol(c, key, "matched entry a(%d,%d): u+v+log|a| = %.6Lg, i.e. scaled magnitude %.17Lg, tolerance %.3Lg (u=%.10Lg v=%.10Lg log|a|=%.10Lg)", i, j, s, expl(s), tol, uu[i], vv[j], w); }
                            if (fabsl(s) / tol > worst) worst = fabsl(s) / tol;
                        } else {
                            if (!(s <= tol)) { c17_key(c, dc, "scaled-offdiag-gt-one", key, sizeof key); vf_viol(c, key, "entry a(%d,%d) off the matching: u+v+log|a| = %.6Lg, i.e. scaled magnitude %.17Lg > 1, tolerance %.3Lg (u=%.10Lg v=%.10Lg log|a|=%.10Lg)", i, j, s, expl(s), tol, uu[i], vv[j], w); }
                            if (s / tol > worst) worst = s / tol;
                        }
                    }
                    if (c->verdict != 1) { long pm = (long)(worst * 1000); c->counters[0] += pm; if (pm > c->counters[1]) c->counters[1] = pm; }
                    c->nontrivial = n >= 2; vf_sig_u64(c, 2);
                    c->counters[4]++;
                }
            }
        }
        free(W); free(uu); free(vv); free(stored);
    }
done:
    free(colptr); free(rowind); free(nzval); free(perm); free(u); free(v);
    snap_free(&s_cp); snap_free(&s_ri); snap_free(&s_nz); mat_free(&A);
    vf_check_ledger(c, "after ?ldperm");
}

VF_REGISTER("C17", c17_run)
