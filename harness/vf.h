/* Common declarations of the SuperLU runtime-monitoring harness. */
#ifndef VF_H
#define VF_H
#include <stdint.h>
#include <stdio.h>
#include <stdlib.h>
#include <string.h>
#include <math.h>
#include <float.h>
#include <complex.h>
#include "slu_sdefs.h"
#include "slu_ddefs.h"
#include "slu_cdefs.h"
#include "slu_zdefs.h"

typedef long double ld;
typedef long double _Complex ldc;
#ifndef CMPLXL     /* clang 14 with glibc headers does not provide the C11 macro */
static inline ldc vf_cmplxl(ld re, ld im) { union { ldc z; ld p[2]; } u; u.p[0] = re; u.p[1] = im; return u.z; }
#define CMPLXL(a, b) vf_cmplxl((a), (b))
#endif

/* ------------------------------------------------------------------ rng */
typedef struct { uint64_t s; } vf_rng;
uint64_t rng_u64(vf_rng *r);
void     rng_seed(vf_rng *r, uint64_t a, uint64_t b, uint64_t c);
int      rng_int(vf_rng *r, int lo, int hi);       /* inclusive */
double   rng_unif(vf_rng *r);                      /* [0,1) */
int      rng_bool(vf_rng *r, double p);
int      rng_pick(vf_rng *r, const int *v, int n);
void     rng_perm(vf_rng *r, int *p, int n);       /* random permutation of 0..n-1 */
uint64_t fnv64(uint64_t h, const void *p, size_t n);
#define FNV0 1469598103934665603ULL

/* ------------------------------------------------------------------ api */
struct vf_api;
typedef struct vf_api vf_api;
struct vf_api {
    int prec;            /* 0 s, 1 d, 2 c, 3 z */
    char letter;
    int cplx;
    size_t ssz, rsz;     /* bytes of a scalar / of a real */
    ld eps;              /* machine epsilon (2^-23 / 2^-52) */
    ld tiny, huge;       /* smallest normal, largest finite */
    Dtype_t dtype;
    ldc  (*get)(const void *a, size_t i);
    void (*set)(void *a, size_t i, ldc v);
    ld   (*rget)(const void *a, size_t i);
    void (*rset)(void *a, size_t i, ld v);
    ldc  (*round)(ldc v);
    ld   (*mach)(char *c);
    /* library entry points, argument types erased to void* where they
       depend on the precision */
    void (*Create_CompCol)(SuperMatrix *, int, int, int_t, void *, int_t *, int_t *, Stype_t, Dtype_t, Mtype_t);
    void (*Create_CompRow)(SuperMatrix *, int, int, int_t, void *, int_t *, int_t *, Stype_t, Dtype_t, Mtype_t);
    void (*Create_Dense)(SuperMatrix *, int, int, void *, int, Stype_t, Dtype_t, Mtype_t);
    void (*gssv)(superlu_options_t *, SuperMatrix *, int *, int *, SuperMatrix *, SuperMatrix *, SuperMatrix *, SuperLUStat_t *, int_t *);
    void (*gssvx)(superlu_options_t *, SuperMatrix *, int *, int *, int *, char *, void *R, void *C,
                  SuperMatrix *, SuperMatrix *, void *work, int_t lwork, SuperMatrix *, SuperMatrix *,
                  void *rpg, void *rcond, void *ferr, void *berr, GlobalLU_t *, mem_usage_t *, SuperLUStat_t *, int_t *);
    void (*gsisx)(superlu_options_t *, SuperMatrix *, int *, int *, int *, char *, void *R, void *C,
                  SuperMatrix *, SuperMatrix *, void *work, int_t lwork, SuperMatrix *, SuperMatrix *,
                  void *rpg, void *rcond, GlobalLU_t *, mem_usage_t *, SuperLUStat_t *, int_t *);
    void (*gstrf)(superlu_options_t *, SuperMatrix *, int, int, int *, void *, int_t, int *, int *,
                  SuperMatrix *, SuperMatrix *, GlobalLU_t *, SuperLUStat_t *, int_t *);
    void (*gsitrf)(superlu_options_t *, SuperMatrix *, int, int, int *, void *, int_t, int *, int *,
                  SuperMatrix *, SuperMatrix *, GlobalLU_t *, SuperLUStat_t *, int_t *);
    void (*gstrs)(trans_t, SuperMatrix *, SuperMatrix *, const int *, const int *, SuperMatrix *, SuperLUStat_t *, int *);
    void (*gsrfs)(trans_t, SuperMatrix *, SuperMatrix *, SuperMatrix *, int *, int *, char *, void *R, void *C,
                  SuperMatrix *, SuperMatrix *, void *ferr, void *berr, SuperLUStat_t *, int *);
    void (*gscon)(char *, SuperMatrix *, SuperMatrix *, ld anorm, void *rcond, SuperLUStat_t *, int *);
    void (*gsequ)(SuperMatrix *, void *r, void *c, void *rowcnd, void *colcnd, void *amax, int *);
    void (*laqgs)(SuperMatrix *, void *r, void *c, ld rowcnd, ld colcnd, ld amax, char *);
    ld   (*PivotGrowth)(int, SuperMatrix *, int *, SuperMatrix *, SuperMatrix *);
    ld   (*langs)(char *, SuperMatrix *);
    int  (*QuerySpace)(SuperMatrix *, SuperMatrix *, mem_usage_t *);
    int  (*ilu_QuerySpace)(SuperMatrix *, SuperMatrix *, mem_usage_t *);
    int  (*trsv)(char *, char *, char *, SuperMatrix *, SuperMatrix *, void *x, SuperLUStat_t *, int *);
    int  (*gemv)(char *, ldc alpha, SuperMatrix *, void *x, int incx, ldc beta, void *y, int incy);
    int  (*gemm)(char *, char *, int, int, int, ldc alpha, SuperMatrix *, void *b, int ldb, ldc beta, void *c, int ldc_);
    int  (*ldperm)(int, int, int_t, int_t *, int_t *, void *nzval, int *perm, void *u, void *v);
    void (*readhb)(FILE *, int *, int *, int_t *, void **, int_t **, int_t **);
    void (*readrb)(int *, int *, int_t *, void **, int_t **, int_t **);
    void (*readMM)(FILE *, int *, int *, int_t *, void **, int_t **, int_t **);
    void (*readtriple)(int *, int *, int_t *, void **, int_t **, int_t **);
    void (*readtriple_noheader)(int *, int *, int_t *, void **, int_t **, int_t **);
    void (*fortran_gssv)(int *iopt, int *n, int_t *nnz, int *nrhs, void *values, int_t *rowind, int_t *colptr,
                         void *b, int *ldb, int64_t *factors, int_t *info);
    void (*Copy_CompCol)(SuperMatrix *, SuperMatrix *);
    void (*CompRow_to_CompCol)(int, int, int_t, void *, int_t *, int_t *, void **, int_t **, int_t **);
    void (*Copy_Dense)(int, int, void *, int, void *, int);
    void (*FillRHS)(trans_t, int, void *, int, SuperMatrix *, SuperMatrix *);
    void (*GenXtrue)(int, int, void *, int);
};
extern vf_api vf_apis[4];

/* ------------------------------------------------------------------ monitor runtime (vf_rt.c) */
/* allocation ledger */
typedef struct {
    void *p; size_t size; const char *file; int line; const char *func; uint64_t seq; int tid;
} vf_block;
long  vf_ledger_live(void);                 /* blocks currently live */
long  vf_ledger_live_bytes(void);
int   vf_ledger_list(vf_block *out, int max);   /* copy up to max live blocks */
void  vf_ledger_purge(void);                /* free everything still live (after reporting) */
long  vf_bad_frees(void);                   /* frees of unknown / already freed pointers (since reset) */
const char *vf_bad_free_site(void);
void  vf_ledger_reset_counters(void);
uint64_t vf_alloc_count(void);              /* number of vf_malloc calls since reset */
long  vf_alloc_count_matching(const char *funcsub); /* calls whose site function contains funcsub */
/* fault injection: fail the k-th (1-based) request whose site function name contains `funcsub`
   (thread-local); k = 0 disarms. vf_fault_fired() tells whether it triggered. */
void  vf_fault_arm(const char *funcsub, long k);
int   vf_fault_fired(void);
long  vf_fault_seen(void);                  /* matching requests seen since arm */
/* junk fill of fresh blocks: -1 none, else byte pattern 0..255, 256 = prng */
void  vf_set_junk(int pattern);
/* scheduling perturbation at allocation points (threaded runs) */
void  vf_set_yield(int permille, uint64_t seed);
/* per-thread allocation-site trace signature (C09) */
void  vf_trace_enable(int on);
uint64_t vf_trace_signature(void);
/* tuning table used by the harness's sp_ienv (thread-local); index 1..7 */
void  vf_ienv_set(int ispec, int value);
void  vf_ienv_default(void);
int   vf_ienv_get(int ispec);
/* events from the guarded hooks in the library (thread-local counters) */
#define VF_EV_ZERO_PIVOT 1
#define VF_EV_ILU_PIVOT  2
#define VF_EV_ILU_DROP   3
#define VF_EV_STACK_OVERLAP 4   /* head of the caller-workspace stack passed its tail after a growth */
#define VF_EV_WS_GROWTH  5      /* growths inside the caller workspace (coverage) */
void  vf_events_reset(void);
/* initial capacities (entries) of lusup, ucol/usub, lsub for the next factorizations of this thread; 0 keeps the library's own guess.
   Reset to 0 at the start of every case. vf_cap_default(0|1|2): the library's guess seen at the last ?LUMemInit call */
void  vf_cap_set(long lusup, long ucol, long lsub);
long  vf_cap_default(int which);
long  vf_cap_calls(void);
long  vf_events_count(int kind);
long  vf_layout_checks(void);
/* records a violation of the storage properties (reported at the end of the case for the modules C06/C07/C08/C19) */
void  vf_sticky_storage_viol(const char *key, const char *fmt, ...) __attribute__((format(printf, 2, 3)));
long  vf_growth_ws(void);                   /* monotonic per thread: ?expand calls completed inside a caller workspace (guarded hook 4) */
long  vf_growth_sys(void);                  /* monotonic per thread: allocations made by ?expand under library allocation */               /* evaluations of the workspace-layout invariant (guarded hook 5) in this case */
int   vf_zero_pivot_without_candidate(void);   /* a zero pivot was reported for a column that had no candidate row at all (F6) */
int   vf_events_first(int kind);            /* first argument of first event of that kind, -1 if none */
/* abort capture: when armed, vf_abort longjmps are NOT used; the process reports and exits.
   vf_abort_expect(1) makes the next abort a recorded event + _exit(VF_EXIT_ABORT). */
#define VF_EXIT_ABORT 44
#define VF_EXIT_HANG  45
#define VF_EXIT_PROTO 46
#define VF_EXIT_RECYCLE 47

/* ------------------------------------------------------------------ cases */
typedef struct vf_case {
    const char *prop;
    const vf_api *P;
    uint64_t seed;
    long index;
    int tier;            /* 0 quick, 1 thorough */
    int verbose;
    int variant_vendor;  /* built with USE_VENDOR_BLAS */
    int variant_san;     /* 0 plain, 1 asan, 2 tsan, 3 msan */
    vf_rng rng;
    int verdict;         /* 0 held, 1 violation, 2 skipped (by rule) */
    char key[200];
    char msg[600];
    char tags[1500];
    char desc[700];
    uint64_t sig;
    int nontrivial;
    long counters[8];    /* free-form numeric observations summed by the driver */
    char notes[96];      /* "+note+note": context appended to leak keys and to death keys (see vf_note) */
    int nmore;           /* further violations of the same case (distinct keys), reported alongside the first */
    char more_key[3][200];
    char more_msg[3][400];
} vf_case;

void vf_viol(vf_case *c, const char *key, const char *fmt, ...) __attribute__((format(printf, 3, 4)));
void vf_skip(vf_case *c, const char *why);
void vf_tag(vf_case *c, const char *fmt, ...) __attribute__((format(printf, 2, 3)));
void vf_desc(vf_case *c, const char *fmt, ...) __attribute__((format(printf, 2, 3)));
void vf_note(vf_case *c, const char *note);
void vf_sig(vf_case *c, const void *p, size_t n);
void vf_sig_u64(vf_case *c, uint64_t v);
void vf_log(vf_case *c, const char *fmt, ...) __attribute__((format(printf, 2, 3)));   /* verbose only */
/* end-of-case memory discipline: reports leak / bad free as violations of `prop`-specific key */
void vf_check_ledger(vf_case *c, const char *where);
/* same, with a context word that becomes part of the leak key: leak[ctx]@site (e.g. ctx = "nomem" right after an out-of-space return) */
void vf_check_ledger_ctx(vf_case *c, const char *where, const char *ctx);
/* mid-case variant: only blocks allocated after vf_ledger_mark() are considered (and released) */
uint64_t vf_ledger_mark(void);
void vf_check_ledger_since(vf_case *c, const char *where, const char *ctx, uint64_t mark);

typedef void (*vf_case_fn)(vf_case *c);
/* module registration: put VF_REGISTER("C01", c01_run) at file scope of the module */
void vf_register(const char *name, vf_case_fn fn);
#define VF_REGISTER(name, fn) __attribute__((constructor)) static void vf_reg_##fn(void) { vf_register(name, fn); }
/* catching library ABORTs inside a case: if (VF_TRY()) { call } else { aborted: vf_abort_msg holds the text } VF_TRY_END(); */
#include <setjmp.h>
extern __thread jmp_buf *vf_abort_jmp; extern __thread char vf_abort_msg[300];
#define VF_TRY_BEGIN(jb) (vf_abort_jmp = &(jb), setjmp(jb) == 0)
#define VF_TRY_END() (vf_abort_jmp = NULL)

/* ------------------------------------------------------------------ matrices (gen.c) */
typedef struct {
    int m, n;
    int_t nnz;
    int_t *colptr, *rowind;
    ldc *v;              /* values, exactly representable in the working precision */
} vf_mat;

void mat_free(vf_mat *A);
void mat_copy(vf_mat *dst, const vf_mat *src);
void mat_transpose(vf_mat *dst, const vf_mat *src);      /* pattern+values transposed (no conj) */
void mat_to_dense(const vf_mat *A, ldc *D);              /* column-major m x n, zero filled */
uint64_t mat_pattern_hash(const vf_mat *A);

enum { PAT_RANDOM, PAT_RANDOM_DIAG, PAT_BAND, PAT_ARROW, PAT_BLOCKDIAG, PAT_BLOCKTRI, PAT_PERMTRI,
       PAT_GRID, PAT_DENSE, PAT_DIAG, PAT_STAIR, PAT_LOWERDENSE, PAT__N };
enum { VAL_UNIF, VAL_DIAGDOM, VAL_ROWSCALED, VAL_COLSCALED, VAL_BOTHSCALED, VAL_GRADED, VAL_SMALLINT, VAL_POW2, VAL__N };
extern const char *pat_names[], *val_names[];

typedef struct {
    int m, n;
    int pattern;
    int values;
    int density;         /* avg entries per column for random patterns */
    int scale_exp;       /* max decimal exponent for scaled classes */
    int drop_diag;       /* number of diagonal positions forced structurally zero */
    int explicit_zeros;  /* number of stored entries forced to exact 0 */
} gen_spec;

void gen_spec_random(vf_rng *r, const vf_api *P, gen_spec *g, int nmin, int nmax, int square);
void gen_matrix(vf_rng *r, const vf_api *P, const gen_spec *g, vf_mat *A);
void gen_spec_str(const gen_spec *g, char *buf, size_t n);
void gen_ilu_emptycol(vf_rng *r, const vf_api *P, int n, vf_mat *A);   /* ILU gadget: columns whose L part comes out empty (natural order, NOROWPERM) */
/* random legal tuning; small values so that small matrices reach blocked code paths */
void gen_tuning(vf_rng *r, int small);
void tuning_str(char *buf, size_t n);

/* ------------------------------------------------------------------ building library objects (core.c) */
/* arrays are allocated with SUPERLU_MALLOC so that the library's Destroy_* may free them */
void mk_sparse(const vf_api *P, const vf_mat *A, int rowmajor, SuperMatrix *S);
void mk_dense(const vf_api *P, int m, int ncol, int ld_, const ldc *colmajor /* m x ncol, may be NULL */, SuperMatrix *D, ldc padval);
/* caller workspace filled with junk (pattern from the case index; left untouched under MemorySanitizer / VF_NOJUNK so that
   those tools see reads of uninitialised workspace): the library must not rely on the contents of work[] */
void *vf_ws_alloc(vf_case *c, size_t n);
void  vf_ws_fill(vf_case *c, void *p, size_t n);
void free_sparse(SuperMatrix *S);     /* Destroy_CompCol_Matrix / CompRow */
void free_dense(SuperMatrix *D);
void dense_read(const vf_api *P, const SuperMatrix *D, ldc *out /* nrow x ncol col-major */);
int  dense_padding_intact(const vf_api *P, const SuperMatrix *D, ldc padval);
void sparse_read(const vf_api *P, const SuperMatrix *S, vf_mat *out); /* NC or NR -> CSC vf_mat (deep copy) */

/* byte snapshot of a sparse/dense SuperMatrix (store arrays), for "unchanged" clauses */
typedef struct { size_t n; unsigned char *b; } vf_snap;
void snap_sparse(const vf_api *P, const SuperMatrix *S, vf_snap *idx, vf_snap *val);
void snap_dense(const vf_api *P, const SuperMatrix *D, vf_snap *s);
void snap_bytes(const void *p, size_t n, vf_snap *s);
int  snap_same(const vf_snap *a, const vf_snap *b);
void snap_free(vf_snap *s);

/* ------------------------------------------------------------------ reference oracles (ref.c) */
int  is_perm(const int *p, int n);
/* C03 predicate; returns 0 if ok, else writes reason */
int  structure_ok(const vf_api *P, const SuperMatrix *L, const SuperMatrix *U, int m, int n, int ilu, char *why, size_t whylen);
/* supernode statistics */
void snode_stats(const SuperMatrix *L, int *nsuper, int *maxsize, int *multi);
/* dense expansion of factors: Ld is m x n (unit diagonal included), Ud is n x n; col-major */
void expand_LU(const vf_api *P, const SuperMatrix *L, const SuperMatrix *U, int m, int n, ldc *Ld, ldc *Ud);
/* canonical serialisation hash of factors+perms (C07/C09) */
uint64_t hash_factors(const vf_api *P, const SuperMatrix *L, const SuperMatrix *U, const int *perm_r, const int *perm_c, int m, int n);
/* factor identity: max over entries of |Pr A Pc - L U|_ij / (c n eps (|L||U|)_ij + tiny); cols limited to ncols */
ld   factor_identity_ratio(const vf_api *P, const vf_mat *A, const int *perm_r, const int *perm_c,
                           const ldc *Ld, const ldc *Ud, int ncols, ld cfac);
/* componentwise residual ratio for op(M) x = b where M is given as CSC (original scale) and
   E = |L||U| mapped back: E_orig = Pr^T |L||U| Pc^T ; trans: 0 N, 1 T, 2 C, 3 conj(M) without transposition.
   Returns max_i |r_i| / (cfac n eps (op(E)|x|)_i + n eps |b_i| + n tiny) */
ld   solve_residual_ratio(const vf_api *P, const vf_mat *M, int trans, const ldc *x, const ldc *b,
                          const ld *Eorig /* m x n dense col-major, or NULL -> use |M| */, ld cfac);
void absLU_orig(const vf_api *P, const int *perm_r, const int *perm_c, const ldc *Ld, const ldc *Ud, int n, ld *E);
/* dense inverse in long double (Gauss-Jordan, partial pivoting). returns 0 ok, 1 singular */
int  dense_inverse(int n, const ldc *A, ldc *Ainv);
ld   dense_norm1(int n, const ldc *A);
ld   dense_norminf(int n, const ldc *A);
/* structural rank (max bipartite matching) */
int  sprank(const vf_mat *A);
/* exact rank of an integer matrix (Bareiss, __int128; returns -1 on overflow) */
int  exact_rank_int(int n, const long long *Aint /* col-major n x n */);
/* column elimination tree of A*Pc by definition; parent[j]=n for roots */
void coletree_def(const vf_mat *A, const int *perm_c, int *parent);
int  tree_is_topological(const int *parent, int n);
int  tree_is_postorder(const int *parent, int n);
/* library magnitude: |re|+|im| for complex, |x| for real */
static inline ld abs1(ldc z) { return fabsl(creall(z)) + fabsl(cimagl(z)); }
static inline ld absm(ldc z) { return cabsl(z); }
/* assignment (Hungarian) maximising sum of w over a perfect matching of an n x n weight matrix with -inf for missing; returns 0 if none */
int  hungarian_max(int n, const ld *w /* col-major, -INFINITY when absent */, int *rowofcol, ld *value);

/* ------------------------------------------------------------------ common execution helpers (core.c) */
typedef struct {
    superlu_options_t opt;
    int rowmajor;
    int nrhs, ldpad;
    int tuning_small;
    int my_permc;        /* ColPerm = MY_PERMC with random permutation */
} run_opts;
void gen_run_opts(vf_rng *r, run_opts *o, int allow_nr);
void run_opts_str(const run_opts *o, char *buf, size_t n);
extern const char *colperm_names[];

#endif
