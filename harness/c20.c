/* C20 - Fortran-callable bridge (FORTRAN/c_fortran_?gssv.c): factor once, solve many, free all.
 *
 * One case = one history  factor, solve*, free  over 1..4 interleaved handles, each handle with its own
 * matrix in 1-based compressed-column storage.  Oracle clauses (keys):
 *   caller-{values,rowind,colptr}-modified@iopt{1,2,3}   the caller's 1-based arrays differ from their snapshot
 *   factor-info-unexpected / handle-not-set               a valid factor request reports info<0 or >n / no handle
 *   solve-info                                            a valid solve request reports info != 0
 *   solve-differs-from-gssv / gssv-info-mismatch          b after iopt=2 is not byte-identical to what ?gssv
 *                                                         (default options, same tuning table, 0-based copy,
 *                                                         same B, nrhs, ldb) returns
 *   repeat-solve-differs                                  same handle + same b solved again gives other bytes
 *   b-padding-written                                     rows n..ldb-1 of b changed
 *   solve-ledger-delta                                    a solve request changes the number of live blocks
 *   free-incomplete / free-count-mismatch / free-badfree  after iopt=3 a block allocated under that handle is
 *                                                         still live / the live count did not drop by exactly
 *                                                         what the handle owned / a non-live pointer was freed
 *   leak@..., badfree (vf_check_ledger)                   ledger not empty after all handles were freed
 * In the vendor-BLAS variant a non-bitwise solve comparison is 'held' within a normwise tolerance and
 * otherwise 'inconclusive(vendor)' (skipped): the same case index is decided bitwise in variant asan. */
#include "vf.h"
#include <stdarg.h>

#define C20_MAXH 4
#define C20_MAXSV 4
#define C20_MAXOPS 64

typedef struct { int nrhs, ldb; size_t bytes; void *bin, *xout; } c20_saved;
typedef struct {
    vf_mat A; gen_spec g;
    int n; int_t nnz;
    int src;                       /* index of the handle whose caller arrays are used (self unless shared) */
    void *values; int_t *rowind1, *colptr1;
    vf_snap s_val, s_ri, s_cp;
    int planned_singular;
    int64_t handle;
    int state;                     /* 0 not created, 1 live, 2 freed */
    int_t finfo;
    uint64_t s0, s1; long own;
    int nsv; c20_saved sv[C20_MAXSV];
    int nsolve;                    /* solves planned */
    int compared, verified_free;
} c20_h;

typedef struct { vf_case *c; c20_h *H; int K; long foreign; int dead; } c20_ctx;

static const int64_t C20_JUNK_HANDLE = 0x5A5A5A5A5A5A5A5ALL;

/* ------------------------------------------------------------------------------------------ helpers */
/* a tag is recorded once per case (the driver histograms cases per tag) */
static void c20_tag(vf_case *c, const char *fmt, ...) __attribute__((format(printf, 2, 3)));
static void c20_tag(vf_case *c, const char *fmt, ...)
{
    char b[128], w[132]; va_list ap; va_start(ap, fmt); vsnprintf(b, sizeof b, fmt, ap); va_end(ap);
    char hay[sizeof c->tags + 3]; snprintf(hay, sizeof hay, " %s ", c->tags); snprintf(w, sizeof w, " %s ", b);
    if (!strstr(hay, w)) vf_tag(c, "%s", b);
}
static void c20_make_singular(vf_rng *r, vf_mat *A, int *how)
{
    int n = A->n, mode = rng_int(r, 0, 2);
    if (mode == 1) {                                   /* structurally empty column */
        int j = rng_int(r, 0, n - 1); int_t len = A->colptr[j + 1] - A->colptr[j];
        if (n < 2 || A->nnz - len < 1) mode = 0;
        else {
            int_t a = A->colptr[j], b = A->colptr[j + 1];
            memmove(A->rowind + a, A->rowind + b, sizeof(int_t) * (size_t)(A->nnz - b));
            memmove(A->v + a, A->v + b, sizeof(ldc) * (size_t)(A->nnz - b));
            for (int q = j + 1; q <= n; q++) A->colptr[q] -= len;
            A->nnz -= len;
        }
    }
    if (mode == 0) { int j = rng_int(r, 0, n - 1); for (int_t k = A->colptr[j]; k < A->colptr[j + 1]; k++) A->v[k] = 0; }
    if (mode == 2) { int i = rng_int(r, 0, n - 1); for (int_t k = 0; k < A->nnz; k++) if (A->rowind[k] == i) A->v[k] = 0; }
    *how = mode;
}

static void c20_call(c20_ctx *x, int iopt, c20_h *h, int nrhs, void *b, int ldb, int_t *info)
{
    c20_h *s = &x->H[h->src];
    int io = iopt, n = h->n, nr = nrhs, ld_ = ldb; int_t nnz = h->nnz;
    x->c->P->fortran_gssv(&io, &n, &nnz, &nr, s->values, s->rowind1, s->colptr1, b, &ld_, &h->handle, info);
    x->c->counters[0]++;
}

/* caller arrays of every handle against their snapshots */
static void c20_check_arrays(c20_ctx *x, int iopt)
{
    for (int g = 0; g < x->K; g++) {
        c20_h *h = &x->H[g]; if (h->src != g) continue;
        vf_snap t; const char *which = NULL;
        snap_bytes(h->colptr1, sizeof(int_t) * (size_t)(h->n + 1), &t); if (!snap_same(&t, &h->s_cp)) which = "colptr"; snap_free(&t);
        snap_bytes(h->rowind1, sizeof(int_t) * (size_t)h->nnz, &t); if (!which && !snap_same(&t, &h->s_ri)) which = "rowind"; snap_free(&t);
        snap_bytes(h->values, x->c->P->ssz * (size_t)h->nnz, &t); if (!which && !snap_same(&t, &h->s_val)) which = "values"; snap_free(&t);
        if (which) {
            char key[64]; snprintf(key, sizeof key, "caller-%s-modified@iopt%d", which, iopt);
            vf_viol(x->c, key, "after a request with iopt=%d the caller's 1-based %s array of handle #%d (n=%d, nnz=%lld) differs from its snapshot",
                    iopt, which, g, h->n, (long long)h->nnz);
        }
    }
}

static long c20_expected_live(c20_ctx *x)
{
    long e = x->foreign; for (int g = 0; g < x->K; g++) if (x->H[g].state == 1) e += x->H[g].own; return e;
}

/* number of live ledger blocks allocated in the sequence window (s0, s1]; sites of the first few */
static long c20_owned_live(uint64_t s0, uint64_t s1, char *sites, size_t sl)
{
    static vf_block blk[1024]; int k = vf_ledger_list(blk, 1024); long cnt = 0; if (sites && sl) sites[0] = 0;
    for (int i = 0; i < k; i++) if (blk[i].seq > s0 && blk[i].seq <= s1) {
        if (sites && cnt < 6) { size_t l = strlen(sites); snprintf(sites + l, sl - l, "%s%s:%d(%zu)", cnt ? "," : "", blk[i].func, blk[i].line, blk[i].size); }
        cnt++;
    }
    return cnt;
}

/* what the C simple driver returns for the 0-based copy of the same matrix and the same b image */
static void c20_reference(c20_ctx *x, const vf_mat *A, int nrhs, int ldb, const void *bin, void *xout, int_t *rinfo)
{
    const vf_api *P = x->c->P; int n = A->n; size_t bytes = P->ssz * (size_t)ldb * (size_t)nrhs;
    long live0 = vf_ledger_live();
    SuperMatrix SA, SB, L, U; memset(&L, 0, sizeof L); memset(&U, 0, sizeof U);
    mk_sparse(P, A, 0, &SA);
    mk_dense(P, n, nrhs, ldb, NULL, &SB, 0);
    DNformat *bs = SB.Store; memcpy(bs->nzval, bin, bytes);
    int *pc = malloc(sizeof(int) * (size_t)(n + 1)), *pr = malloc(sizeof(int) * (size_t)(n + 1));
    for (int i = 0; i < n; i++) pc[i] = pr[i] = -12345;
    superlu_options_t opt; set_default_options(&opt);
    SuperLUStat_t stat; StatInit(&stat);
    int_t info = -999;
    P->gssv(&opt, &SA, pc, pr, &L, &U, &SB, &stat, &info);
    memcpy(xout, bs->nzval, bytes);
    if (info >= 0 && info <= n) { Destroy_SuperNode_Matrix(&L); Destroy_CompCol_Matrix(&U); }
    StatFree(&stat); free_sparse(&SA); free_dense(&SB); free(pc); free(pr);
    *rinfo = info;
    x->foreign += vf_ledger_live() - live0;      /* a leak of ?gssv itself is not this handle's (reported by the final ledger check) */
    x->c->counters[1]++;
}

/* 0 byte-identical on rows < n; 1 differs (first differing entry in *ei,*ej); relative normwise difference in *rel */
static int c20_cmp(const vf_api *P, int n, int nrhs, int ldb, const void *a, const void *b, int *ei, int *ej, ld *rel, int *nonfinite)
{
    int diff = 0; *rel = 0; *nonfinite = 0;
    for (int j = 0; j < nrhs; j++) {
        const unsigned char *pa = (const unsigned char *)a + P->ssz * (size_t)j * ldb, *pb = (const unsigned char *)b + P->ssz * (size_t)j * ldb;
        if (!memcmp(pa, pb, P->ssz * (size_t)n)) continue;
        ld dmax = 0, xmax = 0;
        for (int i = 0; i < n; i++) {
            ldc va = P->get(a, (size_t)j * ldb + i), vb = P->get(b, (size_t)j * ldb + i);
            if (memcmp(pa + P->ssz * (size_t)i, pb + P->ssz * (size_t)i, P->ssz) && !diff) { diff = 1; *ei = i; *ej = j; }
            if (!isfinite((double)creall(va)) || !isfinite((double)cimagl(va)) || !isfinite((double)creall(vb)) || !isfinite((double)cimagl(vb))) { *nonfinite = 1; continue; }
            ld d = absm(va - vb), m = absm(vb); if (d > dmax) dmax = d; if (m > xmax) xmax = m;
        }
        ld q = xmax > 0 ? dmax / xmax : (dmax > 0 ? INFINITY : 0); if (q > *rel) *rel = q;
    }
    return diff;
}

static int c20_padding_ok(const vf_api *P, int n, int nrhs, int ldb, const void *bin, const void *b, int *ei, int *ej)
{
    for (int j = 0; j < nrhs; j++) for (int i = n; i < ldb; i++) {
        size_t o = P->ssz * ((size_t)j * ldb + i);
        if (memcmp((const unsigned char *)bin + o, (const unsigned char *)b + o, P->ssz)) { *ei = i; *ej = j; return 0; }
    }
    return 1;
}

/* ------------------------------------------------------------------------------------------ requests */
static void c20_factor(c20_ctx *x, int hi)
{
    vf_case *c = x->c; c20_h *h = &x->H[hi]; const vf_api *P = c->P;
    long live0 = vf_ledger_live(); uint64_t s0 = vf_alloc_count();
    if (live0 != c20_expected_live(x)) { vf_viol(c, "harness-ledger-invariant", "before factor #%d: live %ld expected %ld", hi, live0, c20_expected_live(x)); x->dead = 1; return; }
    void *bdummy = malloc(P->ssz * (size_t)h->n); for (int i = 0; i < h->n; i++) P->set(bdummy, (size_t)i, 1.0L);
    h->handle = C20_JUNK_HANDLE; int_t info = -999;
    c20_call(x, 1, h, 1, bdummy, h->n, &info);
    free(bdummy);
    h->s0 = s0; h->s1 = vf_alloc_count(); h->own = vf_ledger_live() - live0; h->finfo = info;
    vf_log(c, "factor #%d n=%d nnz=%lld -> info=%lld handle=%llx owns %ld blocks", hi, h->n, (long long)h->nnz, (long long)info, (unsigned long long)h->handle, h->own);
    c20_check_arrays(x, 1);
    if (info < 0 || info > h->n) {
        vf_viol(c, "factor-info-unexpected", "factor request for a valid %dx%d matrix returned info=%lld", h->n, h->n, (long long)info);
        x->dead = 1; return;
    }
    if (h->handle == C20_JUNK_HANDLE || h->handle == 0 || h->own <= 0) {
        vf_viol(c, "handle-not-set", "factor request returned info=%lld but handle=%llx, %ld blocks retained", (long long)info, (unsigned long long)h->handle, h->own);
        x->dead = 1; return;
    }
    h->state = 1; c->counters[6] += h->own;
}

static void c20_solve(c20_ctx *x, int hi)
{
    vf_case *c = x->c; c20_h *h = &x->H[hi]; const vf_api *P = c->P; vf_rng *r = &c->rng;
    int n = h->n;
    int repeat = h->nsv > 0 && rng_bool(r, 0.3);
    int nrhs, ldb; size_t bytes; void *bin; c20_saved *sv = NULL;
    if (repeat) {
        sv = &h->sv[rng_int(r, 0, h->nsv - 1)]; nrhs = sv->nrhs; ldb = sv->ldb; bytes = sv->bytes; bin = sv->bin;
    } else {
        nrhs = rng_int(r, 1, 4); ldb = n + (rng_bool(r, 0.45) ? rng_int(r, 1, 5) : 0);
        bytes = P->ssz * (size_t)ldb * (size_t)nrhs; bin = malloc(bytes);
        ldc pad = P->cplx ? 777.0L - 3.0L * I : 777.0L;
        for (size_t k = 0; k < (size_t)ldb * (size_t)nrhs; k++) P->set(bin, k, pad);
        for (int j = 0; j < nrhs; j++) {
            int mode = rng_int(r, 0, 5); ld sc = mode == 3 ? 1048576.0L : 1.0L;
            for (int i = 0; i < n; i++) {
                ld re = 2 * rng_unif(r) - 1, im = P->cplx ? 2 * rng_unif(r) - 1 : 0;
                if (mode == 0) re = im = 0; if (mode == 1 && rng_bool(r, 0.5)) re = im = 0;
                P->set(bin, (size_t)j * ldb + i, P->round(sc * re + sc * im * I));
            }
        }
    }
    if (h->finfo != 0) {   /* the property speaks about nonsingular A only: no solve on a singular factor */
        c20_tag(c, "solve=skipped-singular"); if (!repeat) free(bin); return;
    }
    void *b = malloc(bytes); memcpy(b, bin, bytes);
    long live0 = vf_ledger_live(); int_t info = -999;
    c20_call(x, 2, h, nrhs, b, ldb, &info);
    long live1 = vf_ledger_live();
    vf_log(c, "solve #%d nrhs=%d ldb=%d (n=%d)%s -> info=%lld", hi, nrhs, ldb, n, repeat ? " repeat" : "", (long long)info);
    c20_check_arrays(x, 2);
    c20_tag(c, "nrhs=%d", nrhs); c20_tag(c, "ldpad=%d", ldb > n); if (repeat) c20_tag(c, "repeat=1");
    int ei = 0, ej = 0, nonfin = 0; ld rel = 0;
    if (info != 0) vf_viol(c, "solve-info", "solve request (n=%d nrhs=%d ldb=%d) on a handle factored with info=0 returned info=%lld", n, nrhs, ldb, (long long)info);
    if (live1 != live0) vf_viol(c, "solve-ledger-delta", "a solve request changed the number of live library blocks from %ld to %ld", live0, live1);
    if (!c20_padding_ok(P, n, nrhs, ldb, bin, b, &ei, &ej)) vf_viol(c, "b-padding-written", "solve wrote b(%d,%d) beyond row n=%d (ldb=%d)", ei + 1, ej + 1, n, ldb);
    void *xr = malloc(bytes); const char *key, *what; int_t rinfo = 0;
    if (repeat) { memcpy(xr, sv->xout, bytes); key = "repeat-solve-differs"; what = "an earlier solve with the same handle and the same b"; c->counters[2]++; }
    else { c20_reference(x, &x->H[h->src].A, nrhs, ldb, bin, xr, &rinfo); key = "solve-differs-from-gssv"; what = "the C simple driver (default options) on the 0-based copy"; }
    if (!repeat && rinfo != 0) {
        if (c->variant_vendor) vf_skip(c, "inconclusive(vendor): gssv info differs");
        else vf_viol(c, "gssv-info-mismatch", "bridge factored with info=0 but the C simple driver reports info=%lld for the same matrix (n=%d)", (long long)rinfo, n);
    } else if (c20_cmp(P, n, nrhs, ldb, b, xr, &ei, &ej, &rel, &nonfin)) {
        ldc vb = P->get(b, (size_t)ej * ldb + ei), vr = P->get(xr, (size_t)ej * ldb + ei);
        if (!c->variant_vendor)
            vf_viol(c, key, "x(%d,%d) = (%.17Lg,%.17Lg) from the bridge but (%.17Lg,%.17Lg) from %s (handle #%d, n=%d nrhs=%d ldb=%d, normwise rel. diff %.3Lg)",
                    ei + 1, ej + 1, creall(vb), cimagl(vb), creall(vr), cimagl(vr), what, hi, n, nrhs, ldb, rel);
        else if (!nonfin && rel <= 1024 * (ld)n * P->eps) { c20_tag(c, "vb=within-tolerance"); c->counters[5]++; h->compared++; }
        else vf_skip(c, "inconclusive(vendor): non-bitwise solve beyond tolerance");
    } else { h->compared++; c20_tag(c, repeat ? "cmp=repeat-bitwise" : "cmp=gssv-bitwise"); }
    if (!repeat && h->nsv < C20_MAXSV) { c20_saved *s = &h->sv[h->nsv++]; s->nrhs = nrhs; s->ldb = ldb; s->bytes = bytes; s->bin = bin; s->xout = b; b = NULL; bin = NULL; }
    if (!repeat) free(bin);
    free(b); free(xr);
}

static void c20_free(c20_ctx *x, int hi)
{
    vf_case *c = x->c; c20_h *h = &x->H[hi]; const vf_api *P = c->P;
    long live0 = vf_ledger_live(), bad0 = vf_bad_frees();
    void *bdummy = malloc(P->ssz * (size_t)h->n); for (int i = 0; i < h->n; i++) P->set(bdummy, (size_t)i, 1.0L);
    int_t info = -999;
    c20_call(x, 3, h, 1, bdummy, h->n, &info);
    free(bdummy);
    long live1 = vf_ledger_live(); char sites[300];
    long rest = c20_owned_live(h->s0, h->s1, sites, sizeof sites);
    vf_log(c, "free #%d: live %ld -> %ld (owned %ld), %ld owned blocks still live", hi, live0, live1, h->own, rest);
    c20_check_arrays(x, 3);
    if (vf_bad_frees() > bad0) vf_viol(c, "free-badfree", "free request of handle #%d released %ld pointer(s) that are not live allocations (first %s)", hi, vf_bad_frees() - bad0, vf_bad_free_site());
    if (rest > 0) vf_viol(c, "free-incomplete", "after the free request %ld of the %ld blocks allocated under handle #%d (info=%lld) are still live: %s", rest, h->own, hi, (long long)h->finfo, sites);
    else if (live0 - live1 != h->own) vf_viol(c, "free-count-mismatch", "free request of handle #%d changed the live block count by %ld, the handle owned %ld", hi, live0 - live1, h->own);
    else h->verified_free = 1;
    h->state = 2; h->own = 0; x->foreign = live1 - c20_expected_live(x) + x->foreign;   /* resynchronise after a reported mismatch */
}

/* ------------------------------------------------------------------------------------------ the case */
static void c20_run(vf_case *c)
{
    const vf_api *P = c->P; vf_rng *r = &c->rng; char buf[300];
    c20_h H[C20_MAXH]; memset(H, 0, sizeof H);
    c20_ctx X; memset(&X, 0, sizeof X); X.c = c; X.H = H;
    static const int kw[] = { 1, 1, 1, 2, 2, 2, 3, 3, 4, 4 };
    int K = rng_pick(r, kw, 10); X.K = K;
    int sing_case = rng_bool(r, 0.07), sing_h = sing_case ? rng_int(r, 0, K - 1) : -1;
    int big = c->tier && rng_bool(r, 0.02);
    gen_tuning(r, big ? 0 : rng_bool(r, 0.8));
    tuning_str(buf, sizeof buf); vf_desc(c, "%d handle(s); %s;", K, buf);
    uint64_t sig = FNV0;
    for (int g = 0; g < K; g++) {
        c20_h *h = &H[g]; h->src = g;
        if (g > 0 && g != sing_h && H[g - 1].src == g - 1 && !H[g - 1].planned_singular && rng_bool(r, 0.12)) {
            h->src = g - 1; h->n = H[g - 1].n; h->nnz = H[g - 1].nnz;     /* second handle for the very same caller arrays */
            c20_tag(c, "shared=1"); vf_desc(c, " #%d=same arrays as #%d;", g, g - 1);
        } else {
            gen_spec_random(r, P, &h->g, 1, big ? 200 : 40, 1);
            if (big) { h->g.pattern = rng_bool(r, 0.5) ? PAT_GRID : PAT_BAND; h->g.n = h->g.m = rng_int(r, 80, 200); }
            if (h->g.pattern == PAT_RANDOM) h->g.pattern = PAT_RANDOM_DIAG;         /* the property is about nonsingular A */
            /* fewer accidental exact singularities (small integer / power-of-two blocks, a stored zero on a triangular diagonal) */
            if ((h->g.values == VAL_SMALLINT || h->g.values == VAL_POW2) && rng_bool(r, 0.7)) h->g.values = rng_bool(r, 0.5) ? VAL_DIAGDOM : VAL_UNIF;
            if (h->g.pattern == PAT_DIAG || h->g.pattern == PAT_PERMTRI || h->g.pattern == PAT_BLOCKTRI || h->g.n <= 3) h->g.explicit_zeros = 0;
            gen_matrix(r, P, &h->g, &h->A);
            gen_spec_str(&h->g, buf, sizeof buf); vf_desc(c, " #%d=%s", g, buf);
            if (g == sing_h) { int how; c20_make_singular(r, &h->A, &how); h->planned_singular = 1; vf_desc(c, " made singular(%d)", how); c20_tag(c, "singular=planned"); }
            vf_desc(c, ";");
            h->n = h->A.n; h->nnz = h->A.nnz;
            /* the caller's 1-based arrays: exact size, plain malloc (red zones right behind them) */
            h->values = malloc(P->ssz * (size_t)h->nnz); h->rowind1 = malloc(sizeof(int_t) * (size_t)h->nnz); h->colptr1 = malloc(sizeof(int_t) * (size_t)(h->n + 1));
            for (int_t k = 0; k < h->nnz; k++) { P->set(h->values, (size_t)k, h->A.v[k]); h->rowind1[k] = h->A.rowind[k] + 1; }
            for (int j = 0; j <= h->n; j++) h->colptr1[j] = h->A.colptr[j] + 1;
            snap_bytes(h->values, P->ssz * (size_t)h->nnz, &h->s_val); snap_bytes(h->rowind1, sizeof(int_t) * (size_t)h->nnz, &h->s_ri);
            snap_bytes(h->colptr1, sizeof(int_t) * (size_t)(h->n + 1), &h->s_cp);
            uint64_t ph = mat_pattern_hash(&h->A); sig = fnv64(sig, &ph, sizeof ph);
        }
        h->nsolve = h->planned_singular ? rng_int(r, 0, 1) : rng_int(r, 0, 4);
        if (!h->planned_singular && rng_bool(r, 0.6) && h->nsolve == 0) h->nsolve = rng_int(r, 1, 3);
    }
    /* schedule */
    int ops[C20_MAXOPS][2], nops = 0, mode = K == 1 ? 0 : rng_int(r, 0, 2);
    {
        int stage[C20_MAXH]; for (int g = 0; g < K; g++) stage[g] = 0;   /* 0: F next, 1..nsolve: S, nsolve+1: X, nsolve+2: done */
#define C20_EMIT(g) do { int _g = (g); int st = stage[_g]++; ops[nops][0] = st == 0 ? 1 : st <= H[_g].nsolve ? 2 : 3; ops[nops][1] = _g; nops++; } while (0)
        if (mode == 0) { for (int g = 0; g < K; g++) while (stage[g] < H[g].nsolve + 2) C20_EMIT(g); }
        else if (mode == 1) {
            for (;;) { int cand[C20_MAXH], nc = 0; for (int g = 0; g < K; g++) if (stage[g] < H[g].nsolve + 2) cand[nc++] = g; if (!nc) break; C20_EMIT(cand[rng_int(r, 0, nc - 1)]); }
        } else {
            int p[C20_MAXH]; rng_perm(r, p, K); for (int a = 0; a < K; a++) C20_EMIT(p[a]);
            for (;;) { int cand[C20_MAXH], nc = 0; for (int g = 0; g < K; g++) if (stage[g] < H[g].nsolve + 1) cand[nc++] = g; if (!nc) break; C20_EMIT(cand[rng_int(r, 0, nc - 1)]); }
            rng_perm(r, p, K); for (int a = 0; a < K; a++) C20_EMIT(p[a]);
        }
#undef C20_EMIT
    }
    { char s[200]; size_t l = 0; for (int o = 0; o < nops && l + 4 < sizeof s; o++) l += (size_t)snprintf(s + l, sizeof s - l, "%c%d", "?FSX"[ops[o][0]], ops[o][1]); vf_desc(c, " history=%s", s);
      sig = fnv64(sig, ops, sizeof(int) * 2 * (size_t)nops); }
    c20_tag(c, "prec=%c", P->letter); c20_tag(c, "handles=%d", K); c20_tag(c, "sched=%s", mode == 0 ? "sequential" : mode == 1 ? "interleaved" : "phased");
    if (big) c20_tag(c, "big=1");

    /* run the history */
    int maxlive = 0;
    for (int o = 0; o < nops && !X.dead; o++) {
        int g = ops[o][1];
        if (ops[o][0] == 1) c20_factor(&X, g);
        else if (ops[o][0] == 2) c20_solve(&X, g);
        else c20_free(&X, g);
        if (X.dead) break;
        long live = vf_ledger_live(), ex = c20_expected_live(&X);
        if (live != ex && ops[o][0] != 3) { vf_viol(c, "harness-ledger-drift", "after request %d of the history %ld library blocks are live, the live handles own %ld", o, live, ex); X.foreign += live - ex; }
        int nl = 0; for (int q = 0; q < K; q++) nl += H[q].state == 1; if (nl > maxlive) maxlive = nl;
    }
    c20_tag(c, "live=%d", maxlive); if (maxlive > c->counters[3]) c->counters[3] = maxlive;
    if (!X.dead) c20_check_arrays(&X, 3);
    int good = 0;
    for (int g = 0; g < K; g++) {
        c20_h *h = &H[g];
        if (h->state >= 1) {
            if (h->finfo == 0) c20_tag(c, "info=0"); else { c20_tag(c, h->planned_singular ? "info=singular-planned" : "info=singular-unplanned"); c->counters[4]++; }
            if (h->finfo != 0 && h->verified_free) c20_tag(c, "singular-freed=1");
        }
        if (h->finfo == 0 && h->compared > 0 && h->verified_free) good++;
        uint64_t z = (uint64_t)h->finfo; sig = fnv64(sig, &z, sizeof z);
    }
    c->nontrivial = good > 0 && c->verdict == 0;
    vf_sig_u64(c, sig);
    if (X.dead) vf_ledger_purge();
    for (int g = 0; g < K; g++) {
        c20_h *h = &H[g];
        for (int k = 0; k < h->nsv; k++) { free(h->sv[k].bin); free(h->sv[k].xout); }
        if (h->src == g) { free(h->values); free(h->rowind1); free(h->colptr1); snap_free(&h->s_val); snap_free(&h->s_ri); snap_free(&h->s_cp); mat_free(&h->A); }
    }
    vf_check_ledger(c, "after every handle was freed");
}

VF_REGISTER("C20", c20_run)
