/* C08 - a caller workspace is never overrun; shortage is reported; size query has no side effects;
 *       a failed growth under library allocation is reported as info > n.  (fault enumeration) */
#include "fact.h"
#if defined(__SANITIZE_ADDRESS__)
#include <sanitizer/asan_interface.h>
#define POISON(p, n) ASAN_POISON_MEMORY_REGION(p, n)
#define UNPOISON(p, n) ASAN_UNPOISON_MEMORY_REGION(p, n)
#else
#define POISON(p, n) ((void)0)
#define UNPOISON(p, n) ((void)0)
#endif

#define GUARD 4096
#define CAN 128
typedef struct { unsigned char *base; size_t cap; unsigned char *work; size_t lwork; } arena;
static void arena_init(arena *a, size_t maxlen) { a->cap = maxlen + 2 * GUARD + 64; a->base = malloc(a->cap); a->work = NULL; a->lwork = 0; }
static void arena_place(arena *a, size_t lwork, int align4)
{
    UNPOISON(a->base, a->cap);
    unsigned char *w = a->base + GUARD; w += (16 - ((uintptr_t)w & 15)) % 16; if (align4) w += 4;
    memset(a->base, 0xC7, a->cap);
    a->work = w; a->lwork = lwork;
    /* everything outside [work-CAN, work+lwork+CAN) is poisoned: reads and writes there are ASan reports */
    POISON(a->base, (size_t)(w - CAN - a->base));
    unsigned char *end = w + lwork + CAN; size_t off = (size_t)(end - a->base); off = (off + 7) & ~(size_t)7;
    if (off < a->cap) POISON(a->base + off, a->cap - off);
}
static int arena_canary_ok(arena *a, long *where)
{
    for (int i = 1; i <= CAN; i++) if (a->work[-i] != 0xC7) { *where = -i; return 0; }
    for (int i = 0; i < CAN; i++) if (a->work[a->lwork + i] != 0xC7) { *where = (long)a->lwork + i; return 0; }
    return 1;
}
static void arena_free(arena *a) { UNPOISON(a->base, a->cap); free(a->base); }

/* one factorization attempt through the chosen route; returns info; fills hash/ok */
typedef struct { int route; int ilu; superlu_options_t opt; const int *mypc; int rowmajor; } plan_t;
static int_t attempt(vf_case *c, const vf_api *P, const vf_mat *A, const plan_t *pl, void *work, int_t lwork, uint64_t *hash, int *expansions, int *structure_bad, char *why, size_t wl)
{
    int n = A->n; int_t info; *structure_bad = 0; *hash = 0; *expansions = 0; (void)c;
    if (pl->route == 0) {
        fact_run R; fact_do(P, A, &pl->opt, pl->mypc, work, lwork, pl->ilu, &R); info = R.info;
        if (R.have_LU && info >= 0 && info <= n && lwork != -1) {
            if (structure_ok(P, &R.L, &R.U, A->m, n, pl->ilu, why, wl)) *structure_bad = 1; else *hash = hash_factors(P, &R.L, &R.U, R.perm_r, R.perm_c, A->m, n);
            *expansions = R.stat.expansions;
        }
        fact_free(&R);
    } else {
        xdrv D; xdrv_init(&D, P, A, pl->rowmajor, 0, 0, 0, NULL, pl->ilu);
        superlu_options_t xo = pl->opt; xo.Fact = DOFACT;
        if (xo.ColPerm == MY_PERMC) memcpy(D.perm_c, pl->mypc, sizeof(int) * (size_t)n);
        D.work = work; D.lwork = lwork;
        xdrv_call(&D, &xo); info = D.info;
        if (D.have_LU && info >= 0 && info <= n + 1 && lwork != -1) {
            if (structure_ok(P, &D.L, &D.U, n, n, pl->ilu, why, wl)) *structure_bad = 1; else *hash = hash_factors(P, &D.L, &D.U, D.perm_r, D.perm_c, n, n);
            *expansions = D.stat.expansions;
        }
        xdrv_free(&D);
    }
    return info;
}

static void size_query(vf_case *c, const vf_api *P, const vf_mat *A, const plan_t *pl)
{
    /* lwork = -1 through the expert driver: only info and mem_usage may change */
    int n = A->n; vf_rng *r = &c->rng;
    int nrhs = rng_int(r, 0, 2); ldc *B0 = malloc(sizeof(ldc) * (size_t)n * (nrhs + 1)); for (int k = 0; k < n * nrhs; k++) B0[k] = P->round(2 * rng_unif(r) - 1);
    uint64_t mark = vf_ledger_mark();
    xdrv D; xdrv_init(&D, P, A, pl->rowmajor, nrhs, 1, 2, B0, pl->ilu);
    superlu_options_t xo = pl->opt; xo.Fact = DOFACT; xo.Equil = YES;
    memcpy(D.perm_c, pl->mypc, sizeof(int) * (size_t)n);
    vf_snap ai, av, b0, x0, pc, pr, et, rr, cc; snap_sparse(P, &D.A, &ai, &av); snap_dense(P, &D.B, &b0); snap_dense(P, &D.X, &x0);
    snap_bytes(D.perm_c, sizeof(int) * (size_t)n, &pc); snap_bytes(D.perm_r, sizeof(int) * (size_t)n, &pr); snap_bytes(D.etree, sizeof(int) * (size_t)n, &et);
    snap_bytes(D.R, P->rsz * (size_t)n, &rr); snap_bytes(D.C, P->rsz * (size_t)n, &cc);
    SuperMatrix L0 = D.L, U0 = D.U, A0h = D.A; char eq0 = D.equed[0] = 'N';
    D.mem.total_needed = -1; D.mem.for_lu = -77;
    D.lwork = -1; D.work = NULL;
    StatInit(&D.stat); D.stat_on = 1;
    uint64_t mark2 = vf_ledger_mark();
    xdrv_call(&D, &xo);
    const char *rn = pl->ilu ? "gsisx" : "gssvx";
    if (!(D.info > n)) vf_viol(c, "query-info", "%s size query (lwork=-1) returned info=%lld, expected an estimate > n=%d", rn, (long long)D.info, n);
    if (!(D.mem.total_needed > 0) || fabs((double)D.mem.total_needed - (double)(D.info - n)) > 1e-6 * (double)D.info + 1) vf_viol(c, "query-mem_usage", "%s size query: total_needed=%g, info-n=%lld", rn, (double)D.mem.total_needed, (long long)(D.info - n));
    vf_snap s2, v2; snap_sparse(P, &D.A, &s2, &v2);
    if (!snap_same(&ai, &s2)) vf_viol(c, "query-modified-A-indices", "%s size query changed the index arrays of A", rn);
    if (!snap_same(&av, &v2)) vf_viol(c, "query-modified-A-values", "%s size query changed the values of A (equilibrated before answering)", rn);
    snap_free(&s2); snap_free(&v2);
    vf_snap t; snap_dense(P, &D.B, &t); if (!snap_same(&b0, &t)) vf_viol(c, "query-modified-B", "%s size query changed B", rn); snap_free(&t);
    snap_dense(P, &D.X, &t); if (!snap_same(&x0, &t)) vf_viol(c, "query-modified-X", "%s size query changed X", rn); snap_free(&t);
    snap_bytes(D.perm_c, sizeof(int) * (size_t)n, &t); if (!snap_same(&pc, &t)) vf_viol(c, "query-modified-perm_c", "%s size query wrote perm_c", rn); snap_free(&t);
    snap_bytes(D.perm_r, sizeof(int) * (size_t)n, &t); if (!snap_same(&pr, &t)) vf_viol(c, "query-modified-perm_r", "%s size query wrote perm_r", rn); snap_free(&t);
    snap_bytes(D.etree, sizeof(int) * (size_t)n, &t); if (!snap_same(&et, &t)) vf_viol(c, "query-modified-etree", "%s size query wrote etree", rn); snap_free(&t);
    snap_bytes(D.R, P->rsz * (size_t)n, &t); if (!snap_same(&rr, &t)) vf_viol(c, "query-modified-R", "%s size query wrote R", rn); snap_free(&t);
    snap_bytes(D.C, P->rsz * (size_t)n, &t); if (!snap_same(&cc, &t)) vf_viol(c, "query-modified-C", "%s size query wrote C", rn); snap_free(&t);
    if (D.equed[0] != eq0) vf_viol(c, "query-modified-equed", "%s size query changed equed to %c", rn, D.equed[0]);
    if (memcmp(&L0, &D.L, sizeof L0) || memcmp(&U0, &D.U, sizeof U0) || memcmp(&A0h, &D.A, sizeof A0h)) vf_viol(c, "query-modified-headers", "%s size query changed the L/U/A headers", rn);
    D.have_LU = 0;
    vf_check_ledger_since(c, "right after the size query", "query", mark2);
    snap_free(&ai); snap_free(&av); snap_free(&b0); snap_free(&x0); snap_free(&pc); snap_free(&pr); snap_free(&et); snap_free(&rr); snap_free(&cc);
    xdrv_free(&D); free(B0);
    vf_check_ledger_since(c, "after the size query lifecycle", "query", mark);
    c->counters[4]++;
}

static void c08_run(vf_case *c)
{
    const vf_api *P = c->P; vf_rng *r = &c->rng; char buf[400], why[300];
    gen_spec g; run_opts o;
    gen_spec_random(r, P, &g, 2, c->tier ? 30 : 22, 1);
    static const int pats[] = { PAT_RANDOM_DIAG, PAT_GRID, PAT_ARROW, PAT_BAND, PAT_BLOCKTRI, PAT_DENSE, PAT_LOWERDENSE, PAT_ARROW, PAT_GRID };
    g.pattern = rng_pick(r, pats, 9); g.values = rng_bool(r, 0.5) ? VAL_UNIF : VAL_DIAGDOM; g.explicit_zeros = 0;
    int fillbomb = rng_bool(r, 0.35);     /* dense first row and column in natural order: L and U fill completely, every array outgrows a fill estimate of 1 */
    if (fillbomb) { g.pattern = PAT_DIAG; g.n = g.m = rng_int(r, 8, c->tier ? 40 : 26); }
    vf_mat A; gen_matrix(r, P, &g, &A);
    if (fillbomb) { vf_mat B; B.m = B.n = A.n; int nn = A.n; B.nnz = 3 * (int_t)nn - 2; B.colptr = malloc(sizeof(int_t) * (size_t)(nn + 1)); B.rowind = malloc(sizeof(int_t) * (size_t)(B.nnz + 1)); B.v = malloc(sizeof(ldc) * (size_t)(B.nnz + 1)); int_t q = 0;
        for (int j = 0; j < nn; j++) { B.colptr[j] = q; if (j == 0) { for (int i = 0; i < nn; i++) { B.rowind[q] = i; B.v[q++] = P->round(i == 0 ? 4.0L : 0.5L + 0.01L * i); } } else { B.rowind[q] = 0; B.v[q++] = P->round(0.25L + 0.02L * j); B.rowind[q] = j; B.v[q++] = P->round(3.0L + 0.1L * j); } }
        B.colptr[nn] = q; mat_free(&A); A = B; vf_tag(c, "fillbomb"); }
    plan_t pl; memset(&pl, 0, sizeof pl);
    pl.ilu = rng_bool(r, 0.3); pl.route = rng_bool(r, 0.5); gen_run_opts(r, &o, 1); pl.rowmajor = pl.route ? o.rowmajor : 0;
    if (!pl.ilu && !pl.route && !fillbomb && rng_bool(r, 0.5)) {      /* ?gstrf called directly accepts m > n: the m-long work arrays at the tail of work[] */
        gen_spec g2 = g; g2.m = g2.n + rng_int(r, 1, 1 + g2.n / 2); vf_mat A2; gen_matrix(r, P, &g2, &A2); mat_free(&A); A = A2; g = g2; vf_tag(c, "tall");
        if (o.opt.ColPerm == MMD_AT_PLUS_A) o.opt.ColPerm = MMD_ATA;
    }
    if (pl.ilu && !fillbomb && rng_bool(r, 0.4)) {
        /* incomplete factorization with structurally missing diagonal entries (still structurally nonsingular): columns whose L part
           comes out empty take ?gsitrf's fill-in path, which grows lusup on its own */
        gen_spec g2 = g; g2.drop_diag = rng_int(r, 1, 3); if (g2.pattern == PAT_DENSE || g2.pattern == PAT_LOWERDENSE) g2.pattern = PAT_BAND;
        vf_mat A2; gen_matrix(r, P, &g2, &A2);
        if (sprank(&A2) == A2.n) { mat_free(&A); A = A2; g = g2; vf_tag(c, "ilu-missing-diagonal"); } else mat_free(&A2);
    }
    int gadget = pl.ilu && !fillbomb && rng_bool(r, 0.35);
    if (gadget) { vf_mat A2; gen_ilu_emptycol(r, P, rng_int(r, 10, c->tier ? 34 : 26), &A2); if (sprank(&A2) == A2.n) { mat_free(&A); A = A2; vf_tag(c, "ilu-emptied-column-gadget"); } else { mat_free(&A2); gadget = 0; } }
    int n = A.n;
    gen_tuning(r, 1);
    if (rng_bool(r, 0.75)) vf_ienv_set(6, rng_bool(r, 0.7) ? 1 : rng_int(r, 2, 3));   /* small fill estimate: in-flight expansions inside the workspace */
    if (rng_bool(r, 0.4)) o.opt.ColPerm = rng_bool(r, 0.5) ? NATURAL : MY_PERMC;        /* orderings that do not fight fill: U outgrows the estimate */
    if (fillbomb) { o.opt.ColPerm = NATURAL; o.opt.SymmetricMode = NO; vf_ienv_set(6, 1);
        if (rng_bool(r, 0.6)) { vf_ienv_set(3, rng_int(r, 1, 2)); vf_ienv_set(2, 1); vf_ienv_set(7, rng_int(r, 1, 2)); } }   /* tiny supernodes: the fill lands in U's column storage */
    if (pl.ilu) { gen_ilu_options(r, &pl.opt); pl.opt.RowPerm = rng_bool(r, 0.3) && pl.route ? LargeDiag_MC64 : NOROWPERM;
        if (gadget) { pl.opt.RowPerm = NOROWPERM; pl.opt.ColPerm = NATURAL; pl.opt.ILU_DropRule |= DROP_BASIC; pl.opt.ILU_DropRule &= ~NODROP; if (pl.opt.ILU_DropTol < 1e-4) pl.opt.ILU_DropTol = 1e-2; pl.opt.Equil = NO;
                      if (rng_bool(r, 0.7)) pl.opt.ILU_FillFactor = 1.0; pl.rowmajor = 0; }
        ilu_options_str(&pl.opt, buf, sizeof buf); }
    else { set_default_options(&pl.opt); pl.opt.ColPerm = o.opt.ColPerm; pl.opt.DiagPivotThresh = o.opt.DiagPivotThresh; pl.opt.SymmetricMode = o.opt.SymmetricMode; pl.opt.PrintStat = NO; pl.opt.Equil = o.opt.Equil; run_opts_str(&o, buf, sizeof buf); }
    pl.opt.PivotGrowth = NO; pl.opt.ConditionNumber = NO; pl.opt.IterRefine = NOREFINE;
    int *mypc = malloc(sizeof(int) * (size_t)(n + 1)); rng_perm(r, mypc, n); pl.mypc = mypc;
    const char *rn = pl.route ? (pl.ilu ? "gsisx" : "gssvx") : (pl.ilu ? "gsitrf" : "gstrf");
    char gs[200]; gen_spec_str(&g, gs, sizeof gs); vf_desc(c, "%s %s; %s; ", rn, gs, buf); tuning_str(buf, sizeof buf); vf_desc(c, "%s", buf);
    vf_tag(c, "prec=%c", P->letter); vf_tag(c, "route=%s", rn); if (pl.ilu) vf_note(c, "ilu");
    if (sprank(&A) < n) { vf_note(c, "structsing"); vf_tag(c, "structsing"); }
    vf_sig_u64(c, mat_pattern_hash(&A)); vf_sig_u64(c, (uint64_t)pl.route * 2 + (uint64_t)pl.ilu);
    int mode = (int)(c->index % 8);        /* 0-5 workspace sweep, 6 growth-failure enumeration, 7 size query */
    if (A.m != A.n && mode == 7) mode = 0;    /* the size query belongs to the (square) drivers */
    /* reference under library allocation */
    uint64_t h0; int exp0, sbad; int_t info0 = attempt(c, P, &A, &pl, NULL, 0, &h0, &exp0, &sbad, why, sizeof why);
    int ok0 = pl.ilu ? (info0 >= 0 && info0 <= n + 1) : (info0 == 0 || info0 == n + 1);
    if (!ok0 || sbad) { vf_tag(c, "reference-not-successful"); goto out; }
    if (mode == 7 || (mode == 6 && !pl.route && 0)) {
        if (!pl.route) { pl.route = 1; }      /* the size query of the property is the drivers' */
        size_query(c, P, &A, &pl); vf_tag(c, "mode=query"); c->nontrivial = 1; goto out;
    }
    if (mode == 6) {
        /* every allocation-failure position among the factor-growth requests (?expand) under library allocation */
        vf_tag(c, "mode=growthfail");
        vf_fault_arm("expand", 1 << 30); uint64_t hh; int ee; attempt(c, P, &A, &pl, NULL, 0, &hh, &ee, &sbad, why, sizeof why); long total = vf_fault_seen(); vf_fault_arm(NULL, 0);
        int reported = 0, survived = 0;
        for (long k = 1; k <= total && c->nmore < 3; k++) {
            uint64_t mark = vf_ledger_mark();
            vf_fault_arm("expand", k); int_t info = attempt(c, P, &A, &pl, NULL, 0, &hh, &ee, &sbad, why, sizeof why); int fired = vf_fault_fired(); vf_fault_arm(NULL, 0);
            if (!fired) continue;
            if (info > n + 1 || (info == n + 1 && 0)) { reported++; vf_check_ledger_since(c, "after an injected growth failure", "nomem", mark); }
            else if ((pl.ilu ? (info >= 0 && info <= n + 1) : (info == 0 || info == n + 1))) {
                /* the library may legitimately retry with a smaller request (initial allocation, or reduced growth) */
                survived++;
                if (sbad) vf_viol(c, "damaged-factors-after-failed-growth", "%s: allocation failure #%ld among ?expand requests was survived but the factors are malformed: %s", rn, k, why);
                else if (hh != h0) vf_viol(c, "factors-differ-after-failed-growth", "%s: allocation failure #%ld among ?expand requests was survived but perms/L/U differ from the fault-free run", rn, k);
            } else vf_viol(c, "growth-failure-misreported", "%s: allocation failure #%ld among ?expand requests returned info=%lld (n=%d), expected info > n", rn, k, (long long)info, n);
        }
        c->counters[2] += reported; c->counters[3] += survived; c->counters[5] += total;
        c->nontrivial = reported + survived >= 2; vf_tag(c, "growth-enumeration=exhaustive");
        goto out;
    }
    {   /* workspace sweep */
        vf_tag(c, "mode=sweep");
        size_t G = generous_lwork(P, A.m, A.nnz); arena ar; arena_init(&ar, G);
        /* find the smallest sufficient length on a 4-byte grid by bisection (monotone in practice; the sweep below does not rely on it) */
        size_t lo = 0, hi = G; int align4 = rng_bool(r, 0.5);
        for (int it = 0; it < 40 && hi - lo > 4; it++) {
            size_t mid = ((lo + hi) / 2) & ~(size_t)3; if (mid <= lo) mid = lo + 4;
            uint64_t bmark = vf_ledger_mark();
            arena_place(&ar, mid, align4); uint64_t hh; int ee; int_t info = attempt(c, P, &A, &pl, ar.work, (int_t)mid, &hh, &ee, &sbad, why, sizeof why);
            if (info > n + 1 || (info > n && !pl.route)) lo = mid; else hi = mid;
            vf_check_ledger_since(c, "bisection run", info > n ? "nomem" : "ws", bmark);
        }
        size_t need = hi;
        if (need + 8 >= G) vf_viol(c, "generous-workspace-reported-short", "%s: even %zu bytes (several times the dense n x n factors) are reported as insufficient although library allocation succeeded", rn, G);
        /* lengths: dense 4-byte grid in windows around 0, need and the pointer/work-array thresholds; coarse elsewhere */
        long win = c->tier ? 3072 : 1024; int nrun = 0, nshort = 0, nok = 0;
        for (int pass = 0; pass < 2 && c->nmore < 3; pass++) {
            int a4 = pass ? !align4 : align4;
            for (size_t L = 0; L <= need + (size_t)win && c->nmore < 3; ) {
                uint64_t mark = vf_ledger_mark();
                arena_place(&ar, L, a4);
                uint64_t hh; int ee; int_t info = attempt(c, P, &A, &pl, ar.work, (int_t)L, &hh, &ee, &sbad, why, sizeof why); nrun++;
                long wh;
                if (vf_events_count(VF_EV_STACK_OVERLAP) > 0) { vf_viol(c, "workspace-stack-overlap", "%s: lwork=%zu (align %d): after a storage growth the head of the workspace stack passed its tail (arrays overlap the work vectors); info=%lld", rn, L, a4 ? 4 : 8, (long long)info); vf_events_reset(); }
                UNPOISON(ar.base, ar.cap);
                if (!arena_canary_ok(&ar, &wh)) vf_viol(c, "write-outside-workspace", "%s: lwork=%zu (align %d): byte at offset %ld relative to work[] was overwritten", rn, L, a4 ? 4 : 8, wh);
                if (L == 0) { /* lwork = 0 means library allocation */ }
                else if (info > n + 1 || (info > n && info != n + 1)) { nshort++; vf_check_ledger_since(c, "after a reported workspace shortage", "nomem", mark); }
                else if (pl.ilu ? (info >= 0 && info <= n + 1) : (info == 0 || info == n + 1)) {
                    nok++;
                    if (sbad) vf_viol(c, "damaged-factors", "%s: lwork=%zu (align %d) reported success but the factors are malformed: %s", rn, L, a4 ? 4 : 8, why);
                    else if (hh != h0) vf_viol(c, "factors-differ-from-malloc", "%s: lwork=%zu (align %d, %d expansions) reported success but perms/L/U differ from the library-allocation run", rn, L, a4 ? 4 : 8, ee);
                    vf_check_ledger_since(c, "after a successful workspace run", "ws", mark);
                } else vf_viol(c, "shortage-misreported", "%s: lwork=%zu (align %d) returned info=%lld (n=%d): neither success nor info > n", rn, L, a4 ? 4 : 8, (long long)info, n);
                /* next length */
                long d = (long)L - (long)need; size_t step = 4;
                int full = pass == 0 && need <= (c->tier ? 65536u : 24576u);     /* complete 4-byte sweep for one alignment when affordable */
                if (!full && !(L < 512 || (d > -win && d < win))) step = pass ? 1028 : 516;
                L += step;
            }
        }
        arena_free(&ar);
        c->counters[5] += vf_events_count(VF_EV_WS_GROWTH);
        c->counters[0] += nrun; c->counters[1] += nshort; c->counters[6] += nok; if ((long)need > c->counters[7]) c->counters[7] = (long)need;
        c->nontrivial = nshort >= 10 && nok >= 10; vf_tag(c, need <= (c->tier ? 65536u : 24576u) ? "sweep=complete-4-byte-grid" : "sweep=windows");
    }
out:
    free(mypc); mat_free(&A);
    vf_check_ledger(c, "after the workspace lifecycle");
}
VF_REGISTER("C08", c08_run)
