/* Monitor runtime: allocation ledger, fault injection, junk fill, tuning table (sp_ienv),
 * event sink for the guarded hooks, PRNG, case bookkeeping, watchdog, worker main(). */
#define _GNU_SOURCE
#include "vf.h"
#include <stdarg.h>
#include <pthread.h>
#include <unistd.h>
#include <fcntl.h>
#include <signal.h>
#include <sched.h>
#include <time.h>
#include <sys/time.h>
#include <sys/resource.h>
#include <setjmp.h>
#include <execinfo.h>

#if defined(__SANITIZE_ADDRESS__) || defined(__SANITIZE_THREAD__)
extern void __sanitizer_print_stack_trace(void);
#define HAVE_SAN_STACK 1
#endif
#if defined(__has_feature)
#if __has_feature(memory_sanitizer) || __has_feature(address_sanitizer) || __has_feature(thread_sanitizer)
extern void __sanitizer_print_stack_trace(void);
#ifndef HAVE_SAN_STACK
#define HAVE_SAN_STACK 1
#endif
#endif
#if __has_feature(memory_sanitizer)
#define VF_MSAN 1
#endif
#endif

/* ======================================================================= rng */
uint64_t rng_u64(vf_rng *r)
{
    uint64_t z = (r->s += 0x9E3779B97F4A7C15ULL);
    z = (z ^ (z >> 30)) * 0xBF58476D1CE4E5B9ULL;
    z = (z ^ (z >> 27)) * 0x94D049BB133111EBULL;
    return z ^ (z >> 31);
}
void rng_seed(vf_rng *r, uint64_t a, uint64_t b, uint64_t c)
{
    r->s = a * 0x9E3779B97F4A7C15ULL ^ (b + 0x632BE59BD9B4E019ULL) * 0xD1342543DE82EF95ULL ^ (c << 17) ^ c;
    rng_u64(r); rng_u64(r);
}
int rng_int(vf_rng *r, int lo, int hi)
{
    if (hi <= lo) return lo;
    return lo + (int)(rng_u64(r) % (uint64_t)(hi - lo + 1));
}
double rng_unif(vf_rng *r) { return (double)(rng_u64(r) >> 11) * (1.0 / 9007199254740992.0); }
int rng_bool(vf_rng *r, double p) { return rng_unif(r) < p; }
int rng_pick(vf_rng *r, const int *v, int n) { return v[rng_int(r, 0, n - 1)]; }
void rng_perm(vf_rng *r, int *p, int n)
{
    for (int i = 0; i < n; i++) p[i] = i;
    for (int i = n - 1; i > 0; i--) { int j = rng_int(r, 0, i); int t = p[i]; p[i] = p[j]; p[j] = t; }
}
uint64_t fnv64(uint64_t h, const void *p, size_t n)
{
    const unsigned char *b = p;
    for (size_t i = 0; i < n; i++) { h ^= b[i]; h *= 1099511628211ULL; }
    return h;
}

/* ======================================================================= ledger */
typedef struct { void *p; size_t size; const char *file; int line; const char *func; uint64_t seq; int tid; int state; } lent;
/* state: 0 empty, 1 live, 2 tombstone */
static lent *L_tab; static size_t L_cap, L_live, L_used; static long L_live_bytes;
static pthread_mutex_t L_mu = PTHREAD_MUTEX_INITIALIZER;
static uint64_t L_seq; static long L_badfree; static char L_badsite[128];
static volatile int G_junk = -1; static int G_nojunk;
static __thread long T_growth_ws, T_growth_sys;      /* monotonic: ?expand calls seen inside a caller workspace (hook 4) / allocations made by ?expand (library allocation) */
long vf_growth_ws(void) { return T_growth_ws; }
long vf_growth_sys(void) { return T_growth_sys; }
static volatile int G_yield_permille = 0;
static __thread uint64_t T_yield_rng;
static __thread const char *T_fault_func; static __thread long T_fault_k, T_fault_seen; static __thread int T_fault_fired;
static __thread int T_trace_on; static __thread uint64_t T_trace_sig;
static __thread int T_tid;
static int G_tid_next = 1;
/* recent allocation-site function counters (per process) */
#define SITE_MAX 256
static struct { const char *func; long n; } G_sites[SITE_MAX]; static int G_nsites;

static int G_outfd = -1;
static vf_case *G_cur;
static volatile int G_desc_emitted;
static void emit_desc_early(void);
static size_t hptr(void *p, size_t cap) { uint64_t x = (uint64_t)(uintptr_t)p; x ^= x >> 33; x *= 0xff51afd7ed558ccdULL; x ^= x >> 29; return (size_t)(x & (cap - 1)); }
static void ledger_grow(void)
{
    size_t ncap = L_cap ? L_cap * 2 : 4096; lent *nt = calloc(ncap, sizeof(lent));
    if (!nt) { fprintf(stderr, "vf: ledger out of memory\n"); _exit(VF_EXIT_PROTO); }
    for (size_t i = 0; i < L_cap; i++) if (L_tab[i].state == 1) {
        size_t h = hptr(L_tab[i].p, ncap); while (nt[h].state) h = (h + 1) & (ncap - 1); nt[h] = L_tab[i];
    }
    free(L_tab); L_tab = nt; L_cap = ncap; L_used = L_live;
}
static void ledger_add(void *p, size_t size, const char *file, int line, const char *func)
{
    if ((L_used + 1) * 2 > L_cap) ledger_grow();
    size_t h = hptr(p, L_cap);
    while (L_tab[h].state == 1) h = (h + 1) & (L_cap - 1);
    if (L_tab[h].state == 0) L_used++;
    L_tab[h] = (lent){ p, size, file, line, func, ++L_seq, T_tid, 1 };
    L_live++; L_live_bytes += (long)size;
    int i; for (i = 0; i < G_nsites; i++) if (G_sites[i].func == func || !strcmp(G_sites[i].func, func)) break;
    if (i == G_nsites && G_nsites < SITE_MAX) { G_sites[G_nsites].func = func; G_sites[G_nsites].n = 0; G_nsites++; }
    if (i < SITE_MAX) G_sites[i].n++;
}
static int ledger_del(void *p, size_t *size)
{
    if (!L_cap) return 0;
    size_t h = hptr(p, L_cap);
    while (L_tab[h].state) {
        if (L_tab[h].state == 1 && L_tab[h].p == p) { L_tab[h].state = 2; L_live--; L_live_bytes -= (long)L_tab[h].size; if (size) *size = L_tab[h].size; return 1; }
        h = (h + 1) & (L_cap - 1);
    }
    return 0;
}
static void maybe_yield(void)
{
    int pm = G_yield_permille; if (!pm) return;
    T_yield_rng += 0x9E3779B97F4A7C15ULL; uint64_t z = T_yield_rng; z = (z ^ (z >> 30)) * 0xBF58476D1CE4E5B9ULL; z ^= z >> 27;
    unsigned r = (unsigned)(z % 1000);
    if ((int)r < pm) { if (r & 1) sched_yield(); else { struct timespec ts = { 0, (long)(z >> 40) % 200000 }; nanosleep(&ts, NULL); } }
}
void *vf_malloc(size_t size, const char *file, int line, const char *func)
{
    if (!T_tid) T_tid = __atomic_fetch_add(&G_tid_next, 1, __ATOMIC_RELAXED);
    if (T_trace_on) { T_trace_sig = fnv64(T_trace_sig, func, strlen(func)); T_trace_sig = fnv64(T_trace_sig, &size, sizeof size); }
    if (T_fault_k > 0 && T_fault_func && strstr(func, T_fault_func)) {
        T_fault_seen++;
        if (T_fault_seen == T_fault_k) { T_fault_fired = 1; return NULL; }
    } else if (T_fault_func && strstr(func, T_fault_func)) T_fault_seen++;
    if (G_cur && !G_desc_emitted && strstr(file, "/SRC/")) emit_desc_early();
    maybe_yield();
    void *p = malloc(size ? size : 1);
    if (!p) return NULL;
    { size_t fl = strlen(func); if (fl == 7 && !strcmp(func + 1, "expand")) T_growth_sys++; }
#ifndef VF_MSAN
    int j = G_junk;
    if (j >= 0 && !G_nojunk) {
        if (j < 256) memset(p, j, size);
        else if (j >= 300 && j < 500) {     /* "stale mark" fills: every 32-bit (300+v) or 64-bit (400+v) word holds the small integer v, as a block that an
                                               earlier call used for column/row marks would; a reader that relies on fresh memory being cleared, or that
                                               clears only part of an index array, meets plausible indices instead of garbage */
            size_t w = j >= 400 ? 8 : 4; long v = j >= 400 ? j - 400 : j - 300; unsigned char *b = p; size_t i = 0;
            for (; i + w <= size; i += w) { if (w == 8) { int64_t x = v; memcpy(b + i, &x, 8); } else { int32_t x = (int32_t)v; memcpy(b + i, &x, 4); } }
            for (; i < size; i++) b[i] = 0;
        }
        else { uint64_t s = (uint64_t)size * 0x9E3779B97F4A7C15ULL + (uint64_t)line; unsigned char *b = p; for (size_t i = 0; i < size; i++) { s = s * 6364136223846793005ULL + 1442695040888963407ULL; b[i] = (unsigned char)(s >> 56); } }
    }
#endif
    pthread_mutex_lock(&L_mu);
    ledger_add(p, size, file, line, func);
    pthread_mutex_unlock(&L_mu);
    return p;
}
void vf_free(void *p)
{
    if (!p) return;
    maybe_yield();
    pthread_mutex_lock(&L_mu);
    int ok = ledger_del(p, NULL);
    if (!ok) { L_badfree++; if (!L_badsite[0]) snprintf(L_badsite, sizeof L_badsite, "%p", p); }
    pthread_mutex_unlock(&L_mu);
    if (ok) free(p);
    else {
#ifdef HAVE_SAN_STACK
        fprintf(stderr, "VF-BADFREE %p (not a live block of the ledger)\n", p); __sanitizer_print_stack_trace();
#endif
    }
}
long vf_ledger_live(void) { pthread_mutex_lock(&L_mu); long v = (long)L_live; pthread_mutex_unlock(&L_mu); return v; }
long vf_ledger_live_bytes(void) { pthread_mutex_lock(&L_mu); long v = L_live_bytes; pthread_mutex_unlock(&L_mu); return v; }
int vf_ledger_list(vf_block *out, int max)
{
    int k = 0; pthread_mutex_lock(&L_mu);
    for (size_t i = 0; i < L_cap && k < max; i++) if (L_tab[i].state == 1) {
        out[k++] = (vf_block){ L_tab[i].p, L_tab[i].size, L_tab[i].file, L_tab[i].line, L_tab[i].func, L_tab[i].seq, L_tab[i].tid };
    }
    pthread_mutex_unlock(&L_mu); return k;
}
void vf_ledger_purge(void)
{
    pthread_mutex_lock(&L_mu);
    for (size_t i = 0; i < L_cap; i++) if (L_tab[i].state == 1) { free(L_tab[i].p); L_tab[i].state = 2; }
    L_live = 0; L_live_bytes = 0;
    pthread_mutex_unlock(&L_mu);
}
long vf_bad_frees(void) { return L_badfree; }
const char *vf_bad_free_site(void) { return L_badsite; }
void vf_ledger_reset_counters(void) { pthread_mutex_lock(&L_mu); L_badfree = 0; L_badsite[0] = 0; for (int i = 0; i < G_nsites; i++) G_sites[i].n = 0; L_seq = 0; pthread_mutex_unlock(&L_mu); }
uint64_t vf_alloc_count(void) { return L_seq; }
long vf_alloc_count_matching(const char *sub)
{
    long n = 0; pthread_mutex_lock(&L_mu);
    for (int i = 0; i < G_nsites; i++) if (strstr(G_sites[i].func, sub)) n += G_sites[i].n;
    pthread_mutex_unlock(&L_mu); return n;
}
void vf_fault_arm(const char *f, long k) { T_fault_func = f; T_fault_k = k; T_fault_seen = 0; T_fault_fired = 0; }
int  vf_fault_fired(void) { return T_fault_fired; }
long vf_fault_seen(void) { return T_fault_seen; }
void vf_set_junk(int pattern) { G_junk = pattern; }
void vf_set_yield(int permille, uint64_t seed) { G_yield_permille = permille; T_yield_rng = seed; }
void vf_trace_enable(int on) { T_trace_on = on; T_trace_sig = FNV0; }
uint64_t vf_trace_signature(void) { return T_trace_sig; }

/* ======================================================================= tuning: the harness's sp_ienv */
static __thread int T_ienv[8] = { 0, 20, 10, 200, 200, 100, 30, 10 };
void vf_ienv_set(int i, int v) { if (i >= 1 && i <= 7) T_ienv[i] = v; }
extern int slu_library_sp_ienv(int);      /* SRC/sp_ienv.c compiled under this name: the library's own default tuning */
void vf_ienv_default(void) { T_ienv[0] = 0; for (int i = 1; i <= 7; i++) T_ienv[i] = slu_library_sp_ienv(i); }
int  vf_ienv_get(int i) { return (i >= 1 && i <= 7) ? T_ienv[i] : -1; }
int sp_ienv(int ispec)
{
    if (ispec >= 1 && ispec <= 7) return T_ienv[ispec];
    int i = 1; input_error("sp_ienv", &i); return 0;
}

/* ======================================================================= events */
static int G_evdebug; static __thread int T_zp_nocand; static __thread long T_ev[6]; static __thread int T_ev_first[6];
static __thread long T_layout_bad, T_layout_seen; static __thread int T_layout_type;
/* a violation of the storage properties observed by shared code that has no case at hand (first one of the case is kept) */
static __thread char T_sticky_key[64], T_sticky_msg[400];
void vf_sticky_storage_viol(const char *key, const char *fmt, ...)
{ if (T_sticky_key[0]) return; snprintf(T_sticky_key, sizeof T_sticky_key, "%s", key); va_list ap; va_start(ap, fmt); vsnprintf(T_sticky_msg, sizeof T_sticky_msg, fmt, ap); va_end(ap); }
void slu_verif_event(int kind, int a, int b)
{
    if (kind == 5) { T_layout_seen++; if (a && T_layout_bad++ == 0) T_layout_type = b; if (G_evdebug) fprintf(stderr, "EV5 bad=%d type=%d\n", a, b); return; }
    (void)b; if (kind < 1 || kind > 4) return;
    if (kind == 4) { if (b >= 16) { T_growth_ws++; T_ev[VF_EV_WS_GROWTH]++; } if (G_evdebug) fprintf(stderr, "EV4 overlap=%d type=%d\n", a, b);
        /* an in-flight growth of UCOL books USUB's share as well and is legitimately over-committed until the USUB call that follows has checked it */
        if (!a || b == 16 + UCOL) return; }      /* kind 4 counts as an overlap event only when the invariant is broken */
    if (kind == VF_EV_ZERO_PIVOT && b == 0 && !T_zp_nocand) {
        /* a column without ANY candidate row (listed finding F6): visible to the supervisor even if the process dies later */
        T_zp_nocand = 1;
        if (G_outfd >= 0 && G_cur) { char line[96]; snprintf(line, sizeof line, "{\"t\":\"ev\",\"i\":%ld,\"k\":1,\"a\":%d}\n", G_cur->index, a); ssize_t w = write(G_outfd, line, strlen(line)); (void)w; }
    }
    if (T_ev[kind]++ == 0) {
        T_ev_first[kind] = a;
        if (0) {
            char line[96]; snprintf(line, sizeof line, "{\"t\":\"ev\",\"i\":%ld,\"k\":1,\"a\":%d}\n", G_cur->index, a);
            ssize_t w = write(G_outfd, line, strlen(line)); (void)w;
        }
    }
}
/* initial capacities of the growable factor arrays (guarded hook in ?LUMemInit): 0 = keep the library's guess */
static __thread long T_cap[3]; static __thread long T_cap_seen[3]; static __thread long T_cap_calls;
void slu_verif_capacity(int_t *nzlumax, int_t *nzumax, int_t *nzlmax)
{
    T_cap_calls++; T_cap_seen[0] = (long)*nzlumax; T_cap_seen[1] = (long)*nzumax; T_cap_seen[2] = (long)*nzlmax;
    if (T_cap[0] > 0) *nzlumax = (int_t)T_cap[0];
    if (T_cap[1] > 0) *nzumax = (int_t)T_cap[1];
    if (T_cap[2] > 0) *nzlmax = (int_t)T_cap[2];
}
void vf_cap_set(long lusup, long ucol, long lsub) { T_cap[0] = lusup; T_cap[1] = ucol; T_cap[2] = lsub; }
long vf_cap_default(int which) { return T_cap_seen[which]; }
long vf_cap_calls(void) { return T_cap_calls; }
void vf_events_reset(void) { for (int i = 0; i < 6; i++) { T_ev[i] = 0; T_ev_first[i] = -1; } T_zp_nocand = 0; }
int vf_zero_pivot_without_candidate(void) { return T_zp_nocand; }
long vf_events_count(int k) { return T_ev[k]; }
long vf_layout_checks(void) { return T_layout_seen; }
int  vf_events_first(int k) { return T_ev[k] ? T_ev_first[k] : -1; }

/* ======================================================================= worker state, output */
__thread jmp_buf *vf_abort_jmp; __thread char vf_abort_msg[300];

static void out_line(const char *s) { size_t n = strlen(s); ssize_t w = write(G_outfd, s, n); (void)w; }
static void jesc(char *dst, size_t dn, const char *src)
{
    size_t k = 0;
    for (; *src && k + 8 < dn; src++) {
        unsigned char ch = (unsigned char)*src;
        if (ch == '"' || ch == '\\') { dst[k++] = '\\'; dst[k++] = (char)ch; }
        else if (ch == '\n') { dst[k++] = ' '; }
        else if (ch < 0x20 || ch >= 0x7f) { dst[k++] = '?'; }
        else dst[k++] = (char)ch;
    }
    dst[k] = 0;
}
static void emit_desc_early(void)
{
    /* description of the running case, written before the first library allocation so that the
       supervisor can describe a case that dies inside the library */
    if (__atomic_exchange_n(&G_desc_emitted, 1, __ATOMIC_RELAXED)) return;
    char d[1000], line[1200]; jesc(d, sizeof d, G_cur->desc);
    snprintf(line, sizeof line, "{\"t\":\"desc\",\"i\":%ld,\"desc\":\"%s\"}\n", G_cur->index, d);
    out_line(line);
}
void vf_abort(const char *msg)
{
    if (vf_abort_jmp) { snprintf(vf_abort_msg, sizeof vf_abort_msg, "%s", msg); longjmp(*vf_abort_jmp, 1); }
    char e[400], line[600]; jesc(e, sizeof e, msg);
    snprintf(line, sizeof line, "{\"t\":\"abort\",\"i\":%ld,\"msg\":\"%s\"}\n", G_cur ? G_cur->index : -1L, e);
    out_line(line);
    fprintf(stderr, "VF-ABORT %s\n", msg);
#ifdef HAVE_SAN_STACK
    __sanitizer_print_stack_trace();
#endif
    _exit(VF_EXIT_ABORT);
}
static void on_alarm(int sig)
{
    (void)sig; char line[128];
    snprintf(line, sizeof line, "{\"t\":\"hang\",\"i\":%ld}\n", G_cur ? G_cur->index : -1L);
    out_line(line);
    static const char m[] = "VF-HANG watchdog fired\n"; ssize_t w = write(2, m, sizeof m - 1); (void)w;
#ifdef HAVE_SAN_STACK
    __sanitizer_print_stack_trace();
#else
    { void *bt[32]; int n = backtrace(bt, 32); backtrace_symbols_fd(bt, n, 2); }
#endif
    _exit(VF_EXIT_HANG);
}

void vf_viol(vf_case *c, const char *key, const char *fmt, ...)
{
    if (c->verdict == 1) {          /* further violations with a different key are kept too (up to 3) */
        char k2[200]; snprintf(k2, sizeof k2, "%s%s", key, c->notes);
        if (!strcmp(k2, c->key) || c->nmore >= 3) return;
        for (int i = 0; i < c->nmore; i++) if (!strcmp(k2, c->more_key[i])) return;
        snprintf(c->more_key[c->nmore], sizeof c->more_key[0], "%s", k2);
        va_list ap2; va_start(ap2, fmt); vsnprintf(c->more_msg[c->nmore], sizeof c->more_msg[0], fmt, ap2); va_end(ap2);
        if (c->verbose) fprintf(stderr, "VIOL[%s] %s\n", k2, c->more_msg[c->nmore]);
        c->nmore++; return;
    }
    c->verdict = 1; snprintf(c->key, sizeof c->key, "%s%s", key, c->notes);
    va_list ap; va_start(ap, fmt); vsnprintf(c->msg, sizeof c->msg, fmt, ap); va_end(ap);
    if (c->verbose) fprintf(stderr, "VIOL[%s] %s\n", c->key, c->msg);
}
void vf_skip(vf_case *c, const char *why) { if (c->verdict == 0) { c->verdict = 2; snprintf(c->key, sizeof c->key, "%s", why); } }
void vf_tag(vf_case *c, const char *fmt, ...)
{
    char b[128]; va_list ap; va_start(ap, fmt); vsnprintf(b, sizeof b, fmt, ap); va_end(ap);
    size_t l = strlen(c->tags); if (l + strlen(b) + 2 >= sizeof c->tags) return;
    if (l) c->tags[l++] = ' '; strcpy(c->tags + l, b);
}
void vf_desc(vf_case *c, const char *fmt, ...)
{
    size_t l = strlen(c->desc); if (l + 2 >= sizeof c->desc) return;
    va_list ap; va_start(ap, fmt); vsnprintf(c->desc + l, sizeof c->desc - l, fmt, ap); va_end(ap);
}
void vf_note(vf_case *c, const char *note)
{
    /* context that becomes part of violation keys of this case: appended to leak keys by vf_check_ledger and,
       by the supervisor, to the key of a death (crash / sanitizer report / hang / abort) of this case */
    if (strstr(c->notes, note)) return;
    size_t l = strlen(c->notes); if (l + strlen(note) + 2 >= sizeof c->notes) return;
    c->notes[l++] = '+'; strcpy(c->notes + l, note);
    char line[200]; snprintf(line, sizeof line, "{\"t\":\"note\",\"i\":%ld,\"s\":\"%s\"}\n", c->index, note); out_line(line);
}
void vf_sig(vf_case *c, const void *p, size_t n) { c->sig = fnv64(c->sig ? c->sig : FNV0, p, n); }
void vf_sig_u64(vf_case *c, uint64_t v) { vf_sig(c, &v, sizeof v); }
void vf_log(vf_case *c, const char *fmt, ...)
{
    if (!c->verbose) return; va_list ap; va_start(ap, fmt); vfprintf(stderr, fmt, ap); va_end(ap); fputc('\n', stderr);
}
uint64_t vf_ledger_mark(void) { pthread_mutex_lock(&L_mu); uint64_t v = L_seq; pthread_mutex_unlock(&L_mu); return v; }
void vf_check_ledger_since(vf_case *c, const char *where, const char *ctx, uint64_t mark)
{
    /* blocks allocated after `mark` that are still live: report (key leak[ctx]@oldest site) and release only those */
    pthread_mutex_lock(&L_mu);
    long cnt = 0, bytes = 0; lent *o = NULL; char sites[300] = "";
    for (size_t i = 0; i < L_cap; i++) if (L_tab[i].state == 1 && L_tab[i].seq > mark) {
        cnt++; bytes += (long)L_tab[i].size; if (!o || L_tab[i].seq < o->seq) o = &L_tab[i];
        size_t l = strlen(sites); if (l < sizeof sites - 40) snprintf(sites + l, sizeof sites - l, "%s%s:%d(%zu)", l ? "," : "", L_tab[i].func, L_tab[i].line, L_tab[i].size);
    }
    char key[200] = ""; if (o) snprintf(key, sizeof key, "leak[%s]@%s", ctx ? ctx : "", o->func);
    for (size_t i = 0; i < L_cap; i++) if (L_tab[i].state == 1 && L_tab[i].seq > mark) { free(L_tab[i].p); L_tab[i].state = 2; L_live--; L_live_bytes -= (long)L_tab[i].size; }
    pthread_mutex_unlock(&L_mu);
    if (cnt) vf_viol(c, key, "%s: %ld block(s), %ld bytes allocated by the call are still live after the caller released what it was handed: %s", where, cnt, bytes, sites);
}
void vf_check_ledger(vf_case *c, const char *where) { vf_check_ledger_ctx(c, where, NULL); }
void vf_check_ledger_ctx(vf_case *c, const char *where, const char *ctx)
{
    if (vf_bad_frees() > 0) {
        vf_viol(c, "badfree", "%s: %ld free(s) of a pointer that is not a live allocation (first %s)", where, vf_bad_frees(), vf_bad_free_site());
    }
    long live = vf_ledger_live();
    if (live > 0) {
        vf_block b[8]; int k = vf_ledger_list(b, 8);
        /* key by the allocation site function of the oldest leaked block */
        int o = 0; for (int i = 1; i < k; i++) if (b[i].seq < b[o].seq) o = i;
        char key[200]; if (ctx) snprintf(key, sizeof key, "leak[%s]@%s", ctx, b[o].func); else snprintf(key, sizeof key, "leak@%s", b[o].func);
        char sites[300] = ""; for (int i = 0; i < k; i++) { size_t l = strlen(sites); snprintf(sites + l, sizeof sites - l, "%s%s:%d(%zu)", i ? "," : "", b[i].func, b[i].line, b[i].size); }
        vf_viol(c, key, "%s: %ld block(s), %ld bytes still allocated after the caller destroyed everything it was handed: %s", where, live, vf_ledger_live_bytes(), sites);
        vf_ledger_purge();
    }
}

/* ======================================================================= dispatch */
typedef struct { const char *name; vf_case_fn fn; } prop_ent;
static prop_ent PROPS[128]; static int NPROPS;
void vf_register(const char *name, vf_case_fn fn) { if (NPROPS < 127) { PROPS[NPROPS].name = name; PROPS[NPROPS].fn = fn; NPROPS++; } }

static void emit_case(vf_case *c)
{
    char k[300], m[900], t[1800], d[1000], line[8200], more[2600] = "";
    jesc(k, sizeof k, c->key); jesc(m, sizeof m, c->msg); jesc(t, sizeof t, c->tags); jesc(d, sizeof d, c->desc);
    for (int i = 0; i < c->nmore; i++) { char k2[300], m2[600]; jesc(k2, sizeof k2, c->more_key[i]); jesc(m2, sizeof m2, c->more_msg[i]);
        size_t l = strlen(more); snprintf(more + l, sizeof more - l, "%s{\"key\":\"%s\",\"msg\":\"%s\"}", i ? "," : "", k2, m2); }
    snprintf(line, sizeof line,
        "{\"t\":\"case\",\"i\":%ld,\"v\":%d,\"key\":\"%s\",\"msg\":\"%s\",\"more\":[%s],\"tags\":\"%s\",\"desc\":\"%s\",\"sig\":\"%016llx\",\"nt\":%d,\"cn\":[%ld,%ld,%ld,%ld,%ld,%ld,%ld,%ld]}\n",
        c->index, c->verdict, k, m, more, t, d, (unsigned long long)c->sig, c->nontrivial,
        c->counters[0], c->counters[1], c->counters[2], c->counters[3], c->counters[4], c->counters[5], c->counters[6], c->counters[7]);
    out_line(line);
}

int main(int argc, char **argv)
{
    if (argc < 8) {
        fprintf(stderr, "usage: %s PROP prec(s|d|c|z) seed start count tier(0|1) outfile [verbose] [cpu_limit_s]\n", argv[0]);
        return VF_EXIT_PROTO;
    }
    const char *prop = argv[1]; char pl = argv[2][0];
    uint64_t seed = strtoull(argv[3], NULL, 10); long start = atol(argv[4]), count = atol(argv[5]); int tier = atoi(argv[6]);
    int verbose = argc > 8 ? atoi(argv[8]) : 0; int cpu = argc > 9 ? atoi(argv[9]) : (tier ? 20 : 10);
    if (getenv("VF_NOJUNK")) G_nojunk = 1;
    if (getenv("VF_EVDEBUG")) G_evdebug = 1;
    G_outfd = open(argv[7], O_WRONLY | O_CREAT | O_APPEND, 0644);
    if (G_outfd < 0) { perror("open out"); return VF_EXIT_PROTO; }
    int prec = pl == 's' ? 0 : pl == 'd' ? 1 : pl == 'c' ? 2 : pl == 'z' ? 3 : -1;
    if (prec < 0) return VF_EXIT_PROTO;
    vf_case_fn fn = NULL;
    for (int e = 0; e < NPROPS; e++) if (!strcmp(PROPS[e].name, prop)) fn = PROPS[e].fn;
    if (!fn) { fprintf(stderr, "unknown property module %s\n", prop); return VF_EXIT_PROTO; }
    if (!verbose) { int dn = open("/dev/null", O_WRONLY); if (dn >= 0) { dup2(dn, 1); close(dn); } }
    struct sigaction sa; memset(&sa, 0, sizeof sa); sa.sa_handler = on_alarm; sigaction(SIGPROF, &sa, NULL);
    uint64_t ph = fnv64(FNV0, prop, strlen(prop));
    for (long i = start; i < start + count; i++) {
        vf_case c; memset(&c, 0, sizeof c);
        c.prop = prop; c.P = &vf_apis[prec]; c.seed = seed; c.index = i; c.tier = tier; c.verbose = verbose;
#ifdef VF_VENDOR_BLAS
        c.variant_vendor = 1;
#endif
#if defined(__SANITIZE_ADDRESS__)
        c.variant_san = 1;
#elif defined(__SANITIZE_THREAD__)
        c.variant_san = 2;
#elif defined(VF_MSAN)
        c.variant_san = 3;
#endif
        rng_seed(&c.rng, seed, ph ^ (uint64_t)prec, (uint64_t)i);
        G_cur = &c; G_desc_emitted = 0;
        char line[96]; snprintf(line, sizeof line, "{\"t\":\"start\",\"i\":%ld}\n", i); out_line(line);
        vf_ledger_reset_counters(); vf_events_reset(); vf_cap_set(0, 0, 0); vf_fault_arm(NULL, 0); vf_ienv_default();
        { uint64_t jr = rng_u64(&c.rng); int jm = (int)(jr % 12), jv = (int)((jr >> 20) % 7);
          vf_set_junk(jm < 3 ? 256 : jm == 3 ? 300 + jv : jm == 4 ? 400 + jv : (int[]){ 0x00, 0xFF, 0xA5 }[i % 3]); }
        struct itimerval it = { { 0, 0 }, { cpu, 0 } }; setitimer(ITIMER_PROF, &it, NULL);
        T_layout_bad = T_layout_seen = 0; T_sticky_key[0] = 0;
        fn(&c);
        struct itimerval off = { { 0, 0 }, { 0, 0 } }; setitimer(ITIMER_PROF, &off, NULL);
        /* guarded hook 5 (invariant of the live data structure, evaluated by the library at every growth in flight inside a caller
           workspace): the four growable arrays lie in order, without overlap, below the stack head. Owned by the storage properties. */
        if (T_layout_bad > 0 && (!strcmp(prop, "C07") || !strcmp(prop, "C08") || !strcmp(prop, "C19")))
            vf_viol(&c, "workspace-layout-broken", "%ld of %ld growths in flight inside a caller workspace left the four factor arrays out of order, overlapping or beyond the recorded stack head (first: growth of array type %d): the library's accounting of the workspace no longer covers what it uses", T_layout_bad, T_layout_seen, T_layout_type);
        if (T_sticky_key[0] && (!strcmp(prop, "C06") || !strcmp(prop, "C07") || !strcmp(prop, "C08") || !strcmp(prop, "C19"))) vf_viol(&c, T_sticky_key, "%s", T_sticky_msg);
        if (T_layout_seen > 0) vf_tag(&c, "layout-checked");
        emit_case(&c);
        if (vf_ledger_live() > 0) vf_ledger_purge();
#if !defined(__SANITIZE_ADDRESS__) && !defined(VF_MSAN)
        /* known finding F6/F14: after a zero pivot the library may write out of bounds; without a memory sanitizer that
           damage is silent and would surface in a LATER case of this process. Recycle the process instead. */
        if (vf_zero_pivot_without_candidate() || strstr(c.notes, "structsing")) { out_line("{\"t\":\"recycle\"}\n"); _exit(VF_EXIT_RECYCLE); }
#endif
    }
    out_line("{\"t\":\"done\"}\n");
    return 0;
}
