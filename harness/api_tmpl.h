/* Included four times by api.c with PL (letter token), SCALAR, REAL, CPLX, DT defined. */
#define CAT_(a,b) a##b
#define CAT(a,b) CAT_(a,b)
#define CAT3_(a,b,c) a##b##c
#define CAT3(a,b,c) CAT3_(a,b,c)
#define N(x)   CAT(PL, x)          /* dgssv */
#define W(x)   CAT3(w_, PL, x)     /* wrapper name */
#define SPN(x) CAT3(sp_, PL, x)    /* sp_dtrsv */
#define ILN(x) CAT3(ilu_, PL, x)   /* ilu_dQuerySpace */

extern REAL N(langs)(char *, SuperMatrix *);
extern void CAT3(c_fortran_, PL, gssv_)(int *, int *, int_t *, int *, SCALAR *, int_t *, int_t *, SCALAR *, int *, long long int *, int_t *);

#if CPLX
static ldc W(get)(const void *a, size_t i) { const SCALAR *p = a; return CMPLXL((ld)p[i].r, (ld)p[i].i); }
static void W(set)(void *a, size_t i, ldc v) { SCALAR *p = a; p[i].r = (REAL)creall(v); p[i].i = (REAL)cimagl(v); }
static ldc W(round)(ldc v) { return CMPLXL((ld)(REAL)creall(v), (ld)(REAL)cimagl(v)); }
static SCALAR W(sc)(ldc v) { SCALAR s; s.r = (REAL)creall(v); s.i = (REAL)cimagl(v); return s; }
#else
static ldc W(get)(const void *a, size_t i) { const SCALAR *p = a; return (ld)p[i]; }
static void W(set)(void *a, size_t i, ldc v) { SCALAR *p = a; p[i] = (SCALAR)creall(v); }
static ldc W(round)(ldc v) { return (ld)(REAL)creall(v); }
static SCALAR W(sc)(ldc v) { return (SCALAR)creall(v); }
#endif
static ld W(rget)(const void *a, size_t i) { const REAL *p = a; return (ld)p[i]; }
static void W(rset)(void *a, size_t i, ld v) { REAL *p = a; p[i] = (REAL)v; }
static ld W(mach)(char *c) { return (ld)RMACH(c); }

static void W(Create_CompCol)(SuperMatrix *A, int m, int n, int_t nnz, void *v, int_t *ri, int_t *cp, Stype_t s, Dtype_t d, Mtype_t t)
{ N(Create_CompCol_Matrix)(A, m, n, nnz, (SCALAR *)v, ri, cp, s, d, t); }
static void W(Create_CompRow)(SuperMatrix *A, int m, int n, int_t nnz, void *v, int_t *ci, int_t *rp, Stype_t s, Dtype_t d, Mtype_t t)
{ N(Create_CompRow_Matrix)(A, m, n, nnz, (SCALAR *)v, ci, rp, s, d, t); }
static void W(Create_Dense)(SuperMatrix *X, int m, int n, void *x, int ldx, Stype_t s, Dtype_t d, Mtype_t t)
{ N(Create_Dense_Matrix)(X, m, n, (SCALAR *)x, ldx, s, d, t); }
static void W(gssv)(superlu_options_t *o, SuperMatrix *A, int *pc, int *pr, SuperMatrix *L, SuperMatrix *U, SuperMatrix *B, SuperLUStat_t *st, int_t *info)
{ N(gssv)(o, A, pc, pr, L, U, B, st, info); }
static void W(gssvx)(superlu_options_t *o, SuperMatrix *A, int *pc, int *pr, int *et, char *eq, void *R, void *C,
                     SuperMatrix *L, SuperMatrix *U, void *work, int_t lwork, SuperMatrix *B, SuperMatrix *X,
                     void *rpg, void *rcond, void *ferr, void *berr, GlobalLU_t *G, mem_usage_t *mu, SuperLUStat_t *st, int_t *info)
{ N(gssvx)(o, A, pc, pr, et, eq, (REAL *)R, (REAL *)C, L, U, work, lwork, B, X, (REAL *)rpg, (REAL *)rcond, (REAL *)ferr, (REAL *)berr, G, mu, st, info); }
static void W(gsisx)(superlu_options_t *o, SuperMatrix *A, int *pc, int *pr, int *et, char *eq, void *R, void *C,
                     SuperMatrix *L, SuperMatrix *U, void *work, int_t lwork, SuperMatrix *B, SuperMatrix *X,
                     void *rpg, void *rcond, GlobalLU_t *G, mem_usage_t *mu, SuperLUStat_t *st, int_t *info)
{ N(gsisx)(o, A, pc, pr, et, eq, (REAL *)R, (REAL *)C, L, U, work, lwork, B, X, (REAL *)rpg, (REAL *)rcond, G, mu, st, info); }
static void W(gstrf)(superlu_options_t *o, SuperMatrix *A, int relax, int ps, int *et, void *work, int_t lwork, int *pc, int *pr,
                     SuperMatrix *L, SuperMatrix *U, GlobalLU_t *G, SuperLUStat_t *st, int_t *info)
{ N(gstrf)(o, A, relax, ps, et, work, lwork, pc, pr, L, U, G, st, info); }
static void W(gsitrf)(superlu_options_t *o, SuperMatrix *A, int relax, int ps, int *et, void *work, int_t lwork, int *pc, int *pr,
                     SuperMatrix *L, SuperMatrix *U, GlobalLU_t *G, SuperLUStat_t *st, int_t *info)
{ N(gsitrf)(o, A, relax, ps, et, work, lwork, pc, pr, L, U, G, st, info); }
static void W(gstrs)(trans_t t, SuperMatrix *L, SuperMatrix *U, const int *pc, const int *pr, SuperMatrix *B, SuperLUStat_t *st, int *info)
{ N(gstrs)(t, L, U, pc, pr, B, st, info); }
static void W(gsrfs)(trans_t t, SuperMatrix *A, SuperMatrix *L, SuperMatrix *U, int *pc, int *pr, char *eq, void *R, void *C,
                     SuperMatrix *B, SuperMatrix *X, void *ferr, void *berr, SuperLUStat_t *st, int *info)
{ N(gsrfs)(t, A, L, U, pc, pr, eq, (REAL *)R, (REAL *)C, B, X, (REAL *)ferr, (REAL *)berr, st, info); }
static void W(gscon)(char *norm, SuperMatrix *L, SuperMatrix *U, ld anorm, void *rcond, SuperLUStat_t *st, int *info)
{ N(gscon)(norm, L, U, (REAL)anorm, (REAL *)rcond, st, info); }
static void W(gsequ)(SuperMatrix *A, void *r, void *c, void *rowcnd, void *colcnd, void *amax, int *info)
{ N(gsequ)(A, (REAL *)r, (REAL *)c, (REAL *)rowcnd, (REAL *)colcnd, (REAL *)amax, info); }
static void W(laqgs)(SuperMatrix *A, void *r, void *c, ld rowcnd, ld colcnd, ld amax, char *eq)
{ N(laqgs)(A, (REAL *)r, (REAL *)c, (REAL)rowcnd, (REAL)colcnd, (REAL)amax, eq); }
static ld W(PivotGrowth)(int nc, SuperMatrix *A, int *pc, SuperMatrix *L, SuperMatrix *U)
{ return (ld)N(PivotGrowth)(nc, A, pc, L, U); }
static ld W(langs)(char *norm, SuperMatrix *A) { return (ld)N(langs)(norm, A); }
static int W(QuerySpace)(SuperMatrix *L, SuperMatrix *U, mem_usage_t *mu) { return N(QuerySpace)(L, U, mu); }
static int W(ilu_QuerySpace)(SuperMatrix *L, SuperMatrix *U, mem_usage_t *mu) { return ILN(QuerySpace)(L, U, mu); }
static int W(trsv)(char *uplo, char *trans, char *diag, SuperMatrix *L, SuperMatrix *U, void *x, SuperLUStat_t *st, int *info)
{ return SPN(trsv)(uplo, trans, diag, L, U, (SCALAR *)x, st, info); }
static int W(gemv)(char *trans, ldc alpha, SuperMatrix *A, void *x, int incx, ldc beta, void *y, int incy)
{ return SPN(gemv)(trans, W(sc)(alpha), A, (SCALAR *)x, incx, W(sc)(beta), (SCALAR *)y, incy); }
static int W(gemm)(char *ta, char *tb, int m, int n, int k, ldc alpha, SuperMatrix *A, void *b, int ldb, ldc beta, void *c, int ldc_)
{ return SPN(gemm)(ta, tb, m, n, k, W(sc)(alpha), A, (SCALAR *)b, ldb, W(sc)(beta), (SCALAR *)c, ldc_); }
static int W(ldperm)(int job, int n, int_t nnz, int_t *cp, int_t *adj, void *nzval, int *perm, void *u, void *v)
{ return N(ldperm)(job, n, nnz, cp, adj, (SCALAR *)nzval, perm, (REAL *)u, (REAL *)v); }
static void W(readhb)(FILE *fp, int *m, int *n, int_t *nz, void **v, int_t **ri, int_t **cp) { N(readhb)(fp, m, n, nz, (SCALAR **)v, ri, cp); }
static void W(readrb)(int *m, int *n, int_t *nz, void **v, int_t **ri, int_t **cp) { N(readrb)(m, n, nz, (SCALAR **)v, ri, cp); }
static void W(readMM)(FILE *fp, int *m, int *n, int_t *nz, void **v, int_t **ri, int_t **cp) { N(readMM)(fp, m, n, nz, (SCALAR **)v, ri, cp); }
static void W(readtriple)(int *m, int *n, int_t *nz, void **v, int_t **ri, int_t **cp) { N(readtriple)(m, n, nz, (SCALAR **)v, ri, cp); }
static void W(fortran_gssv)(int *iopt, int *n, int_t *nnz, int *nrhs, void *values, int_t *rowind, int_t *colptr, void *b, int *ldb, int64_t *f, int_t *info)
{ CAT3(c_fortran_, PL, gssv_)(iopt, n, nnz, nrhs, (SCALAR *)values, rowind, colptr, (SCALAR *)b, ldb, (long long int *)f, info); }
static void W(Copy_CompCol)(SuperMatrix *A, SuperMatrix *B) { N(Copy_CompCol_Matrix)(A, B); }
static void W(CompRow_to_CompCol)(int m, int n, int_t nnz, void *a, int_t *ci, int_t *rp, void **at, int_t **ri, int_t **cp)
{ N(CompRow_to_CompCol)(m, n, nnz, (SCALAR *)a, ci, rp, (SCALAR **)at, ri, cp); }
static void W(Copy_Dense)(int m, int n, void *x, int ldx, void *y, int ldy) { N(Copy_Dense_Matrix)(m, n, (SCALAR *)x, ldx, (SCALAR *)y, ldy); }
static void W(FillRHS)(trans_t t, int nrhs, void *x, int ldx, SuperMatrix *A, SuperMatrix *B) { N(FillRHS)(t, nrhs, (SCALAR *)x, ldx, A, B); }
static void W(GenXtrue)(int n, int nrhs, void *x, int ldx) { N(GenXtrue)(n, nrhs, (SCALAR *)x, ldx); }

static void W(fill)(vf_api *a, int precno, char letterch, ld epsv, ld tinyv, ld hugev)
{
    vf_api t = {
    precno, letterch, CPLX, sizeof(SCALAR), sizeof(REAL), epsv, tinyv, hugev, DT,
    W(get), W(set), W(rget), W(rset), W(round), W(mach),
    W(Create_CompCol), W(Create_CompRow), W(Create_Dense), W(gssv), W(gssvx), W(gsisx), W(gstrf), W(gsitrf), W(gstrs), W(gsrfs),
    W(gscon), W(gsequ), W(laqgs), W(PivotGrowth), W(langs), W(QuerySpace), W(ilu_QuerySpace), W(trsv), W(gemv), W(gemm), W(ldperm),
    W(readhb), W(readrb), W(readMM), W(readtriple), NULL, W(fortran_gssv), W(Copy_CompCol),
    W(CompRow_to_CompCol), W(Copy_Dense), W(FillRHS), W(GenXtrue) };
    *a = t;
}

#undef CAT_
#undef CAT
#undef CAT3_
#undef CAT3
