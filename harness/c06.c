/* C06 - refactor / re-solve histories are as good as a fresh factorization. */
#include "fact.h"

typedef struct { uint64_t L, pr, pc, et, R, C; char eq; } fhash;
static void take_hash(const xdrv *D, fhash *h)
{
    const vf_api *P = D->P; int n = D->n;
    h->L = hash_factors(P, &D->L, &D->U, NULL, NULL, n, n);
    h->pr = fnv64(FNV0, D->perm_r, sizeof(int) * (size_t)n); h->pc = fnv64(FNV0, D->perm_c, sizeof(int) * (size_t)n); h->et = fnv64(FNV0, D->etree, sizeof(int) * (size_t)n);
    h->R = fnv64(FNV0, D->R, P->rsz * (size_t)n); h->C = fnv64(FNV0, D->C, P->rsz * (size_t)n); h->eq = D->equed[0];
}
static void set_values(xdrv *D, const ldc *v, int_t nnz) { NCformat *s = D->A.Store; for (int_t k = 0; k < nnz; k++) D->P->set(s->nzval, (size_t)k, v[k]); }
static void set_rhs(xdrv *D, vf_rng *r, ldc *B0, int nrhs)
{
    const vf_api *P = D->P; DNformat *b = D->B.Store; int n = D->n;
    for (int j = 0; j < nrhs; j++) for (int i = 0; i < n; i++) { ldc v = P->round((2 * rng_unif(r) - 1) + (P->cplx ? (2 * rng_unif(r) - 1) * I : 0)); B0[(size_t)j * n + i] = v; P->set(b->nzval, (size_t)j * b->lda + i, v); }
    D->B.ncol = nrhs; D->X.ncol = nrhs; D->nrhs = nrhs;
}

static void c06_run(vf_case *c)
{
    const vf_api *P = c->P; vf_rng *r = &c->rng; char buf[400], why[400];
    gen_spec g; run_opts o;
    gen_spec_random(r, P, &g, 2, 40, 1);
    static const int pats[] = { PAT_RANDOM_DIAG, PAT_RANDOM_DIAG, PAT_BAND, PAT_ARROW, PAT_BLOCKTRI, PAT_GRID, PAT_DENSE, PAT_BLOCKDIAG };
    int fillflip = rng_bool(r, 0.12);     /* constructed: arrow pattern in natural order whose first values pivot on the diagonal (no fill) and whose
                                             later values make the dense last row win every pivot: the remembered pivots are abandoned and the refactorization
                                             must grow every array (in both memory models) */
    int exactcls = !fillflip && rng_bool(r, 0.3);      /* exact-arithmetic value classes: exact zeros can meet the remembered pivots */
    g.pattern = rng_pick(r, pats, 8); g.values = exactcls ? (rng_bool(r, 0.5) ? VAL_SMALLINT : VAL_POW2) : rng_bool(r, 0.5) ? VAL_UNIF : VAL_ROWSCALED; g.scale_exp = rng_int(r, 1, 3); g.explicit_zeros = 0;
    if (exactcls && g.n > 12) g.n = g.m = rng_int(r, 2, 12);
    if (fillflip) { g.pattern = PAT_DIAG; g.values = VAL_UNIF; g.n = g.m = rng_int(r, 12, 40); }
    vf_mat A; gen_matrix(r, P, &g, &A);
    if (fillflip) {   /* diag + dense last row + dense last column; values: diagonal 4, border 0.5 */
        int nn = A.n; vf_mat B; B.m = B.n = nn; B.nnz = 3 * (int_t)nn - 2; B.colptr = malloc(sizeof(int_t) * (size_t)(nn + 1)); B.rowind = malloc(sizeof(int_t) * (size_t)(B.nnz + 1)); B.v = malloc(sizeof(ldc) * (size_t)(B.nnz + 1)); int_t q = 0;
        for (int j = 0; j < nn; j++) { B.colptr[j] = q; if (j < nn - 1) { B.rowind[q] = j; B.v[q++] = P->round(4.0L + 0.01L * j); B.rowind[q] = nn - 1; B.v[q++] = P->round(0.5L + 0.003L * j); } else for (int i = 0; i < nn; i++) { B.rowind[q] = i; B.v[q++] = P->round(i == nn - 1 ? 5.0L : 0.25L + 0.002L * i); } }
        B.colptr[nn] = q; mat_free(&A); A = B; }
    gen_run_opts(r, &o, 1);
    gen_tuning(r, 1);
    if (fillflip) { o.opt.ColPerm = NATURAL; o.opt.SymmetricMode = NO; o.opt.DiagPivotThresh = 1.0; o.rowmajor = 0; vf_ienv_set(6, rng_int(r, 1, 2)); vf_ienv_set(3, rng_int(r, 1, 3)); vf_ienv_set(2, 1); }
    int n = A.n, maxrhs = 3; int_t nnz = A.nnz;
    int len = rng_int(r, 2, c->tier ? 12 : 7);
    gen_spec_str(&g, buf, sizeof buf); vf_desc(c, "%s; ", buf); run_opts_str(&o, buf, sizeof buf); vf_desc(c, "%s; ", buf); tuning_str(buf, sizeof buf); vf_desc(c, "%s; history:", buf);
    /* storage-order values of the library object (CSR order for row storage) */
    xdrv D; xdrv_init(&D, P, &A, o.rowmajor, maxrhs, o.ldpad, 0, NULL, 0);
    ldc *V0 = malloc(sizeof(ldc) * (size_t)(nnz + 1)), *V = malloc(sizeof(ldc) * (size_t)(nnz + 1)), *B0 = malloc(sizeof(ldc) * (size_t)n * maxrhs);
    { const NCformat *s = D.A.Store; for (int_t k = 0; k < nnz; k++) V0[k] = P->get(s->nzval, (size_t)k); }
    vf_snap idx0; snap_sparse(P, &D.A, &idx0, NULL);
    int use_ws = rng_bool(r, 0.35); void *work = NULL;
    if (use_ws) { D.lwork = (int_t)generous_lwork(P, n, nnz); work = vf_ws_alloc(c, (size_t)D.lwork); D.work = work; }
    superlu_options_t xo = o.opt; xo.PrintStat = NO; xo.Equil = rng_bool(r, 0.7) ? YES : NO;
    if (xo.ColPerm == MY_PERMC) rng_perm(r, D.perm_c, n);
    vf_tag(c, "prec=%c", P->letter); vf_tag(c, "%s", o.rowmajor ? "NR" : "NC"); vf_tag(c, "mem=%s", use_ws ? "workspace" : "malloc"); vf_tag(c, "equil=%d", xo.Equil == YES); if (fillflip) { vf_tag(c, "constructed=fillflip"); xo.Equil = NO; } vf_tag(c, "u=%g", xo.DiagPivotThresh); if (exactcls) { vf_tag(c, "exact-values"); xo.Equil = NO; }
    vf_sig_u64(c, mat_pattern_hash(&A)); vf_sig_u64(c, (uint64_t)o.rowmajor * 2 + (uint64_t)use_ws);
    int factored_ok = 0, ever_factored = 0, steps_judged = 0; ld cf = P->cplx ? 16 : 8;
    for (int step = 0; step < len && c->verdict != 1; step++) {
        int op;   /* 0 DOFACT 1 SamePattern 2 SameRowPerm 3 FACTORED */
        if (!ever_factored) op = 0;
        else { int tries = 0; do { op = rng_int(r, 0, 3); if (rng_bool(r, 0.3)) op = 2; tries++; } while (((op == 2 || op == 3) && !factored_ok) && tries < 50); if ((op == 2 || op == 3) && !factored_ok) op = 1; }
        static const char *opn[] = { "DOFACT", "SamePattern", "SameRowPerm", "FACTORED" };
        int nrhs = rng_int(r, op == 3 ? 1 : 0, maxrhs);
        xo.Trans = (trans_t)rng_int(r, 0, 2);
        xo.IterRefine = rng_bool(r, 0.6) ? NOREFINE : (IterRefine_t)rng_int(r, 1, 3);
        fhash h0;
        if (op != 3) {
            /* new values for this step */
            int vm = step == 0 ? 1 : rng_int(r, 0, exactcls ? 6 : 4);
            if (fillflip && step > 0) vm = 7;
            for (int_t k = 0; k < nnz; k++) {
                ldc base = step == 0 ? V0[k] : V[k], nv;
                switch (vm) {
                case 0: nv = base * (1 + 1e-3L * (ld)(2 * rng_unif(r) - 1)); break;                       /* tiny perturbation */
                case 1: nv = base; break;                                                                   /* same values */
                case 7: { const NCformat *s_ = D.A.Store; int rr_ = (int)s_->rowind[k]; nv = V0[k]; if (rr_ == n - 1) nv = V0[k] * 64.0L; } break;   /* last row dominates every column */
                case 2: nv = (2 * rng_unif(r) - 1) + (P->cplx ? (2 * rng_unif(r) - 1) * I : 0); if (cabsl(nv) < 1e-3L) nv = 0.5L; break;   /* unrelated values */
                case 3: nv = base * 1024.0L; break;                                                         /* global rescaling */
                case 4: { const NCformat *s = D.A.Store; nv = base * ldexpl(1.0L, (int)(s->rowind[k] % 7) - 3); } break;   /* per-line rescaling */
                case 5: do { nv = (ld)rng_int(r, -2, 2) + (P->cplx ? (ld)rng_int(r, -1, 1) * I : 0); } while (nv == 0); break;              /* small integers: exact cancellations */
                default: nv = ldexpl(rng_bool(r, 0.5) ? 1.0L : -1.0L, rng_int(r, -1, 1)); break;                                         /* +-2^k */
                }
                V[k] = P->round(nv);
            }
            vf_desc(c, " %s(v%d,nrhs=%d,t=%d)", opn[op], vm, nrhs, (int)xo.Trans); vf_tag(c, "op=%s", opn[op]); vf_tag(c, "values=%d", vm);
            if (op == 0 || op == 1) { xdrv_free_factors(&D); }        /* documented: the caller releases the old L and U */
            set_values(&D, V, nnz); set_rhs(&D, r, B0, nrhs);
            xo.Fact = op == 0 ? DOFACT : op == 1 ? SamePattern : SamePattern_SameRowPerm;
            int *pr_in = NULL; if (op == 2) { pr_in = malloc(sizeof(int) * (size_t)n); memcpy(pr_in, D.perm_r, sizeof(int) * (size_t)n); }
            int *pc_in = malloc(sizeof(int) * (size_t)n), *et_in = malloc(sizeof(int) * (size_t)n); memcpy(pc_in, D.perm_c, sizeof(int) * (size_t)n); memcpy(et_in, D.etree, sizeof(int) * (size_t)n);
            xdrv_call(&D, &xo); ever_factored = 1;
            int_t info = D.info;
            if (op != 0 && (memcmp(pc_in, D.perm_c, sizeof(int) * (size_t)n) || memcmp(et_in, D.etree, sizeof(int) * (size_t)n)))
                vf_viol(c, "reuse-changed-perm_c-or-etree", "step %d %s: perm_c/etree were modified although they are inputs for this Fact", step, opn[op]);
            if (op == 2 && (info == 0 || info == n + 1)) { if (memcmp(pr_in, D.perm_r, sizeof(int) * (size_t)n)) { vf_tag(c, "rowperm-abandoned"); c->counters[1]++; } else c->counters[2]++;
                if (D.stat.expansions > 0) { vf_tag(c, use_ws ? "reuse-expansion=workspace" : "reuse-expansion=malloc"); c->counters[5]++; } }
            free(pc_in); free(et_in);
            factored_ok = (info == 0 || info == n + 1);
            if (info < 0 || (info > n + 1 && !use_ws)) vf_viol(c, "info-unexpected", "step %d %s: info=%lld", step, opn[op], (long long)info);
            if (!factored_ok) {
                vf_tag(c, info <= n ? "step-singular" : "step-nomem");
                if (info > 0 && info <= n) { vf_mat F; xdrv_factored_matrix(&D, &F); char rt[40]; snprintf(rt, sizeof rt, "step %d %s", step, opn[op]); judge_singular(c, P, &F, D.perm_r, D.perm_c, &D.L, &D.U, info, rt); mat_free(&F); }
                if (info > 0 && info <= n && op != 0) {   /* fresh twin: a refactorization must not fail where a fresh one succeeds */
                    vf_mat T; T = A; xdrv D2; ldc *tv = malloc(sizeof(ldc) * (size_t)(nnz + 1));
                    xdrv_init(&D2, P, &A, o.rowmajor, 0, 0, 0, NULL, 0); set_values(&D2, V, nnz); (void)T; (void)tv;
                    superlu_options_t fo = xo; fo.Fact = DOFACT; if (fo.ColPerm == MY_PERMC) fo.ColPerm = COLAMD;
                    xdrv_call(&D2, &fo);
                    if (D2.info == 0) vf_tag(c, "twin-fresh-ok-refactor-singular");   /* legitimate: a different ordering/pivoting may avoid an exact zero; recorded only */
                    xdrv_free(&D2); free(tv);
                }
                if (info > n + 1) { D.have_LU = 0; }
                free(pr_in); continue;
            }
            /* per-step oracles on this step's matrix */
            if (xdrv_check_A_scaling(&D, &idx0, V, why, sizeof why)) { vf_viol(c, "step-A-scaling", "step %d %s: %s", step, opn[op], why); free(pr_in); break; }
            if (!is_perm(D.perm_r, n) || !is_perm(D.perm_c, n)) { vf_viol(c, "step-perm", "step %d %s: permutation not a bijection", step, opn[op]); free(pr_in); break; }
            if (structure_ok(P, &D.L, &D.U, n, n, 0, why, sizeof why)) { vf_viol(c, "step-structure", "step %d %s: %s", step, opn[op], why); free(pr_in); break; }
            {   vf_mat F; xdrv_factored_matrix(&D, &F); ldc *Ld = malloc(sizeof(ldc) * (size_t)n * n), *Ud = malloc(sizeof(ldc) * (size_t)n * n);
                expand_LU(P, &D.L, &D.U, n, n, Ld, Ud);
                ld q = factor_identity_ratio(P, &F, D.perm_r, D.perm_c, Ld, Ud, n, cf);
                if (!(q <= 1.0L)) vf_viol(c, "step-factor-identity", "step %d %s: |Pr*A*Pc - L*U| exceeds the bound by %.3Lg", step, opn[op], q);
                if (check_udiag(P, Ud, n, why, sizeof why)) vf_viol(c, "step-U-diagonal", "step %d %s: %s", step, opn[op], why);
                ld wl; if (check_multipliers(P, Ld, n, n, xo.DiagPivotThresh, why, sizeof why, &wl)) vf_viol(c, "step-multiplier-bound", "step %d %s: %s", step, opn[op], why);
                { int dec = 0, und = 0;      /* pivot policy: the diagonal is taken whenever it passes the threshold test, except where a remembered pivot row was kept */
                  if (check_diag_preference_reuse(P, D.perm_r, D.perm_c, Ld, Ud, &D.L, n, n, xo.DiagPivotThresh, pr_in, &dec, &und, why, sizeof why))
                      vf_viol(c, op == 2 ? "step-diagonal-not-preferred-after-abandoned-reuse" : "step-diagonal-not-preferred", "step %d %s: %s", step, opn[op], why);
                  c->counters[6] += dec; }
                long pm = (long)(q * 1000); if (pm > c->counters[3]) c->counters[3] = pm;
                free(Ld); free(Ud); mat_free(&F); }
            free(pr_in);
        } else {
            vf_desc(c, " FACTORED(nrhs=%d,t=%d)", nrhs, (int)xo.Trans); vf_tag(c, "op=FACTORED");
            set_rhs(&D, r, B0, nrhs); xo.Fact = FACTORED; take_hash(&D, &h0);
            vf_snap av0; snap_sparse(P, &D.A, NULL, &av0);
            xdrv_call(&D, &xo);
            fhash h1; take_hash(&D, &h1); vf_snap av1; snap_sparse(P, &D.A, NULL, &av1);
            if (h0.L != h1.L) vf_viol(c, "resolve-changed-factors", "step %d FACTORED: bytes of L/U changed", step);
            if (h0.pr != h1.pr || h0.pc != h1.pc || h0.et != h1.et) vf_viol(c, "resolve-changed-perms", "step %d FACTORED: perm_r/perm_c/etree changed", step);
            if (h0.R != h1.R || h0.C != h1.C || h0.eq != h1.eq) vf_viol(c, "resolve-changed-scalings", "step %d FACTORED: R/C/equed changed", step);
            if (!snap_same(&av0, &av1)) vf_viol(c, "resolve-changed-A", "step %d FACTORED: the matrix values changed", step);
            snap_free(&av0); snap_free(&av1);
            if (!(D.info == 0 || D.info == n + 1)) { vf_viol(c, "resolve-info", "step %d FACTORED: info=%lld", step, (long long)D.info); break; }
        }
        /* B mutation + solution of this step */
        if (D.nrhs > 0) {
            if (xdrv_check_B_scaling(&D, xo.Trans, B0, why, sizeof why)) vf_viol(c, "step-B-scaling", "step %d: %s", step, why);
            int judge = 1;
            if (xo.IterRefine != NOREFINE) { vf_mat F; xdrv_factored_matrix(&D, &F); ld cond = dense_cond1(&F, NULL, NULL, NULL, NULL); mat_free(&F); ld sg = xdrv_skeel_sigma(&D, xo.Trans); ld eta = xdrv_solver_cond(&D); if (eta > cond) cond = eta; if (!(n * P->eps * cond * sg < 1e-2L) || D.info == n + 1) judge = 0; }
            if (judge) { int nf; ld q = xdrv_scaled_residual(&D, xo.Trans, cf, &nf);
                if (nf) vf_viol(c, "step-X-nonfinite", "step %d: non-finite X", step);
                else if (!(q <= 1.0L)) vf_viol(c, "step-residual", "step %d (%s): residual exceeds the factor-derived bound by %.3Lg (trans=%d equed=%c)", step, opn[op], q, (int)xo.Trans, D.equed[0]);
                long pm = (long)(q * 1000); if (pm > c->counters[4]) c->counters[4] = pm; steps_judged++; }
        }
        c->counters[0]++;
    }
    c->nontrivial = steps_judged >= 2; vf_sig_u64(c, (uint64_t)steps_judged); vf_tag(c, "len=%d", len);
    D.B.ncol = maxrhs; D.X.ncol = maxrhs;
    snap_free(&idx0); free(V0); free(V); free(B0);
    xdrv_free(&D); free(work); mat_free(&A);
    vf_check_ledger(c, "after history");
}
VF_REGISTER("C06", c06_run)
