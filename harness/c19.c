/* C19 - no memory error or leak over documented API lifecycles (computational-routine level).
 * One case = one lifecycle program: create -> order -> factor -> (solve | refine | cond | growth | query | trsv | copy)* -> destroy,
 * with forced exit paths (singular input, too-small workspace, injected growth failure, size query).
 * The program is executed twice under different junk-fill patterns of fresh library allocations; all numeric outputs
 * must be bit-identical (dependence on uninitialised memory), the allocation ledger must be empty at the end of each
 * execution, and every free must hit a live block.  ASan/UBSan (variant asan), MemorySanitizer (variant msan) and
 * valgrind memcheck (variant plain) watch the same program. */
#include "fact.h"

typedef struct { uint64_t h; int_t info; int nops; int forced; } prog_result;

static uint64_t hash_dense(const vf_api *P, const SuperMatrix *D, uint64_t h)
{ const DNformat *s = D->Store; for (int j = 0; j < D->ncol; j++) h = fnv64(h, (const char *)s->nzval + P->ssz * (size_t)j * s->lda, P->ssz * (size_t)D->nrow); return h; }

static void run_program(vf_case *c, const vf_api *P, const vf_mat *A, uint64_t pseed, int junk, prog_result *out, int verbose_tags)
{
    vf_rng rr; rng_seed(&rr, pseed, 77, 1); vf_rng *r = &rr;
    memset(out, 0, sizeof *out); out->h = FNV0;
    int n = A->n; vf_set_junk(junk);
    superlu_options_t opt; set_default_options(&opt);
    static const int cps[] = { NATURAL, MMD_ATA, MMD_AT_PLUS_A, COLAMD, MY_PERMC };
    opt.ColPerm = (colperm_t)rng_pick(r, cps, 5); opt.DiagPivotThresh = rng_bool(r, 0.5) ? 1.0 : 0.1; opt.SymmetricMode = rng_bool(r, 0.2) ? YES : NO; opt.PrintStat = NO;
    int *mypc = malloc(sizeof(int) * (size_t)(n + 1)); rng_perm(r, mypc, n);
    int forced = rng_int(r, 0, 9);     /* 0 workspace too small, 1 growth failure, 2 size query, 3 generous workspace, else library allocation */
    void *work = NULL; int_t lwork = 0;
    if (forced == 0) { lwork = (int_t)(64 + rng_int(r, 0, 40) * 24); work = vf_ws_alloc(c, (size_t)lwork + 16); }
    if (forced == 3) { lwork = (int_t)generous_lwork(P, n, A->nnz); work = vf_ws_alloc(c, (size_t)lwork + 16); }
    if (forced == 2) lwork = -1;
    if (forced == 1) vf_fault_arm("expand", rng_int(r, 1, 6));
    if (forced == 6) vf_fault_arm("LUWorkInit", 1);      /* library allocation: the request for the numerical work array fails (documented out-of-memory return, info > n) */
    /* growable arrays started at small capacities (guarded hook): growth sites reached at the exactly-full state, in place when in a workspace */
    int capstart = (forced == 4 || forced == 5 || (forced == 3 && rng_bool(r, 0.5)));
    if (capstart) { long hi = 2 + 2 * (long)A->nnz; vf_cap_set(rng_bool(r, 0.7) ? rng_int(r, 1, (int)hi) : 0, rng_bool(r, 0.7) ? rng_int(r, 1, (int)hi) : 0, rng_bool(r, 0.7) ? rng_int(r, 1, (int)hi) : 0); }
    out->forced = forced;
    fact_run R; fact_do(P, A, &opt, mypc, work, lwork, 0, &R);
    int fired = forced == 6 && vf_fault_fired();
    vf_fault_arm(NULL, 0); vf_cap_set(0, 0, 0);
    if (fired && !(R.info > n)) vf_viol(c, "work-allocation-failure-not-reported", "the allocation of the numerical work array failed inside ?LUWorkInit but ?gstrf returned info=%lld (documented: info > n = %d)", (long long)R.info, n);
    if (verbose_tags && fired) vf_tag(c, "work-allocation-failed");
    if (verbose_tags && capstart) vf_tag(c, "capacity-start");
    out->info = R.info; out->h = fnv64(out->h, &R.info, sizeof R.info);
    if (verbose_tags) { vf_tag(c, "exit=%s", R.info == 0 ? "ok" : R.info < 0 ? "neg" : R.info <= n ? "singular" : forced == 2 ? "query" : "nomem"); vf_tag(c, "forced=%d", forced); }
    if (R.info == 0 && R.have_LU) {
        out->h ^= hash_factors(P, &R.L, &R.U, R.perm_r, R.perm_c, n, n);
        int nops = rng_int(r, 0, 6); out->nops = nops;
        for (int k = 0; k < nops; k++) {
            int op = rng_int(r, 0, 9);
            if (verbose_tags) vf_tag(c, "op=%d", op);
            switch (op) {
            case 0: case 1: {   /* ?gstrs */
                int nrhs = rng_int(r, 0, 3), ldb = n + rng_int(r, 0, 2); ldc *B0 = malloc(sizeof(ldc) * (size_t)n * (nrhs + 1));
                for (int q = 0; q < n * nrhs; q++) B0[q] = P->round(2 * rng_unif(r) - 1 + (P->cplx ? (2 * rng_unif(r) - 1) * I : 0));
                SuperMatrix B; mk_dense(P, n, nrhs, ldb, B0, &B, 3.0L); int info; trans_t t = (trans_t)rng_int(r, 0, 2);
                P->gstrs(t, &R.L, &R.U, R.perm_c, R.perm_r, &B, &R.stat, &info);
                out->h = hash_dense(P, &B, out->h); out->h = fnv64(out->h, &info, sizeof info); free_dense(&B); free(B0); } break;
            case 2: {           /* ?gscon */
                char norm[2] = { rng_bool(r, 0.5) ? '1' : 'I', 0 }; if (rng_bool(r, 0.2)) norm[0] = 'O';
                ld anorm = P->langs(norm, &R.A); void *rc = malloc(P->rsz); int info;
                P->gscon(norm, &R.L, &R.U, anorm, rc, &R.stat, &info);
                out->h = fnv64(out->h, rc, P->rsz); out->h = fnv64(out->h, &info, sizeof info); free(rc); } break;
            case 3: {           /* ?gsrfs after a ?gstrs solve */
                int nrhs = rng_int(r, 1, 2); ldc *B0 = malloc(sizeof(ldc) * (size_t)n * nrhs);
                for (int q = 0; q < n * nrhs; q++) B0[q] = P->round(2 * rng_unif(r) - 1 + (P->cplx ? (2 * rng_unif(r) - 1) * I : 0));
                SuperMatrix B, X; mk_dense(P, n, nrhs, n, B0, &B, 0); mk_dense(P, n, nrhs, n, B0, &X, 0); int info; trans_t t = (trans_t)rng_int(r, 0, 2);
                P->gstrs(t, &R.L, &R.U, R.perm_c, R.perm_r, &X, &R.stat, &info);
                void *ferr = malloc(P->rsz * (size_t)nrhs), *berr = malloc(P->rsz * (size_t)nrhs), *Rr = malloc(P->rsz * (size_t)n), *Cc = malloc(P->rsz * (size_t)n);
                for (int q = 0; q < n; q++) { P->rset(Rr, (size_t)q, 1); P->rset(Cc, (size_t)q, 1); }
                char equed[2] = "N";
                P->gsrfs(t, &R.A, &R.L, &R.U, R.perm_c, R.perm_r, equed, Rr, Cc, &B, &X, ferr, berr, &R.stat, &info);
                out->h = hash_dense(P, &X, out->h); out->h = fnv64(out->h, berr, P->rsz * (size_t)nrhs); out->h = fnv64(out->h, ferr, P->rsz * (size_t)nrhs);
                free(ferr); free(berr); free(Rr); free(Cc); free_dense(&B); free_dense(&X); free(B0); } break;
            case 4: { ld g = P->PivotGrowth(n, &R.A, R.perm_c, &R.L, &R.U); double gd = (double)g; out->h = fnv64(out->h, &gd, sizeof gd); } break;
            case 5: { mem_usage_t mu; P->QuerySpace(&R.L, &R.U, &mu); out->h = fnv64(out->h, &mu.for_lu, sizeof mu.for_lu); out->h = fnv64(out->h, &mu.total_needed, sizeof mu.total_needed); } break;
            case 6: {           /* sp_?trsv on the factors */
                void *x = malloc(P->ssz * (size_t)(n + 1)); for (int q = 0; q < n; q++) P->set(x, (size_t)q, P->round(2 * rng_unif(r) - 1)); int info;
                const char *ul = rng_bool(r, 0.5) ? "L" : "U"; const char *tr = (const char *[]){ "N", "T", "C" }[rng_int(r, 0, 2)];
                P->trsv((char *)ul, (char *)tr, (char *)(ul[0] == 'L' ? "U" : "N"), &R.L, &R.U, x, &R.stat, &info);
                out->h = fnv64(out->h, x, P->ssz * (size_t)n); free(x); } break;
            case 8: {           /* utility layer: row storage -> column storage (?CompRow_to_CompCol); the result must be the matrix, bit for bit */
                SuperMatrix Ar; mk_sparse(P, A, 1, &Ar); const NRformat *rs = Ar.Store;
                void *at = NULL; int_t *ri = NULL, *cp = NULL;
                P->CompRow_to_CompCol(n, n, rs->nnz, rs->nzval, rs->colind, rs->rowptr, &at, &ri, &cp);
                int bad = (at == NULL || ri == NULL || cp == NULL);
                if (!bad) {   /* reference: stable counting sort by column of the row-major triples */
                    int_t nz = rs->nnz, *rcp = calloc((size_t)n + 2, sizeof(int_t)), *nxt = calloc((size_t)n + 1, sizeof(int_t));
                    for (int_t q = 0; q < nz; q++) rcp[rs->colind[q] + 1]++;
                    for (int j = 0; j < n; j++) { rcp[j + 1] += rcp[j]; nxt[j] = rcp[j]; }
                    for (int j = 0; j <= n && !bad; j++) bad = cp[j] != rcp[j];
                    for (int i = 0; i < n && !bad; i++) for (int_t q = rs->rowptr[i]; q < rs->rowptr[i + 1] && !bad; q++) {
                        int_t pos = nxt[rs->colind[q]]++;
                        bad = ri[pos] != i || memcmp((char *)at + P->ssz * (size_t)pos, (char *)rs->nzval + P->ssz * (size_t)q, P->ssz) != 0; }
                    free(rcp); free(nxt); }
                if (bad) vf_viol(c, "util-rowcol-conversion", "?CompRow_to_CompCol did not return the matrix it was given (n=%d nnz=%lld)", n, (long long)A->nnz);
                if (at) out->h = fnv64(out->h, at, P->ssz * (size_t)A->nnz);
                if (at) SUPERLU_FREE(at); if (ri) SUPERLU_FREE(ri); if (cp) SUPERLU_FREE(cp); free_sparse(&Ar); } break;
            case 9: {           /* utility layer: ?GenXtrue, ?FillRHS (B = op(A) X), ?Copy_Dense_Matrix with paddings */
                int nrhs = rng_int(r, 1, 3), ldx = n + rng_int(r, 0, 2), ldb = n + rng_int(r, 0, 2), ldy = n + rng_int(r, 0, 3);
                SuperMatrix B; mk_dense(P, n, nrhs, ldb, NULL, &B, 5.0L); SuperMatrix Xd; mk_dense(P, n, nrhs, ldx, NULL, &Xd, 7.0L); SuperMatrix Y; mk_dense(P, n, nrhs, ldy, NULL, &Y, 9.0L);
                void *xv = ((DNformat *)Xd.Store)->nzval, *yv = ((DNformat *)Y.Store)->nzval, *bv = ((DNformat *)B.Store)->nzval;
                P->GenXtrue(n, nrhs, xv, ldx);
                trans_t t = rng_bool(r, 0.5) ? NOTRANS : TRANS;
                P->FillRHS(t, nrhs, xv, ldx, &R.A, &B);
                P->Copy_Dense(n, nrhs, bv, ldb, yv, ldy);
                int bad = 0; for (int j = 0; j < nrhs && !bad; j++) bad = memcmp((char *)bv + P->ssz * (size_t)j * ldb, (char *)yv + P->ssz * (size_t)j * ldy, P->ssz * (size_t)n) != 0;
                if (bad) vf_viol(c, "util-copy-dense", "?Copy_Dense_Matrix: the copy differs from the source (n=%d nrhs=%d ldb=%d ldy=%d)", n, nrhs, ldb, ldy);
                if (!dense_padding_intact(P, &B, 5.0L) || !dense_padding_intact(P, &Xd, 7.0L) || !dense_padding_intact(P, &Y, 9.0L))
                    vf_viol(c, "util-padding-written", "?GenXtrue / ?FillRHS / ?Copy_Dense_Matrix wrote between the columns of a padded array (n=%d nrhs=%d ldx=%d ldb=%d ldy=%d)", n, nrhs, ldx, ldb, ldy);
                out->h = hash_dense(P, &Y, out->h); free_dense(&B); free_dense(&Xd); free_dense(&Y); } break;
            default: {          /* copy the matrix and destroy the copy */
                SuperMatrix Bc; memset(&Bc, 0, sizeof Bc);
                NCformat *as = R.A.Store; int_t nnz = as->nnz;
                void *v = SUPERLU_MALLOC(P->ssz * (size_t)(nnz + 1)); int_t *ri = SUPERLU_MALLOC(sizeof(int_t) * (size_t)(nnz + 1)), *cp = SUPERLU_MALLOC(sizeof(int_t) * (size_t)(n + 2));
                P->Create_CompCol(&Bc, n, n, nnz, v, ri, cp, SLU_NC, P->dtype, SLU_GE);
                P->Copy_CompCol(&R.A, &Bc);
                const NCformat *bs = Bc.Store; out->h = fnv64(out->h, bs->nzval, P->ssz * (size_t)nnz); out->h = fnv64(out->h, bs->rowind, sizeof(int_t) * (size_t)nnz);
                Destroy_CompCol_Matrix(&Bc); } break;
            }
        }
    }
    fact_free(&R); free(work); free(mypc);
}


/* expert-driver lifecycle: create -> ?gssvx | ?gsisx (equilibrate, order, factor, solve, refine, estimate) with a forced exit
   (too-small workspace of a random length, injected growth failure, size query, generous workspace, library allocation)
   -> optional re-solve with the kept factors -> destroy */
static void run_driver_program(vf_case *c, const vf_api *P, const vf_mat *A, uint64_t pseed, int junk, int ilu, prog_result *out, int verbose_tags)
{
    vf_rng rr; rng_seed(&rr, pseed, 78, 1); vf_rng *r = &rr;
    memset(out, 0, sizeof *out); out->h = FNV0;
    int n = A->n; vf_set_junk(junk);
    superlu_options_t opt;
    static const int cps[] = { NATURAL, MMD_ATA, MMD_AT_PLUS_A, COLAMD };
    if (ilu) { gen_ilu_options(r, &opt); if (opt.ColPerm == MY_PERMC) opt.ColPerm = COLAMD; }
    else { set_default_options(&opt); opt.ColPerm = (colperm_t)rng_pick(r, cps, 4); opt.DiagPivotThresh = rng_bool(r, 0.5) ? 1.0 : 0.1;
           opt.IterRefine = rng_bool(r, 0.5) ? NOREFINE : SLU_DOUBLE; opt.PivotGrowth = rng_bool(r, 0.5) ? YES : NO; opt.ConditionNumber = rng_bool(r, 0.5) ? YES : NO; }
    opt.Equil = rng_bool(r, 0.6) ? YES : NO; opt.Trans = (trans_t)rng_int(r, 0, 2); opt.PrintStat = NO;
    int rowmajor = rng_bool(r, 0.3), nrhs = rng_int(r, 0, 2);
    ldc *B0 = malloc(sizeof(ldc) * (size_t)n * (nrhs + 1)); for (int q = 0; q < n * nrhs; q++) B0[q] = P->round(2 * rng_unif(r) - 1 + (P->cplx ? (2 * rng_unif(r) - 1) * I : 0));
    xdrv D; xdrv_init(&D, P, A, rowmajor, nrhs, rng_int(r, 0, 2), rng_int(r, 0, 2), B0, ilu);
    int forced = rng_int(r, 0, 9);     /* 0-2 workspace too small, 3 growth failure, 4 size query, 5 generous workspace, else library allocation */
    void *work = NULL; size_t G = generous_lwork(P, n, A->nnz);
    if (forced <= 2) { size_t L = forced == 0 ? (size_t)(4 * rng_int(r, 1, 400)) : forced == 1 ? (size_t)(G * (0.002 + 0.05 * rng_unif(r) * rng_unif(r))) : (size_t)(64 + 8 * (size_t)n * (size_t)rng_int(r, 1, 40));
        L &= ~(size_t)3; if (L < 4) L = 4; work = vf_ws_alloc(c, L + 16); D.work = (char *)work + (rng_bool(r, 0.5) ? 4 : 8); D.lwork = (int_t)L - 8 > 0 ? (int_t)L - 8 : 4; }
    if (forced == 5) { work = vf_ws_alloc(c, G + 16); D.work = (char *)work + 8; D.lwork = (int_t)G; }
    if (forced == 4) D.lwork = -1;
    if (forced == 3) vf_fault_arm("expand", rng_int(r, 1, 6));
    int capstart = (forced == 6 || forced == 7 || (forced == 5 && rng_bool(r, 0.5)));
    if (capstart) { long hi = 2 + 2 * (long)A->nnz; vf_cap_set(rng_bool(r, 0.7) ? rng_int(r, 1, (int)hi) : 0, rng_bool(r, 0.7) ? rng_int(r, 1, (int)hi) : 0, rng_bool(r, 0.7) ? rng_int(r, 1, (int)hi) : 0); }
    out->forced = forced;
    xdrv_call(&D, &opt);
    vf_fault_arm(NULL, 0); vf_cap_set(0, 0, 0);
    if (verbose_tags && capstart) vf_tag(c, "drv-capacity-start");
    out->info = D.info; out->h = fnv64(out->h, &D.info, sizeof D.info);
    if (verbose_tags) { vf_tag(c, "drv=%s", ilu ? "gsisx" : "gssvx"); vf_tag(c, "drv-forced=%d", forced);
        vf_tag(c, "drv-exit=%s", forced == 4 ? "query" : D.info == 0 ? "ok" : D.info < 0 ? "neg" : D.info <= n ? "singular" : D.info == n + 1 ? "illcond" : "nomem"); }
    if (forced != 4 && (D.info == 0 || D.info == n + 1)) {
        if (nrhs) out->h = hash_dense(P, &D.X, out->h);
        out->h ^= hash_factors(P, &D.L, &D.U, D.perm_r, D.perm_c, n, n);
        if (rng_bool(r, 0.5) && nrhs) {       /* re-solve with the factors that were kept */
            superlu_options_t o2 = opt; o2.Fact = FACTORED; o2.Trans = (trans_t)rng_int(r, 0, 2);
            DNformat *bs = D.B.Store; for (int j = 0; j < nrhs; j++) for (int i = 0; i < n; i++) P->set(bs->nzval, (size_t)j * bs->lda + i, B0[(size_t)j * n + i]);
            xdrv_call(&D, &o2); out->h = fnv64(out->h, &D.info, sizeof D.info);
            if (D.info == 0 || D.info == n + 1) out->h = hash_dense(P, &D.X, out->h);
            out->nops++;
        }
        out->nops++;
    }
    xdrv_free(&D); free(work); free(B0);
}

static void c19_run(vf_case *c)
{
    const vf_api *P = c->P; vf_rng *r = &c->rng; char buf[300];
    gen_spec g; gen_spec_random(r, P, &g, 1, c->tier ? 40 : 28, 1);
    if (g.pattern == PAT_RANDOM && rng_bool(r, 0.6)) g.pattern = PAT_RANDOM_DIAG;
    vf_mat A; gen_matrix(r, P, &g, &A);
    gen_tuning(r, rng_bool(r, 0.85));
    uint64_t pseed = rng_u64(r);
    gen_spec_str(&g, buf, sizeof buf); vf_desc(c, "lifecycle on %s; ", buf); tuning_str(buf, sizeof buf); vf_desc(c, "%s program-seed=%llx", buf, (unsigned long long)pseed);
    vf_tag(c, "prec=%c", P->letter);
    if (sprank(&A) < A.n) { vf_note(c, "structsing"); vf_tag(c, "structsing"); }
    prog_result r1, r2;
    /* a share of the lifecycles goes through the expert drivers (their own exit paths: out of space after equilibration /
       row permutation, size query, singular return); incomplete factorization only on structurally nonsingular input (F14) */
    vf_rng kr; rng_seed(&kr, pseed, 79, 1); int drv = rng_bool(&kr, 0.3), drv_ilu = drv && rng_bool(&kr, 0.45) && sprank(&A) == A.n;
    if (drv_ilu) vf_note(c, "ilu");
    /* second execution: pseudo-random bytes, or "stale mark" fills (every 32-/64-bit word a small integer, as left by an earlier call's marks) */
    int junk2 = 256; { int jm = rng_int(&kr, 0, 9), jv = rng_int(&kr, 0, 6); if (jm == 0 || jm == 1) junk2 = 300 + jv; else if (jm == 2 || jm == 3) junk2 = 400 + jv; }
    vf_tag(c, "junk2=%s", junk2 == 256 ? "random" : junk2 >= 400 ? "marks64" : "marks32");
    uint64_t mark = vf_ledger_mark();
    if (drv) run_driver_program(c, P, &A, pseed, 0x00, drv_ilu, &r1, 1); else
    run_program(c, P, &A, pseed, 0x00, &r1, 1);
    vf_check_ledger_since(c, "end of lifecycle (first execution)", (drv ? r1.forced == 4 : r1.forced == 2) ? "query" : r1.info > A.n ? "nomem" : "lifecycle", mark);
    if (vf_bad_frees() > 0) vf_viol(c, "badfree", "%ld free(s) of a pointer that is not a live allocation", vf_bad_frees());
    mark = vf_ledger_mark();
    if (drv) run_driver_program(c, P, &A, pseed, junk2, drv_ilu, &r2, 0); else
    run_program(c, P, &A, pseed, junk2, &r2, 0);
    vf_check_ledger_since(c, "end of lifecycle (second execution)", (drv ? r2.forced == 4 : r2.forced == 2) ? "query" : r2.info > A.n ? "nomem" : "lifecycle", mark);
    if (r1.info != r2.info || r1.h != r2.h) vf_viol(c, "output-depends-on-heap-junk", "the same lifecycle under two junk-fill patterns of fresh allocations gave different outputs (info %lld/%lld, hash %016llx/%016llx): dependence on uninitialised memory", (long long)r1.info, (long long)r2.info, (unsigned long long)r1.h, (unsigned long long)r2.h);
    c->counters[0] += r1.nops; c->nontrivial = r1.nops >= 1 || r1.info != 0; vf_sig_u64(c, mat_pattern_hash(&A)); vf_sig_u64(c, pseed);
    mat_free(&A);
    vf_check_ledger(c, "after both executions");
}
VF_REGISTER("C19", c19_run)
