/* Seeded generators: sparsity patterns, value classes, tuning tables, option vectors. */
#include "vf.h"

const char *pat_names[] = { "random", "random+diag", "band", "arrow", "blockdiag", "blocktri", "permtri", "grid", "dense", "diag", "stair", "lowerdense" };
const char *val_names[] = { "unif", "diagdom", "rowscaled", "colscaled", "bothscaled", "graded", "smallint", "pow2" };
const char *colperm_names[] = { "NATURAL", "MMD_ATA", "MMD_AT_PLUS_A", "COLAMD", "METIS_AT_PLUS_A", "PARMETIS", "METIS_ATA", "ZOLTAN", "MY_PERMC" };

void mat_free(vf_mat *A) { free(A->colptr); free(A->rowind); free(A->v); memset(A, 0, sizeof *A); }
void mat_copy(vf_mat *d, const vf_mat *s)
{
    *d = *s;
    d->colptr = malloc(sizeof(int_t) * (size_t)(s->n + 1)); memcpy(d->colptr, s->colptr, sizeof(int_t) * (size_t)(s->n + 1));
    d->rowind = malloc(sizeof(int_t) * (size_t)(s->nnz + 1)); memcpy(d->rowind, s->rowind, sizeof(int_t) * (size_t)s->nnz);
    d->v = malloc(sizeof(ldc) * (size_t)(s->nnz + 1)); memcpy(d->v, s->v, sizeof(ldc) * (size_t)s->nnz);
}
void mat_transpose(vf_mat *d, const vf_mat *s)
{
    d->m = s->n; d->n = s->m; d->nnz = s->nnz;
    d->colptr = calloc((size_t)d->n + 2, sizeof(int_t)); d->rowind = malloc(sizeof(int_t) * (size_t)(s->nnz + 1)); d->v = malloc(sizeof(ldc) * (size_t)(s->nnz + 1));
    for (int_t k = 0; k < s->nnz; k++) d->colptr[s->rowind[k] + 1]++;
    for (int j = 0; j < d->n; j++) d->colptr[j + 1] += d->colptr[j];
    int_t *nx = malloc(sizeof(int_t) * (size_t)(d->n + 1)); memcpy(nx, d->colptr, sizeof(int_t) * (size_t)(d->n + 1));
    for (int j = 0; j < s->n; j++) for (int_t k = s->colptr[j]; k < s->colptr[j + 1]; k++) { int_t q = nx[s->rowind[k]]++; d->rowind[q] = j; d->v[q] = s->v[k]; }
    free(nx);
}
void mat_to_dense(const vf_mat *A, ldc *D)
{
    memset(D, 0, sizeof(ldc) * (size_t)A->m * (size_t)A->n);
    for (int j = 0; j < A->n; j++) for (int_t k = A->colptr[j]; k < A->colptr[j + 1]; k++) D[(size_t)j * A->m + A->rowind[k]] += A->v[k];
}
uint64_t mat_pattern_hash(const vf_mat *A)
{
    uint64_t h = fnv64(FNV0, &A->m, sizeof A->m); h = fnv64(h, &A->n, sizeof A->n);
    h = fnv64(h, A->colptr, sizeof(int_t) * (size_t)(A->n + 1)); return fnv64(h, A->rowind, sizeof(int_t) * (size_t)A->nnz);
}

void gen_spec_random(vf_rng *r, const vf_api *P, gen_spec *g, int nmin, int nmax, int square)
{
    memset(g, 0, sizeof *g);
    int n;
    double u = rng_unif(r);
    if (u < 0.10) n = rng_int(r, nmin, nmin + 3 < nmax ? nmin + 3 : nmax);
    else if (u < 0.75) n = rng_int(r, nmin, (nmin + nmax) / 2);
    else n = rng_int(r, nmin, nmax);
    g->n = n; g->m = n;
    if (!square) { int d = rng_int(r, 0, 2); if (d == 1) g->m = n + rng_int(r, 1, 1 + n / 2); else if (d == 2 && n > 1) g->m = n - rng_int(r, 1, n / 2); if (g->m < 1) g->m = 1; }
    g->pattern = rng_int(r, 0, PAT__N - 1);
    g->values = rng_int(r, 0, VAL__N - 1);
    g->density = rng_int(r, 1, 6);
    g->scale_exp = P->rsz == 4 ? rng_int(r, 1, 5) : rng_int(r, 1, 30);
    g->drop_diag = 0; g->explicit_zeros = rng_bool(r, 0.1) ? rng_int(r, 1, 3) : 0;
}

void gen_spec_str(const gen_spec *g, char *buf, size_t n)
{
    snprintf(buf, n, "%dx%d %s/%s dens=%d sexp=%d dropdiag=%d xz=%d", g->m, g->n, pat_names[g->pattern], val_names[g->values],
             g->density, g->scale_exp, g->drop_diag, g->explicit_zeros);
}

static ld unif_pm(vf_rng *r) { ld v; do { v = (ld)(2.0 * rng_unif(r) - 1.0); } while (fabsl(v) < 1e-3L); return v; }


/* Incomplete-LU gadget: upper band matrix in natural order where a few columns k have no entry on or below the diagonal;
   each such column is tied to an earlier column c by an O(1) entry (c,k) and a tiny entry (k,c) (structurally nonsingular:
   rows c,k <-> columns k,c).  With diagonal pivots and a drop tolerance above the tiny entry, L(k,c) is dropped, no fill reaches
   column k, its L part comes out empty and ?gsitrf has to invent a position and a pivot for it. */
void gen_ilu_emptycol(vf_rng *r, const vf_api *P, int n, vf_mat *A)
{
    if (n < 4) n = 4;
    int bw = rng_int(r, 1, 3); unsigned char *pat = calloc((size_t)n * (size_t)n, 1); ld *val = calloc((size_t)n * (size_t)n, sizeof(ld));
#define E(i, j) pat[(size_t)(j) * n + (i)]
#define V(i, j) val[(size_t)(j) * n + (i)]
    if (n >= 6 && rng_bool(r, 0.75)) {
        /* second flavour: diagonally dominant band matrix whose LAST row holds nothing but one or two tiny entries in early columns
           (no diagonal entry): those L entries are dropped when their supernodes close, no fill reaches position (n-1,n-1) and the
           last column's L part comes out empty. Nothing needs room after the last column, so the workspaces closest to the smallest
           sufficient length are the ones in which the value array is exactly full there */
        int lo = rng_int(r, 1, 3), up = rng_int(r, 1, 3);
        for (int j = 0; j < n; j++) for (int i = j - up < 0 ? 0 : j - up; i <= j + lo && i < n; i++) if (i == j || rng_bool(r, 0.7)) { E(i, j) = 1; V(i, j) = i == j ? (ld)(2 * (lo + up) + 2) : unif_pm(r); }
        for (int j = 0; j < n; j++) { E(n - 1, j) = 0; V(n - 1, j) = 0; }
        for (int j = 1; j < n; j++) if (!E(j - 1, j)) { E(j - 1, j) = 1; V(j - 1, j) = unif_pm(r); }   /* full superdiagonal: rows c..n-2 can shift one column right, the matrix stays structurally nonsingular */
        int nt = rng_int(r, 1, 2); for (int t = 0; t < nt; t++) { int c = rng_int(r, 0, n / 2 - 1); E(n - 1, c) = 1; V(n - 1, c) = ldexpl(unif_pm(r), -rng_int(r, 30, 60)); }
        goto emit;
    }
    for (int j = 0; j < n; j++) for (int i = j - bw < 0 ? 0 : j - bw; i <= j; i++) if (i == j || rng_bool(r, 0.6)) { E(i, j) = 1; V(i, j) = i == j ? (ld)(2 + rng_int(r, 0, 3)) : unif_pm(r); }
    if (rng_bool(r, 0.5)) for (int j = 0; j + 1 < n; j++) if (rng_bool(r, 0.3)) { E(j + 1, j) = 1; V(j + 1, j) = 0.5L * unif_pm(r); }   /* some genuine sub-diagonal entries */
    int npair = rng_int(r, 1, 3), used = 0;
    for (int t = 0; t < 12 && used < npair; t++) {
        int k = t == 0 ? n - 1 : rng_bool(r, 0.5) ? rng_int(r, n - 3, n - 1) : rng_int(r, 2, n - 1), c = rng_int(r, 0, k - 1);   /* the last column first: storage is tightest there */
        int clash = 0; for (int i = k; i < n; i++) if (i != k && E(i, k)) clash = 1;      /* column k must have nothing below its diagonal */
        if (clash || !E(k, k) || !E(c, c)) continue;
        int rowk = 0; for (int j = 0; j < n; j++) if (j != k && E(k, j)) rowk++;          /* keep row k otherwise empty to the left: only the tiny entry */
        for (int j = 0; j < k; j++) if (E(k, j)) clash = 1;
        if (clash) continue;
        E(k, k) = 0; V(k, k) = 0; E(c, k) = 1; V(c, k) = 1 + 0.5L * unif_pm(r); E(k, c) = 1; V(k, c) = ldexpl(unif_pm(r), -rng_int(r, 30, 60)); used++; (void)rowk;
    }
emit:;
    int_t nnz = 0; for (size_t q = 0; q < (size_t)n * n; q++) nnz += pat[q];
    A->m = A->n = n; A->nnz = nnz; A->colptr = malloc(sizeof(int_t) * (size_t)(n + 1)); A->rowind = malloc(sizeof(int_t) * (size_t)(nnz + 1)); A->v = malloc(sizeof(ldc) * (size_t)(nnz + 1));
    int_t q = 0; for (int j = 0; j < n; j++) { A->colptr[j] = q; for (int i = 0; i < n; i++) if (E(i, j)) { A->rowind[q] = i; A->v[q++] = P->round(V(i, j) + (P->cplx ? 0.25L * V(i, j) * I : 0)); } }
    A->colptr[n] = q; free(pat); free(val);
#undef E
#undef V
}

void gen_matrix(vf_rng *r, const vf_api *P, const gen_spec *g, vf_mat *A)
{
    int m = g->m, n = g->n;
    unsigned char *pat = calloc((size_t)m * (size_t)n + 1, 1);
#define S(i, j) do { int _i = (i), _j = (j); if (_i >= 0 && _i < m && _j >= 0 && _j < n) pat[(size_t)_j * m + _i] = 1; } while (0)
    int mn = m < n ? m : n;
    switch (g->pattern) {
    case PAT_RANDOM: case PAT_RANDOM_DIAG:
        for (int j = 0; j < n; j++) { int k = rng_int(r, g->pattern == PAT_RANDOM ? 0 : 0, 2 * g->density); for (int t = 0; t < k; t++) S(rng_int(r, 0, m - 1), j); }
        if (g->pattern == PAT_RANDOM_DIAG) for (int j = 0; j < mn; j++) S(j, j);
        else for (int j = 0; j < n; j++) if (rng_bool(r, 0.85)) S(rng_int(r, 0, m - 1), j);
        break;
    case PAT_BAND: { int lo = rng_int(r, 0, 4), hi = rng_int(r, 0, 4);
        for (int j = 0; j < n; j++) for (int i = j - hi; i <= j + lo; i++) if (i == j || rng_bool(r, 0.8)) S(i, j); } break;
    case PAT_ARROW: { int fr = rng_bool(r, 0.5), fc = rng_bool(r, 0.5), lr = rng_bool(r, 0.5), lc = rng_bool(r, 0.5); if (!(fr | fc | lr | lc)) lr = lc = 1;
        for (int j = 0; j < mn; j++) S(j, j);
        for (int j = 0; j < n; j++) { if (fr) S(0, j); if (lr) S(m - 1, j); }
        for (int i = 0; i < m; i++) { if (fc) S(i, 0); if (lc) S(i, n - 1); } } break;
    case PAT_BLOCKDIAG: { int j = 0; while (j < mn) { int b = rng_int(r, 1, 6); if (j + b > mn) b = mn - j;
            for (int a = 0; a < b; a++) for (int c = 0; c < b; c++) if (a == c || rng_bool(r, 0.7)) S(j + a, j + c); j += b; } } break;
    case PAT_BLOCKTRI: { int j = 0; while (j < mn) { int b = rng_int(r, 1, 5); if (j + b > mn) b = mn - j;
            for (int a = 0; a < b; a++) for (int c = 0; c < b; c++) if (a == c || rng_bool(r, 0.7)) S(j + a, j + c);
            for (int c = 0; c < b; c++) { int k = rng_int(r, 0, 2); for (int t = 0; t < k && j > 0; t++) S(rng_int(r, 0, j - 1), j + c); } j += b; } } break;
    case PAT_PERMTRI: { int *pr = malloc(sizeof(int) * (size_t)m), *pc = malloc(sizeof(int) * (size_t)n); rng_perm(r, pr, m); rng_perm(r, pc, n);
        for (int j = 0; j < mn; j++) { S(pr[j], pc[j]); for (int i = j + 1; i < mn; i++) if (rng_bool(r, (double)g->density / (mn + 1.0))) S(pr[i], pc[j]); }
        free(pr); free(pc); } break;
    case PAT_GRID: { int k = (int)floor(sqrt((double)mn)); if (k < 1) k = 1;
        for (int a = 0; a < k; a++) for (int b = 0; b < k; b++) { int p = a * k + b; S(p, p); if (a > 0) S(p - k, p); if (a < k - 1) S(p + k, p); if (b > 0) S(p - 1, p); if (b < k - 1) S(p + 1, p); }
        for (int j = k * k; j < mn; j++) { S(j, j); S(rng_int(r, 0, m - 1), j); } } break;
    case PAT_DENSE: for (int j = 0; j < n; j++) for (int i = 0; i < m; i++) S(i, j); break;
    case PAT_DIAG: for (int j = 0; j < mn; j++) S(j, j); break;
    case PAT_LOWERDENSE: {
        /* dense lower triangle (long supernodes that straddle panel boundaries) + sparse upper part whose first entry per column
           starts a U-segment somewhere inside a supernode */
        int near = rng_bool(r, 0.6), dist = rng_int(r, 2, 12);   /* upper entries anywhere, or only within `dist` of the diagonal (a U-segment then starts inside a recent supernode) */
        for (int j = 0; j < n; j++) { for (int i = j; i < m; i++) S(i, j); int k = rng_int(r, 0, 2);
            for (int t = 0; t < k && j > 0; t++) S(near ? j - rng_int(r, 1, dist < j ? dist : j) : rng_int(r, 0, j - 1), j); }
        } break;
    case PAT_STAIR: { int i = 0; for (int j = 0; j < n; j++) { int h = rng_int(r, 1, 3); for (int t = 0; t < h; t++) S(i + t, j); S(j, j); if (rng_bool(r, 0.7)) i++; if (i >= m) i = m - 1; } } break;
    }
    /* forced structural holes on the diagonal */
    if (g->drop_diag > 0) { for (int t = 0; t < g->drop_diag; t++) { int j = rng_int(r, 0, mn - 1); pat[(size_t)j * m + j] = 0; } }
#undef S
    int_t nnz = 0; for (size_t k = 0; k < (size_t)m * n; k++) nnz += pat[k];
    A->m = m; A->n = n; A->nnz = nnz;
    A->colptr = malloc(sizeof(int_t) * (size_t)(n + 1)); A->rowind = malloc(sizeof(int_t) * (size_t)(nnz + 1)); A->v = malloc(sizeof(ldc) * (size_t)(nnz + 1));
    /* row order inside a column: sorted, or shuffled (the library does not require sorted columns) */
    int shuffle = rng_bool(r, 0.3);
    int_t q = 0; int *tmp = malloc(sizeof(int) * (size_t)(m + 1));
    for (int j = 0; j < n; j++) {
        A->colptr[j] = q; int c = 0;
        for (int i = 0; i < m; i++) if (pat[(size_t)j * m + i]) tmp[c++] = i;
        if (shuffle) for (int a = c - 1; a > 0; a--) { int b = rng_int(r, 0, a); int t = tmp[a]; tmp[a] = tmp[b]; tmp[b] = t; }
        for (int a = 0; a < c; a++) A->rowind[q++] = tmp[a];
    }
    A->colptr[n] = q; free(tmp); free(pat);
    /* values */
    ld *rs = malloc(sizeof(ld) * (size_t)(m + 1)), *cs = malloc(sizeof(ld) * (size_t)(n + 1));
    for (int i = 0; i < m; i++) rs[i] = 1; for (int j = 0; j < n; j++) cs[j] = 1;
    int E = g->scale_exp;
    if (g->values == VAL_ROWSCALED || g->values == VAL_BOTHSCALED) for (int i = 0; i < m; i++) rs[i] = powl(10.0L, (ld)rng_int(r, -E, E));
    if (g->values == VAL_COLSCALED || g->values == VAL_BOTHSCALED) for (int j = 0; j < n; j++) cs[j] = powl(10.0L, (ld)rng_int(r, -E, E));
    if (g->values == VAL_GRADED) for (int j = 0; j < n; j++) cs[j] = powl(10.0L, -(ld)E * 0.5L * (ld)j / (ld)(n > 1 ? n - 1 : 1));
    int cmode = P->cplx ? rng_int(r, 0, 3) : 0;   /* 0,1: general complex; 2: purely real; 3: mixed pure re / pure im */
    for (int j = 0; j < n; j++) for (int_t k = A->colptr[j]; k < A->colptr[j + 1]; k++) {
        ld re, im = 0;
        if (g->values == VAL_SMALLINT) { do { re = (ld)rng_int(r, -3, 3); im = P->cplx && cmode < 2 ? (ld)rng_int(r, -2, 2) : 0; } while (re == 0 && im == 0); }
        else if (g->values == VAL_POW2) { re = ldexpl(rng_bool(r, 0.5) ? 1.0L : -1.0L, rng_int(r, -3, 3)); im = P->cplx && cmode < 2 && rng_bool(r, 0.5) ? ldexpl(rng_bool(r, 0.5) ? 1.0L : -1.0L, rng_int(r, -3, 3)) : 0; }
        else { re = unif_pm(r); im = P->cplx ? unif_pm(r) : 0; }
        if (P->cplx && cmode == 2) im = 0;
        if (P->cplx && cmode == 3) { if (rng_bool(r, 0.5)) im = 0; else { im = re; re = 0; } }
        ld s = rs[A->rowind[k]] * cs[j];
        A->v[k] = P->round((re * s) + (im * s) * I);
    }
    if (g->values == VAL_DIAGDOM) {
        ld *sum = calloc((size_t)n + 1, sizeof(ld));
        for (int j = 0; j < n; j++) for (int_t k = A->colptr[j]; k < A->colptr[j + 1]; k++) if (A->rowind[k] != j) sum[j] += abs1(A->v[k]);
        for (int j = 0; j < n; j++) for (int_t k = A->colptr[j]; k < A->colptr[j + 1]; k++) if (A->rowind[k] == j) {
            ld sg = creall(A->v[k]) < 0 ? -1 : 1; A->v[k] = P->round(sg * (sum[j] + 1.0L) + (P->cplx ? cimagl(A->v[k]) * I : 0));
        }
        free(sum);
    }
    for (int t = 0; t < g->explicit_zeros && nnz > 0; t++) A->v[rng_int(r, 0, (int)nnz - 1)] = 0;
    free(rs); free(cs);
}

void gen_tuning(vf_rng *r, int small)
{
    if (small) {
        int maxsuper = rng_int(r, 1, 10);
        int ilumax = rng_int(r, 1, 10);
        int lim = maxsuper < ilumax ? maxsuper : ilumax;
        int relax = rng_int(r, 1, lim < 6 ? lim : 6);
        vf_ienv_set(1, rng_int(r, 1, 8));
        vf_ienv_set(2, relax);
        vf_ienv_set(3, maxsuper);
        vf_ienv_set(4, rng_int(r, 2, 20));
        vf_ienv_set(5, rng_int(r, 1, 10));
        vf_ienv_set(6, rng_bool(r, 0.5) ? rng_int(r, 1, 4) : rng_int(r, 1, 30));
        vf_ienv_set(7, ilumax);
    } else {
        vf_ienv_default();
        if (rng_bool(r, 0.5)) vf_ienv_set(6, rng_int(r, 1, 30));
    }
}
void tuning_str(char *buf, size_t n)
{
    snprintf(buf, n, "ienv=[%d,%d,%d,%d,%d,%d,%d]", vf_ienv_get(1), vf_ienv_get(2), vf_ienv_get(3), vf_ienv_get(4), vf_ienv_get(5), vf_ienv_get(6), vf_ienv_get(7));
}

void gen_run_opts(vf_rng *r, run_opts *o, int allow_nr)
{
    memset(o, 0, sizeof *o);
    set_default_options(&o->opt);
    static const int cps[] = { NATURAL, MMD_ATA, MMD_AT_PLUS_A, COLAMD, MY_PERMC };
    o->opt.ColPerm = (colperm_t)rng_pick(r, cps, 5);
    o->my_permc = o->opt.ColPerm == MY_PERMC;
    static const double us[] = { 1.0, 1.0, 0.5, 0.1, 0.01, 1e-3, 1e-8, 0.0 };   /* documented range [0, 1] */
    o->opt.DiagPivotThresh = us[rng_int(r, 0, 7)];
    o->opt.SymmetricMode = rng_bool(r, 0.25) ? YES : NO;
    o->opt.Equil = rng_bool(r, 0.5) ? YES : NO;
    o->opt.Trans = (trans_t)rng_int(r, 0, 2);
    o->opt.IterRefine = rng_bool(r, 0.5) ? NOREFINE : (IterRefine_t)rng_int(r, 1, 3);
    o->opt.PivotGrowth = rng_bool(r, 0.5) ? YES : NO;
    o->opt.ConditionNumber = rng_bool(r, 0.5) ? YES : NO;
    o->opt.PrintStat = NO;
    o->rowmajor = allow_nr ? rng_bool(r, 0.35) : 0;
    o->nrhs = rng_int(r, 0, 4); if (rng_bool(r, 0.5)) o->nrhs = rng_int(r, 1, 2);
    o->ldpad = rng_bool(r, 0.4) ? rng_int(r, 1, 5) : 0;
    o->tuning_small = rng_bool(r, 0.8);
}
void run_opts_str(const run_opts *o, char *buf, size_t n)
{
    snprintf(buf, n, "colperm=%s u=%g sym=%d equil=%d trans=%d refine=%d pg=%d cond=%d %s nrhs=%d ldpad=%d",
             colperm_names[o->opt.ColPerm], o->opt.DiagPivotThresh, o->opt.SymmetricMode == YES, o->opt.Equil == YES, (int)o->opt.Trans,
             (int)o->opt.IterRefine, o->opt.PivotGrowth == YES, o->opt.ConditionNumber == YES, o->rowmajor ? "NR" : "NC", o->nrhs, o->ldpad);
}
