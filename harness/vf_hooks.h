/* Force-included (-include) into every library and harness translation unit.
 * Routes SUPERLU_MALLOC / SUPERLU_FREE / ABORT to the monitor through the
 * library's own compile-time extension points (SRC/slu_util.h). */
#ifndef VF_HOOKS_H
#define VF_HOOKS_H
#include <stddef.h>
#ifdef __cplusplus
extern "C" {
#endif
void *vf_malloc(size_t size, const char *file, int line, const char *func);
void  vf_free(void *p);
void  vf_abort(const char *msg) __attribute__((noreturn));
#ifdef __cplusplus
}
#endif
#define USER_MALLOC(size) vf_malloc((size), __FILE__, __LINE__, __func__)
#define USER_FREE(addr)   vf_free(addr)
#define USER_ABORT(msg)   vf_abort(msg)
#endif
