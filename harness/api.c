/* Precision dispatch table: thin typed wrappers around the library entry points. */
#include "vf.h"

#define PL s
#define SCALAR float
#define REAL float
#define CPLX 0
#define DT SLU_S
#define RMACH smach
#include "api_tmpl.h"
#undef PL
#undef SCALAR
#undef REAL
#undef CPLX
#undef DT
#undef RMACH
#undef N
#undef W
#undef SPN
#undef ILN

#define PL d
#define SCALAR double
#define REAL double
#define CPLX 0
#define DT SLU_D
#define RMACH dmach
#include "api_tmpl.h"
#undef PL
#undef SCALAR
#undef REAL
#undef CPLX
#undef DT
#undef RMACH
#undef N
#undef W
#undef SPN
#undef ILN

#define PL c
#define SCALAR singlecomplex
#define REAL float
#define CPLX 1
#define DT SLU_C
#define RMACH smach
#include "api_tmpl.h"
#undef PL
#undef SCALAR
#undef REAL
#undef CPLX
#undef DT
#undef RMACH
#undef N
#undef W
#undef SPN
#undef ILN

#define PL z
#define SCALAR doublecomplex
#define REAL double
#define CPLX 1
#define DT SLU_Z
#define RMACH dmach
#include "api_tmpl.h"

vf_api vf_apis[4];
__attribute__((constructor)) static void vf_api_init(void)
{
    w_sfill(&vf_apis[0], 0, 's', (ld)FLT_EPSILON, (ld)FLT_MIN, (ld)FLT_MAX);
    w_dfill(&vf_apis[1], 1, 'd', (ld)DBL_EPSILON, (ld)DBL_MIN, (ld)DBL_MAX);
    w_cfill(&vf_apis[2], 2, 'c', (ld)FLT_EPSILON, (ld)FLT_MIN, (ld)FLT_MAX);
    w_zfill(&vf_apis[3], 3, 'z', (ld)DBL_EPSILON, (ld)DBL_MIN, (ld)DBL_MAX);
}
