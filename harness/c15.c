/* C15 - incomplete LU never breaks down and is exact when dropping is off. */
#include "fact.h"

/* dense product M = Pr^T (L U) Pc^T of the returned factors as a sparse matrix in original coordinates */
static void factors_product(const vf_api *P, const xdrv *D, const ldc *Ld, const ldc *Ud, vf_mat *M)
{
    (void)P; int n = D->n; ldc *W = calloc((size_t)n * n, sizeof(ldc));
    for (int j = 0; j < n; j++) for (int k = 0; k <= j; k++) { ldc u = Ud[(size_t)j * n + k]; if (u == 0) continue; for (int i = k; i < n; i++) { ldc l = Ld[(size_t)k * n + i]; if (l != 0) W[(size_t)j * n + i] += l * u; } }
    /* original (i,j) = permuted (perm_r[i], perm_c[j]) */
    int_t nnz = 0; M->m = M->n = n; M->colptr = malloc(sizeof(int_t) * (size_t)(n + 1)); M->rowind = malloc(sizeof(int_t) * ((size_t)n * n + 1)); M->v = malloc(sizeof(ldc) * ((size_t)n * n + 1));
    for (int j = 0; j < n; j++) { M->colptr[j] = nnz; for (int i = 0; i < n; i++) { ldc v = W[(size_t)D->perm_c[j] * n + D->perm_r[i]]; if (v != 0) { M->rowind[nnz] = i; M->v[nnz] = v; nnz++; } } }
    M->colptr[n] = nnz; M->nnz = nnz; free(W);
}

static void c15_run(vf_case *c)
{
    const vf_api *P = c->P; vf_rng *r = &c->rng; char buf[400], why[300];
    gen_spec g;
    gen_spec_random(r, P, &g, 1, c->tier ? 50 : 36, 1);
    static const int pats[] = { PAT_RANDOM_DIAG, PAT_RANDOM_DIAG, PAT_BAND, PAT_ARROW, PAT_BLOCKDIAG, PAT_BLOCKTRI, PAT_PERMTRI, PAT_GRID, PAT_DENSE, PAT_STAIR };
    g.pattern = rng_pick(r, pats, 10);
    if (g.values == VAL_GRADED) g.values = VAL_UNIF;
    if (P->rsz == 4 && g.scale_exp > 3) g.scale_exp = 3; else if (g.scale_exp > 12) g.scale_exp = 12;
    vf_mat A0, A; gen_matrix(r, P, &g, &A0);
    int n = A0.n;
    /* zero diagonals on a structurally nonsingular pattern: relabel the rows */
    int relabel = rng_int(r, 0, 3);
    if (relabel) { int *rp = malloc(sizeof(int) * (size_t)n); if (relabel == 1) rng_perm(r, rp, n); else for (int i = 0; i < n; i++) rp[i] = relabel == 2 ? (i + 1) % n : n - 1 - i;
        mat_copy(&A, &A0); for (int_t k = 0; k < A.nnz; k++) A.rowind[k] = rp[A0.rowind[k]]; free(rp); mat_free(&A0); }
    else A = A0;
    /* numerically singular leading blocks / exact zero pivots: some exactly zero stored entries or a zeroed column */
    int zmode = rng_int(r, 0, 9);
    if (zmode == 0 && n > 1) { int j = rng_int(r, 0, n - 1); for (int_t k = A.colptr[j]; k < A.colptr[j + 1]; k++) A.v[k] = 0; }
    if (zmode == 1) for (int_t k = 0; k < A.nnz; k++) if (A.rowind[k] < n / 2 && rng_bool(r, 0.5)) A.v[k] = 0;
    if (zmode == 2 && n > 2) { /* two identical leading columns' values where patterns overlap: cancellation */ for (int_t k = A.colptr[0]; k < A.colptr[1]; k++) for (int_t q = A.colptr[1]; q < A.colptr[2]; q++) if (A.rowind[q] == A.rowind[k]) A.v[q] = A.v[k]; }
    /* two equations/unknowns in tiny or huge units (a 6x6 family): MC64 wants a scale factor beyond the square root of the overflow
       threshold, and the (0,2) entry, whose value underflowed, is stored as an explicit zero exactly where the row factor times the
       column factor is not representable.  The driver has to fall back to ?gsequ (documented) and complete. */
    int units = P->letter == 'd' && rng_bool(r, 0.01);
    if (units) {
        static const double Bw[6][6] = { { 1, .5, 0, 0, 0, .25 }, { 1, 1, 0, 0, 0, 0 }, { 0, 0, 1, .5, 0, 0 }, { 0, 0, -.25, 4, 1, 0 }, { .5, 0, 0, -1, 4, 1 }, { 0, 0, 0, 0, -1, 4 } };
        mat_free(&A); n = 6; A.m = A.n = 6; A.colptr = malloc(sizeof(int_t) * 7); A.rowind = malloc(sizeof(int_t) * 36); A.v = malloc(sizeof(ldc) * 36);
        ld sc = expl(-(ld)rng_int(r, 360, 440)); int_t k = 0;
        for (int j = 0; j < 6; j++) { A.colptr[j] = k; for (int i = 0; i < 6; i++) if (Bw[i][j] != 0 || (i == 0 && j == 2)) {
            ld v = Bw[i][j] * (1 + 0.2L * (2 * rng_unif(r) - 1)); if (i == 0) v *= sc; if (j == 1) v /= sc; if (j == 2) v *= sc;
            A.rowind[k] = i; A.v[k] = P->round(v); k++; } }
        A.colptr[6] = k; A.nnz = k; vf_tag(c, "units-beyond-sqrt-overflow");
    }
    int sr = sprank(&A);
    superlu_options_t xo; gen_ilu_options(r, &xo); xo.Fact = DOFACT;
    if (units) { xo.RowPerm = LargeDiag_MC64; xo.Equil = YES; xo.ILU_DropRule = NODROP; }
    run_opts o; gen_run_opts(r, &o, 1);
    gen_tuning(r, rng_bool(r, 0.85));
    int nrhs = rng_int(r, 0, 3);
    gen_spec_str(&g, buf, sizeof buf); vf_desc(c, "%s relabel=%d zmode=%d sprank=%d; ", buf, relabel, zmode, sr);
    ilu_options_str(&xo, buf, sizeof buf); vf_desc(c, "%s pg=%d cond=%d %s nrhs=%d; ", buf, xo.PivotGrowth == YES, xo.ConditionNumber == YES, o.rowmajor ? "NR" : "NC", nrhs); tuning_str(buf, sizeof buf); vf_desc(c, "%s", buf);
    vf_tag(c, "prec=%c", P->letter); vf_note(c, "ilu");
    if (sr < n) { vf_note(c, "structsing"); vf_tag(c, "structsing"); }
    vf_sig_u64(c, mat_pattern_hash(&A)); vf_sig_u64(c, (uint64_t)xo.ILU_DropRule * 64 + (uint64_t)xo.ILU_MILU * 16 + (uint64_t)xo.RowPerm * 8 + (uint64_t)xo.Trans * 2 + (uint64_t)o.rowmajor);
    ldc *B0 = malloc(sizeof(ldc) * (size_t)n * (nrhs + 1));
    for (int k = 0; k < n * nrhs; k++) B0[k] = P->round((2 * rng_unif(r) - 1) + (P->cplx ? (2 * rng_unif(r) - 1) * I : 0));
    xdrv D; xdrv_init(&D, P, &A, o.rowmajor, nrhs, o.ldpad, rng_int(r, 0, 2), B0, 1);
    if (xo.ColPerm == MY_PERMC) rng_perm(r, D.perm_c, n);
    vf_snap idx0; snap_sparse(P, &D.A, &idx0, NULL);
    const NCformat *st = D.A.Store; ldc *Av0 = malloc(sizeof(ldc) * (size_t)(A.nnz + 1)); for (int_t k = 0; k < A.nnz; k++) Av0[k] = P->get(st->nzval, (size_t)k);
    int use_ws = rng_bool(r, 0.2); void *work = NULL;
    if (use_ws) { D.lwork = (int_t)generous_lwork(P, n, A.nnz) * 2; work = vf_ws_alloc(c, (size_t)D.lwork); D.work = work; }
    /* the first size of the factor arrays is an internal matter: the guarantees hold wherever the growth points fall */
    long cap[3] = { 0, 0, 0 };
    if (rng_bool(r, 0.35)) { int which = rng_int(r, 0, 3); if (which > 2) which = 2; cap[which] = rng_int(r, 1, (int)(2 * A.nnz + n + 2)); if (rng_bool(r, 0.3)) cap[(which + 1) % 3] = rng_int(r, 1, 8); vf_tag(c, "capacity-start"); }
    vf_events_reset();

    vf_cap_set(cap[0], cap[1], cap[2]);
    xdrv_call(&D, &xo);
    vf_cap_set(0, 0, 0);

    int_t info = D.info; long ev = vf_events_count(VF_EV_ILU_PIVOT) + vf_events_count(VF_EV_ILU_DROP);
    vf_tag(c, "rule=0x%x", xo.ILU_DropRule & 0x1f); vf_tag(c, "milu=%d", (int)xo.ILU_MILU); vf_tag(c, "rowperm=%d", (int)xo.RowPerm); vf_tag(c, "trans=%d", (int)xo.Trans);
    vf_tag(c, "%s", o.rowmajor ? "NR" : "NC"); vf_tag(c, "norm=%d", (int)xo.ILU_Norm); vf_tag(c, "equed=%c", D.equed[0]); vf_tag(c, "mem=%s", use_ws ? "workspace" : "malloc");
    if (ev) { vf_tag(c, "pivots-replaced"); c->counters[1] += ev; }
    if (sr == n) {
        /* property domain: structurally nonsingular */
        if (info < 0 || (info > n + 1 && !use_ws)) vf_viol(c, "ilu-info-out-of-range", "gsisx returned info=%lld for a structurally nonsingular matrix (n=%d, library allocation)", (long long)info, n);
        else if (info <= n + 1) {
            /* info counts the replaced pivots (n+1 is the rcond warning, only when nothing was replaced) */
            if (info <= n && info != ev) vf_viol(c, "ilu-info-not-replacement-count", "info=%lld but %ld pivot replacement event(s) were observed (pivot %ld, MILU diagonal %ld)", (long long)info, ev, vf_events_count(VF_EV_ILU_PIVOT), vf_events_count(VF_EV_ILU_DROP));
            if (info == n + 1 && ev != 0) vf_viol(c, "ilu-info-n+1-with-replacements", "info=n+1 although %ld pivots were replaced", ev);
            vf_snap idx1; snap_sparse(P, &D.A, &idx1, NULL);
            if (!snap_same(&idx0, &idx1)) vf_viol(c, "ilu-A-indices-not-restored", "the caller's index arrays of A differ after gsisx (rowperm=%d)", (int)xo.RowPerm);
            snap_free(&idx1);
            { int bad = 0; for (int_t k = 0; k < A.nnz; k++) { ldc v = P->get(st->nzval, (size_t)k); if (!isfinite((double)creall(v)) || !isfinite((double)cimagl(v))) bad = 1; }
              if (bad) vf_viol(c, "ilu-A-nonfinite", "the caller's matrix (finite on entry) holds a non-finite value after gsisx (equed=%c, rowperm=%d)", D.equed[0], (int)xo.RowPerm); }
            if (!is_perm(D.perm_r, n) || !is_perm(D.perm_c, n)) vf_viol(c, "ilu-perm-not-bijection", "perm_r/perm_c not permutations");
            else if (structure_ok(P, &D.L, &D.U, n, n, 1, why, sizeof why)) vf_viol(c, "ilu-structure", "%s", why);
            else {
                ldc *Ld = malloc(sizeof(ldc) * (size_t)n * n), *Ud = malloc(sizeof(ldc) * (size_t)n * n);
                expand_LU(P, &D.L, &D.U, n, n, Ld, Ud);
                if (check_udiag(P, Ud, n, why, sizeof why)) vf_viol(c, "ilu-U-diagonal", "%s", why);
                else if (units) { vf_tag(c, "units-numeric-verdicts-skipped"); c->nontrivial = 1; }      /* products over- and underflow by construction */
                else {
                    ld cf = P->cplx ? 16 : 8;
                    /* (a) X is the preconditioner solve defined by the returned factors */
                    if (nrhs > 0) {
                        vf_mat M; factors_product(P, &D, Ld, Ud, &M);
                        ld *E = malloc(sizeof(ld) * (size_t)n * n); absLU_orig(P, D.perm_r, D.perm_c, Ld, Ud, n, E);
                        int op = effective_op(o.rowmajor, xo.Trans), notranF = (op == 0 || op == 3);
                        int rowequ = D.equed[0] == 'R' || D.equed[0] == 'B', colequ = D.equed[0] == 'C' || D.equed[0] == 'B';
                        ldc *X = malloc(sizeof(ldc) * (size_t)n * nrhs), *B = malloc(sizeof(ldc) * (size_t)n * nrhs); dense_read(P, &D.X, X); dense_read(P, &D.B, B);
                        ld worst = 0; int nonfin = 0;
                        for (int j = 0; j < nrhs; j++) { ldc *x = &X[(size_t)j * n];
                            for (int i = 0; i < n; i++) { if (!isfinite((double)creall(x[i])) || !isfinite((double)cimagl(x[i]))) nonfin = 1; ld t = 1; if (notranF && colequ) t = P->rget(D.C, (size_t)i); else if (!notranF && rowequ) t = P->rget(D.R, (size_t)i); x[i] /= t; }
                            ld q = solve_residual_ratio(P, &M, op, x, &B[(size_t)j * n], E, cf); if (!(q <= worst)) worst = q; }
                        /* a replaced pivot can be tiny: growth makes X huge/non-finite legitimately only through overflow; judge finite results */
                        if (!nonfin) { if (!(worst <= 1.0L)) vf_viol(c, "ilu-X-not-preconditioner-solve", "X differs from the solve with the returned factors: residual w.r.t. Pr^T L U Pc^T exceeds the bound by %.3Lg (trans=%d, equed=%c, %s)", worst, (int)xo.Trans, D.equed[0], o.rowmajor ? "NR" : "NC");
                            long pm = (long)(worst * 1000); if (pm > c->counters[2]) c->counters[2] = pm; c->counters[3]++; }
                        else vf_tag(c, "X-nonfinite-overflow");
                        if (xdrv_check_B_scaling(&D, xo.Trans, B0, why, sizeof why)) vf_viol(c, "ilu-B-scaling", "%s", why);
                        free(X); free(B); free(E); mat_free(&M);
                    }
                    /* (b) dropping disabled and nothing replaced: complete-LU guarantees */
                    int nodrop = xo.ILU_DropRule == NODROP || (xo.ILU_DropTol == 0.0 && !(xo.ILU_DropRule & DROP_SECONDARY));
                    if (nodrop && ev == 0 && info != n + 1) {
                        vf_mat F; xdrv_factored_matrix(&D, &F);
                        ld q = factor_identity_ratio(P, &F, D.perm_r, D.perm_c, Ld, Ud, n, cf);
                        if (!(q <= 1.0L)) vf_viol(c, "ilu-nodrop-factor-identity", "dropping disabled, no pivot replaced, but |Pr*A*Pc - L*U| exceeds the complete-LU bound by %.3Lg (rule=0x%x tol=%g milu=%d)", q, xo.ILU_DropRule, xo.ILU_DropTol, (int)xo.ILU_MILU);
                        vf_tag(c, "nodrop-exactness-judged"); c->counters[4]++; mat_free(&F);
                    }
                    c->nontrivial = n >= 2;
                }
                free(Ld); free(Ud);
            }
        } else vf_tag(c, "info=nomem-workspace");
    } else vf_tag(c, "outside-domain-not-judged");
    vf_tag(c, "info=%s", info == 0 ? "0" : info <= n ? "replaced" : info == n + 1 ? "n+1" : "other"); vf_sig_u64(c, (uint64_t)(info == 0) + 2 * (uint64_t)(ev > 0));
    c->counters[0]++;
    snap_free(&idx0); free(Av0); free(B0);
    xdrv_free(&D); free(work); mat_free(&A);
    vf_check_ledger(c, "after gsisx lifecycle");
}
VF_REGISTER("C15", c15_run)
