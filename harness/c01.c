/* C01 - simple driver returns a solution of A*X = B (componentwise bound from the returned factors). */
#include "vf.h"

static void c01_run(vf_case *c)
{
    const vf_api *P = c->P; vf_rng *r = &c->rng;
    gen_spec g; run_opts o; char buf[300];
    int big = c->tier && rng_bool(r, 0.01);
    gen_spec_random(r, P, &g, 1, big ? 400 : 60, 1);
    if (big) { g.pattern = PAT_GRID; g.n = g.m = rng_int(r, 200, 400); }
    /* bias towards structurally nonsingular patterns; singular outcomes are counted, not asserted here */
    if (g.pattern == PAT_RANDOM && rng_bool(r, 0.7)) g.pattern = PAT_RANDOM_DIAG;
    if (g.pattern == PAT_STAIR && rng_bool(r, 0.5)) g.pattern = PAT_BAND;
    vf_mat A; gen_matrix(r, P, &g, &A);
    gen_run_opts(r, &o, 1);
    if (big) o.tuning_small = 0;
    gen_tuning(r, o.tuning_small);
    /* long supernodes that straddle wide panels, natural order: the blocked within-panel update paths with partial segments */
    if (g.pattern == PAT_LOWERDENSE && rng_bool(r, 0.6)) { o.opt.ColPerm = NATURAL; o.my_permc = 0; o.opt.SymmetricMode = NO; vf_ienv_set(1, rng_int(r, 6, 8)); vf_ienv_set(3, rng_int(r, 5, 10)); vf_ienv_set(2, rng_int(r, 1, 2)); }
    int n = A.n, nrhs = o.nrhs, ldb = n + o.ldpad; if (ldb < 1) ldb = 1;
    gen_spec_str(&g, buf, sizeof buf); vf_desc(c, "%s; ", buf);
    run_opts_str(&o, buf, sizeof buf); vf_desc(c, "%s; ", buf);
    tuning_str(buf, sizeof buf); vf_desc(c, "%s", buf);

    /* right-hand sides: random, some zero columns / zero components */
    ldc *B0 = malloc(sizeof(ldc) * (size_t)n * (size_t)(nrhs + 1));
    for (int j = 0; j < nrhs; j++) {
        int mode = rng_int(r, 0, 5);
        for (int i = 0; i < n; i++) {
            ld re = 2 * rng_unif(r) - 1, im = P->cplx ? 2 * rng_unif(r) - 1 : 0;
            if (mode == 0) re = im = 0; if (mode == 1 && rng_bool(r, 0.5)) re = im = 0;
            B0[(size_t)j * n + i] = P->round(re + im * I);
        }
    }
    SuperMatrix SA, SB, L, U; memset(&L, 0, sizeof L); memset(&U, 0, sizeof U);
    mk_sparse(P, &A, o.rowmajor, &SA);
    const ldc PAD = 777.0L;
    mk_dense(P, n, nrhs, ldb, B0, &SB, PAD);
    vf_snap a_idx, a_val; snap_sparse(P, &SA, &a_idx, &a_val);
    int *perm_c = malloc(sizeof(int) * (size_t)(n + 1)), *perm_r = malloc(sizeof(int) * (size_t)(n + 1));
    for (int i = 0; i < n; i++) perm_r[i] = perm_c[i] = -12345;
    if (o.my_permc) rng_perm(r, perm_c, n);
    SuperLUStat_t stat; StatInit(&stat);
    int_t info = -999;
    superlu_options_t opt; set_default_options(&opt);
    opt.ColPerm = o.opt.ColPerm; opt.DiagPivotThresh = o.opt.DiagPivotThresh; opt.SymmetricMode = o.opt.SymmetricMode; opt.PrintStat = NO;

    P->gssv(&opt, &SA, perm_c, perm_r, &L, &U, &SB, &stat, &info);

    vf_tag(c, "prec=%c", P->letter); vf_tag(c, "%s", o.rowmajor ? "NR" : "NC"); vf_tag(c, "colperm=%s", colperm_names[opt.ColPerm]);
    vf_tag(c, "sym=%d", opt.SymmetricMode == YES); vf_tag(c, "u=%g", opt.DiagPivotThresh); vf_tag(c, "nrhs=%d", nrhs);
    vf_tag(c, "expansions=%d", stat.expansions > 3 ? 3 : stat.expansions);
    vf_sig_u64(c, mat_pattern_hash(&A)); vf_sig_u64(c, (uint64_t)opt.ColPerm * 8 + (uint64_t)o.rowmajor * 4 + (uint64_t)(opt.SymmetricMode == YES));
    int have_factors = 0;
    if (info == 0) {
        have_factors = 1; vf_tag(c, "info=0");
        {   vf_snap i2, v2; snap_sparse(P, &SA, &i2, &v2);
            if (!snap_same(&a_idx, &i2) || !snap_same(&a_val, &v2)) vf_viol(c, "A-modified", "the simple driver changed the caller's matrix arrays");
            snap_free(&i2); snap_free(&v2); }
        if (!is_perm(perm_r, n) || !is_perm(perm_c, n)) vf_viol(c, "perm-not-bijection", "perm_r or perm_c is not a permutation on return with info=0");
        else {
            char why[200];
            if (structure_ok(P, &L, &U, n, n, 0, why, sizeof why)) vf_viol(c, "factors-malformed", "cannot evaluate the bound: %s", why);
            else {
                if (!dense_padding_intact(P, &SB, PAD)) vf_viol(c, "B-padding-written", "rows beyond n of B (ldb=%d > n=%d) were written", ldb, n);
                ldc *X = malloc(sizeof(ldc) * (size_t)n * (size_t)(nrhs + 1)); dense_read(P, &SB, X);
                ldc *Ld = malloc(sizeof(ldc) * (size_t)n * n), *Ud = malloc(sizeof(ldc) * (size_t)n * n); ld *E = malloc(sizeof(ld) * (size_t)n * n);
                expand_LU(P, &L, &U, n, n, Ld, Ud);
                absLU_orig(P, perm_r, perm_c, Ld, Ud, n, E);
                /* for row storage the factors are those of A^T: the bound and the operator are transposed */
                vf_mat AT; const vf_mat *M = &A; int tr = 0;
                if (o.rowmajor) { mat_transpose(&AT, &A); M = &AT; tr = 1; }
                ld cf = P->cplx ? 16 : 8, worst = 0;
                for (int j = 0; j < nrhs; j++) {
                    for (int i = 0; i < n; i++) if (!isfinite((double)creall(X[(size_t)j * n + i])) || !isfinite((double)cimagl(X[(size_t)j * n + i]))) { vf_viol(c, "X-nonfinite", "X(%d,%d) is not finite with info=0", i, j); break; }
                    ld q = solve_residual_ratio(P, M, tr, &X[(size_t)j * n], &B0[(size_t)j * n], E, cf);
                    if (!(q <= worst)) worst = q;
                }
                if (!(worst <= 1.0L)) vf_viol(c, "residual", "componentwise residual exceeds the factor-derived bound by a factor %.3Lg (c=%Lg, n=%d)", worst, cf, n);
                c->counters[0] += (long)(worst * 1000);   /* per-mille of the bound, for calibration */
                if ((long)(worst * 1000) > c->counters[1]) c->counters[1] = (long)(worst * 1000);
                if (o.rowmajor) mat_free(&AT);
                free(X); free(Ld); free(Ud); free(E);
                int ns, mx, mu; snode_stats(&L, &ns, &mx, &mu); vf_tag(c, "maxsnode=%d", mx > 4 ? 4 : mx);
                c->nontrivial = n >= 2 && nrhs >= 1;
            }
        }
    } else if (info > 0 && info <= n) { have_factors = 1; vf_tag(c, "info=singular"); }
    else if (info > n) vf_tag(c, "info=nomem");
    else { vf_tag(c, "info=negative"); vf_viol(c, "info-negative", "valid call returned info=%lld", (long long)info); }
    vf_sig_u64(c, (uint64_t)(info == 0));

    if (have_factors) { Destroy_SuperNode_Matrix(&L); Destroy_CompCol_Matrix(&U); }
    StatFree(&stat);
    free_sparse(&SA); free_dense(&SB);
    free(perm_c); free(perm_r); free(B0); snap_free(&a_idx); snap_free(&a_val); mat_free(&A);
    vf_check_ledger(c, "after gssv lifecycle");
}

VF_REGISTER("C01", c01_run)
