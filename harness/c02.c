/* C02 - factors reproduce the permuted matrix; pivoting bounds hold.
 * Routes: (a) sp_preorder + ?gstrf called directly (square and tall m > n, all orderings incl. MY_PERMC),
 *         (b) ?gssv (square, NC and NR: for NR the factors are those of A^T). */
#include "fact.h"

static void judge_r(vf_case *c, const vf_api *P, const vf_mat *F, const int *perm_r, const int *perm_c,
                  const SuperMatrix *L, const SuperMatrix *U, double u, const char *route, const int *reuse_perm_r);
static void judge(vf_case *c, const vf_api *P, const vf_mat *F, const int *perm_r, const int *perm_c,
                  const SuperMatrix *L, const SuperMatrix *U, double u, const char *route)
{ judge_r(c, P, F, perm_r, perm_c, L, U, u, route, NULL); }
/* reuse_perm_r: the row permutation handed to a SamePattern_SameRowPerm refactorization (columns that kept the remembered pivot are exempt
   from the diagonal-preference clause: "unless pivots of an earlier factorization are being reused") */
static void judge_r(vf_case *c, const vf_api *P, const vf_mat *F, const int *perm_r, const int *perm_c,
                  const SuperMatrix *L, const SuperMatrix *U, double u, const char *route, const int *reuse_perm_r)
{
    int m = F->m, n = F->n; char why[300];
    if (!is_perm(perm_r, m)) { vf_viol(c, "perm_r-not-bijection", "%s: perm_r is not a permutation of 0..%d", route, m - 1); return; }
    if (!is_perm(perm_c, n)) { vf_viol(c, "perm_c-not-bijection", "%s: perm_c is not a permutation of 0..%d", route, n - 1); return; }
    if (structure_ok(P, L, U, m, n, 0, why, sizeof why)) {
        vf_viol(c, "factors-malformed", "%s: %s", route, why);
        if (c->verbose) { const SCformat *Ls = L->Store; fprintf(stderr, "perm_r:"); for (int i = 0; i < m; i++) fprintf(stderr, " %d", perm_r[i]);
            fprintf(stderr, "\nL rowind:"); for (int_t k = 0; k < Ls->rowind_colptr[n]; k++) fprintf(stderr, " %lld", (long long)Ls->rowind[k]); fprintf(stderr, "\n"); }
        return; }
    ldc *Ld = malloc(sizeof(ldc) * (size_t)m * n), *Ud = malloc(sizeof(ldc) * (size_t)n * n);
    expand_LU(P, L, U, m, n, Ld, Ud);
    if (check_udiag(P, Ud, n, why, sizeof why)) vf_viol(c, "U-diagonal", "%s: %s", route, why);
    ld cf = P->cplx ? 16 : 8;
    ld q = factor_identity_ratio(P, F, perm_r, perm_c, Ld, Ud, n, cf);
    if (!(q <= 1.0L)) vf_viol(c, "factor-identity", "%s: |Pr*A*Pc - L*U| exceeds c*n*eps*|L||U| entrywise by a factor %.3Lg (c=%Lg, %dx%d)", route, q, cf, m, n);
    long pm = (long)(q * 1000); c->counters[0] += pm; if (pm > c->counters[1]) c->counters[1] = pm;
    ld wl;
    if (check_multipliers(P, Ld, m, n, u, why, sizeof why, &wl)) vf_viol(c, "multiplier-bound", "%s: %s", route, why);
    int dec, und;
    if (check_diag_preference_reuse(P, perm_r, perm_c, Ld, Ud, L, m, n, u, reuse_perm_r, &dec, &und, why, sizeof why)) vf_viol(c, "diagonal-preference", "%s: %s", route, why);
    c->counters[2] += dec; c->counters[3] += und;
    if (dec) vf_tag(c, "diagpref=decisive");
    if (wl > 1.5L) vf_tag(c, "multiplier>1");
    int ns, mx, mu; snode_stats(L, &ns, &mx, &mu); vf_tag(c, "maxsnode=%d", mx > 4 ? 4 : mx);
    free(Ld); free(Ud);
}

static void c02_run(vf_case *c)
{
    const vf_api *P = c->P; vf_rng *r = &c->rng; char buf[300];
    gen_spec g; run_opts o;
    int route = rng_bool(r, 0.7) ? 0 : 1;
    int big = c->tier && rng_bool(r, 0.01);
    gen_spec_random(r, P, &g, 1, big ? 300 : 50, 1);
    if (big) { g.pattern = PAT_GRID; g.n = g.m = rng_int(r, 150, 300); }
    if (g.pattern == PAT_RANDOM && rng_bool(r, 0.7)) g.pattern = PAT_RANDOM_DIAG;
    if (g.pattern == PAT_STAIR && rng_bool(r, 0.5)) g.pattern = PAT_BAND;
    int tall = route == 0 && rng_bool(r, 0.3);
    if (tall) g.m = g.n + rng_int(r, 1, 1 + g.n / 2);
    int straddle = !tall && !big && rng_bool(r, 0.08);     /* constructed: long supernodes cut by panel boundaries, U-segments that start inside them */
    if (straddle) { g.pattern = PAT_LOWERDENSE; g.n = g.m = rng_int(r, 20, 44); if (g.values == VAL_SMALLINT || g.values == VAL_POW2) g.values = VAL_UNIF; }
    vf_mat A; gen_matrix(r, P, &g, &A);
    if (straddle) {   /* rebuild the upper part: at most one entry per column, 3..7 rows above the diagonal */
        vf_mat B; B.m = B.n = A.n; int nn = A.n; B.colptr = malloc(sizeof(int_t) * (size_t)(nn + 1)); B.rowind = malloc(sizeof(int_t) * ((size_t)nn * nn + 1)); B.v = malloc(sizeof(ldc) * ((size_t)nn * nn + 1)); int_t q = 0;
        for (int j = 0; j < nn; j++) { B.colptr[j] = q; int up = (j >= 8 && rng_bool(r, 0.5)) ? j - rng_int(r, 3, 7) : -1;
            if (up >= 0) { B.rowind[q] = up; B.v[q++] = P->round((2 * rng_unif(r) - 1) + (P->cplx ? (2 * rng_unif(r) - 1) * I : 0)); }
            for (int i = j; i < nn; i++) { B.rowind[q] = i; ld re = 2 * rng_unif(r) - 1; if (i == j) re = re < 0 ? re - 2 : re + 2; B.v[q++] = P->round(re + (P->cplx ? (2 * rng_unif(r) - 1) * I : 0)); } }
        B.colptr[nn] = q; B.nnz = q; mat_free(&A); A = B; }
    gen_run_opts(r, &o, route == 1);
    if (tall && o.opt.ColPerm == MMD_AT_PLUS_A) o.opt.ColPerm = MMD_ATA;   /* A'+A needs a square matrix (documented) */
    if (big) o.tuning_small = 0;
    gen_tuning(r, o.tuning_small);
    /* long supernodes that straddle wide panels, natural order: the blocked within-panel update paths with partial segments */
    if (g.pattern == PAT_LOWERDENSE && rng_bool(r, 0.6)) { o.opt.ColPerm = NATURAL; o.my_permc = 0; o.opt.SymmetricMode = NO; vf_ienv_set(1, rng_int(r, 6, 8)); vf_ienv_set(3, rng_int(r, 5, 10)); vf_ienv_set(2, rng_int(r, 1, 2)); }
    if (straddle) { o.opt.ColPerm = NATURAL; o.opt.SymmetricMode = NO; o.rowmajor = 0; vf_ienv_set(1, rng_int(r, 6, 8)); vf_ienv_set(3, rng_int(r, 5, 9)); vf_ienv_set(7, 10); vf_ienv_set(2, 1); vf_tag(c, "constructed=straddle"); }
    o.my_permc = o.opt.ColPerm == MY_PERMC;
    gen_spec_str(&g, buf, sizeof buf); vf_desc(c, "route=%s %s; ", route ? "gssv" : "gstrf", buf);
    run_opts_str(&o, buf, sizeof buf); vf_desc(c, "%s; ", buf); tuning_str(buf, sizeof buf); vf_desc(c, "%s", buf);
    superlu_options_t opt; set_default_options(&opt);
    opt.ColPerm = o.opt.ColPerm; opt.DiagPivotThresh = o.opt.DiagPivotThresh; opt.SymmetricMode = o.opt.SymmetricMode; opt.PrintStat = NO;
    int n = A.n, m = A.m;
    int *mypc = malloc(sizeof(int) * (size_t)(n + 1)); rng_perm(r, mypc, n);
    vf_tag(c, "prec=%c", P->letter); vf_tag(c, "route=%s", route ? "gssv" : "gstrf"); vf_tag(c, "colperm=%s", colperm_names[opt.ColPerm]);
    vf_tag(c, "sym=%d", opt.SymmetricMode == YES); vf_tag(c, "u=%g", opt.DiagPivotThresh); vf_tag(c, "%s", tall ? "tall" : "square");
    vf_sig_u64(c, mat_pattern_hash(&A)); vf_sig_u64(c, (uint64_t)opt.ColPerm * 16 + (uint64_t)route * 8 + (uint64_t)o.rowmajor * 4 + (uint64_t)(opt.SymmetricMode == YES));
    int_t info;
    if (route == 0) {
        fact_run R; fact_do(P, &A, &opt, mypc, NULL, 0, 0, &R); info = R.info;
        vf_tag(c, "expansions=%d", R.stat.expansions > 3 ? 3 : R.stat.expansions);
        if (info == 0) { judge(c, P, &A, R.perm_r, R.perm_c, &R.L, &R.U, opt.DiagPivotThresh, "gstrf"); c->nontrivial = n >= 2; }
        else if (info < 0 || info > n) vf_viol(c, "info-unexpected", "gstrf returned info=%lld on a valid call (n=%d, library allocation)", (long long)info, n);
        /* refactorizations through the factor routine itself (square and tall): same pattern, new values; ordering + row pivots + storage reused
           (remembered pivots kept, or abandoned when they fail the threshold test), or ordering reused only */
        /* only for thresholds u >= 1e-3: a remembered pivot is kept whenever it passes u*max, so with u = 0 (outside the property's quantifier) or a
           tiny u unrelated new values give unbounded growth by design (single precision overflows within a few columns) */
        for (int step = 0; step < 2 && info == 0 && R.have_LU && n >= 2 && opt.DiagPivotThresh >= 1e-3 && rng_bool(r, step ? 0.4 : 0.45); step++) {
            int kind = rng_int(r, 0, 3); fact_t mode = rng_bool(r, 0.8) ? SamePattern_SameRowPerm : SamePattern;
            vf_mat A2; mat_revalue(r, P, &A, kind, R.perm_r, R.perm_c, &A2);
            int *pr_in = malloc(sizeof(int) * (size_t)(m + 1)); memcpy(pr_in, R.perm_r, sizeof(int) * (size_t)m);
            fact_redo(P, &A2, mode, NULL, 0, &R);
            const char *rn2 = mode == SamePattern ? (tall ? "gstrf-SamePattern-tall" : "gstrf-SamePattern") : (tall ? "gstrf-SameRowPerm-tall" : "gstrf-SameRowPerm");
            vf_tag(c, "refactor=%s", mode == SamePattern ? "SamePattern" : "SameRowPerm"); vf_tag(c, "refactor-%s", tall ? "tall" : "square"); vf_tag(c, "revalue=%d", kind);
            if (R.info == 0) {
                if (mode == SamePattern_SameRowPerm) vf_tag(c, memcmp(pr_in, R.perm_r, sizeof(int) * (size_t)m) ? "reuse=abandoned" : "reuse=kept");
                judge_r(c, P, &A2, R.perm_r, R.perm_c, &R.L, &R.U, opt.DiagPivotThresh, rn2, mode == SamePattern_SameRowPerm ? pr_in : NULL);
                c->counters[4]++;
            } else if (R.info < 0 || R.info > n) vf_viol(c, "info-unexpected", "%s returned info=%lld on a valid call", rn2, (long long)R.info);
            free(pr_in); mat_free(&A);  A = A2;
            if (R.info != 0) break;           /* a singular refactorization ends the chain (C04's subject) */
        }
        fact_free(&R);
    } else {
        SuperMatrix SA, SB, L, U; memset(&L, 0, sizeof L); memset(&U, 0, sizeof U);
        mk_sparse(P, &A, o.rowmajor, &SA); mk_dense(P, n, 0, n > 0 ? n : 1, NULL, &SB, 0);
        int *perm_c = malloc(sizeof(int) * (size_t)(n + 1)), *perm_r = malloc(sizeof(int) * (size_t)(n + 1));
        memcpy(perm_c, mypc, sizeof(int) * (size_t)n);
        SuperLUStat_t stat; StatInit(&stat);
        P->gssv(&opt, &SA, perm_c, perm_r, &L, &U, &SB, &stat, &info);
        vf_tag(c, "%s", o.rowmajor ? "NR" : "NC"); vf_tag(c, "expansions=%d", stat.expansions > 3 ? 3 : stat.expansions);
        if (info == 0) {
            vf_mat AT; const vf_mat *F = &A; if (o.rowmajor) { mat_transpose(&AT, &A); F = &AT; }
            judge(c, P, F, perm_r, perm_c, &L, &U, opt.DiagPivotThresh, o.rowmajor ? "gssv/NR" : "gssv/NC"); c->nontrivial = n >= 2;
            if (o.rowmajor) mat_free(&AT);
        } else if (info < 0 || info > n) vf_viol(c, "info-unexpected", "gssv returned info=%lld on a valid call", (long long)info);
        if (info >= 0 && info <= n) { Destroy_SuperNode_Matrix(&L); Destroy_CompCol_Matrix(&U); }
        StatFree(&stat); free_sparse(&SA); free_dense(&SB); free(perm_c); free(perm_r);
    }
    vf_tag(c, info == 0 ? "info=0" : "info=singular");
    vf_sig_u64(c, (uint64_t)(info == 0));
    free(mypc); mat_free(&A); (void)m;
    vf_check_ledger(c, "after factorization lifecycle");
}
VF_REGISTER("C02", c02_run)
