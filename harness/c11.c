/* C11 - equilibration factors (?gsequ) and their application (?laqgs) follow their definitions.
 *
 * Oracle (all reference arithmetic in long double, magnitude = |re|+|im|):
 *   info      first exactly-zero row i -> i+1; else first exactly-zero column j -> m+j+1; else 0.
 *             A non-zero column whose row-scaled maximum is < 4*denorm_min may be flushed to zero by the
 *             routine's working-precision product abs(a)*r: such columns are "undecided" and never asserted
 *             by the random workload; one pinned witness (case index 0) reports it under its own key.
 *   R         in [sfmin, 1/sfmin]; rowmax*R = 1 +- 4 eps, or the clamped reciprocal exactly when the row
 *             maximum lies outside [sfmin, 1/sfmin]. Same for C on diag(R)*A (with the returned R).
 *   rowcnd    min R / max R, colcnd = min C / max C (4 eps relative + denorm_min absolute), amax = max |a|.
 *   ?laqgs    letter follows THRESH = 0.1, SMALL = sfmin/prec, LARGE = 1/SMALL applied to the (rowcnd,
 *             colcnd, amax) it was given; either outcome of a comparison is accepted when the compared
 *             quantity is within 2 eps (relative) of the threshold; every stored value equals the original
 *             times the selected factors (2 eps relative, any association order incl. a subnormal
 *             intermediate), 'N' leaves the values bit-identical; r, c and the index arrays are unchanged.
 */
#include "vf.h"

typedef struct { int esub, enorm, emax; ld sml, big, den, SMALL, LARGE, T; } c11_fp;

static void c11_fp_init(const vf_api *P, c11_fp *F)
{
    if (P->rsz == 4) { F->esub = -149; F->enorm = -126; F->emax = 127; }
    else { F->esub = -1074; F->enorm = -1022; F->emax = 1023; }
    F->sml = ldexpl(1.0L, F->enorm); F->big = ldexpl(1.0L, -F->enorm); F->den = ldexpl(1.0L, F->esub);
    F->SMALL = F->sml / P->eps; F->LARGE = 1.0L / F->SMALL; F->T = 0.1L;
}

/* read a stored scalar without forming x + y*I (which turns an infinite part into NaN in the other part) */
static ldc c11_get(const vf_api *P, const void *a, size_t k)
{
    switch (P->prec) {
    case 0: return CMPLXL((ld)((const float *)a)[k], 0.0L);
    case 1: return CMPLXL((ld)((const double *)a)[k], 0.0L);
    case 2: return CMPLXL((ld)((const singlecomplex *)a)[k].r, (ld)((const singlecomplex *)a)[k].i);
    default: return CMPLXL((ld)((const doublecomplex *)a)[k].r, (ld)((const doublecomplex *)a)[k].i);
    }
}

/* k steps to the next representable number of the working precision */
static ld c11_step(const vf_api *P, ld x, int k)
{
    int a = k < 0 ? -k : k;
    if (P->rsz == 4) { float f = (float)x; for (int i = 0; i < a; i++) f = nextafterf(f, k > 0 ? INFINITY : -INFINITY); return (ld)f; }
    double d = (double)x; for (int i = 0; i < a; i++) d = nextafter(d, k > 0 ? INFINITY : -INFINITY); return (ld)d;
}
static ld c11_rnd(const vf_api *P, ld x) { return creall(P->round(x)); }

/* entry whose library magnitude is exactly M (M >= 0 representable). cmode: 0 real axis, 1 imaginary axis,
   2 |re| = |im| (where |re|+|im| and the modulus differ most), 3 mixed */
static ldc c11_exact_entry(const vf_api *P, vf_rng *r, ld M, int cmode)
{
    ld s1 = rng_bool(r, 0.5) ? 1.0L : -1.0L, s2 = rng_bool(r, 0.5) ? 1.0L : -1.0L;
    if (!P->cplx) return s1 * M;
    int k = cmode == 3 ? rng_int(r, 0, 2) : cmode;
    if (k == 2) { ld h = c11_rnd(P, M / 2); if (h > 0 && h + h == M) return s1 * h + s2 * h * I; k = 0; }
    if (k == 1) return 0.0L + s1 * M * I;
    return s1 * M + 0.0L * I;
}

static ld c11_mant(const vf_api *P, vf_rng *r)
{
    double u = rng_unif(r);
    if (u < 0.50) return 1.0L + (ld)rng_unif(r);
    if (u < 0.70) return 1.0L;
    if (u < 0.85) return 2.0L - P->eps;
    return 1.0L + P->eps * rng_int(r, 1, 3);
}
/* random entry of binary exponent e; |re|+|im| never exceeds the largest finite number */
static ldc c11_rand_entry(const vf_api *P, vf_rng *r, const c11_fp *F, int e, int cmode)
{
    if (e > F->emax) e = F->emax; if (e < F->esub) e = F->esub;
    ld re = ldexpl(c11_mant(P, r), e) * (rng_bool(r, 0.5) ? 1 : -1), im = 0;
    if (P->cplx) {
        int k = cmode == 3 ? rng_int(r, 0, 2) : cmode;
        if (cmode == 4) { k = 4; }
        if (k == 1) { im = re; re = 0; }
        else if (k == 2) { re = ldexpl(re, -1); im = rng_bool(r, 0.5) ? re : -re; }
        else if (k == 4) {                  /* general: independent parts, either may dominate */
            ld o = ldexpl(c11_mant(P, r), e - rng_int(r, 0, 6)) * (rng_bool(r, 0.5) ? 1 : -1);
            if (rng_bool(r, 0.5)) im = o; else { im = re; re = o; }
        }
    }
    ld cap = (P->cplx && re != 0 && im != 0) ? P->huge / 2 : P->huge;
    ldc v = P->round(re + im * I); re = creall(v); im = cimagl(v);
    if (!(fabsl(re) <= cap)) re = re < 0 ? -cap : cap;
    if (!(fabsl(im) <= cap)) im = im < 0 ? -cap : cap;
    if (re == 0 && im == 0) re = F->den;
    return re + im * I;
}

/* pattern with no empty row and no empty column (optionally a full first column) */
static void c11_cover_pattern(vf_rng *r, int m, int n, double p, int col0, vf_mat *A)
{
    unsigned char *pat = calloc((size_t)m * n + 1, 1);
    for (int i = 0; i < m; i++) pat[(size_t)(col0 ? 0 : rng_int(r, 0, n - 1)) * m + i] = 1;
    for (int j = 0; j < n; j++) pat[(size_t)j * m + rng_int(r, 0, m - 1)] = 1;
    for (size_t k = 0; k < (size_t)m * n; k++) if (rng_bool(r, p)) pat[k] = 1;
    int_t nnz = 0; for (size_t k = 0; k < (size_t)m * n; k++) nnz += pat[k];
    A->m = m; A->n = n; A->nnz = nnz;
    A->colptr = malloc(sizeof(int_t) * (size_t)(n + 1)); A->rowind = malloc(sizeof(int_t) * (size_t)(nnz + 1)); A->v = calloc((size_t)nnz + 1, sizeof(ldc));
    int shuffle = rng_bool(r, 0.3); int_t q = 0; int *tmp = malloc(sizeof(int) * (size_t)(m + 1));
    for (int j = 0; j < n; j++) {
        A->colptr[j] = q; int cnt = 0;
        for (int i = 0; i < m; i++) if (pat[(size_t)j * m + i]) tmp[cnt++] = i;
        if (shuffle) for (int a = cnt - 1; a > 0; a--) { int b = rng_int(r, 0, a); int t = tmp[a]; tmp[a] = tmp[b]; tmp[b] = t; }
        for (int a = 0; a < cnt; a++) A->rowind[q++] = tmp[a];
    }
    A->colptr[n] = q; free(tmp); free(pat);
}

static ld c11_below(const vf_api *P, vf_rng *r, ld M)
{
    ld f = ldexpl(0.5L + 0.5L * (ld)rng_unif(r), -rng_int(r, 0, 5));
    ld g = c11_rnd(P, M * f); if (g > M) g = M; return g;
}
/* rows get prescribed maxima M[i] (exactly representable): one holder entry per row carries it */
static void c11_fill_row_targets(const vf_api *P, vf_rng *r, vf_mat *A, const ld *M, int cmode)
{
    int *holder = malloc(sizeof(int) * (size_t)(A->m + 1)), *cnt = calloc((size_t)A->m + 1, sizeof(int));
    for (int i = 0; i < A->m; i++) holder[i] = -1;
    for (int_t k = 0; k < A->nnz; k++) { int i = (int)A->rowind[k]; cnt[i]++; if (rng_int(r, 1, cnt[i]) == 1) holder[i] = (int)k; }
    for (int_t k = 0; k < A->nnz; k++) { int i = (int)A->rowind[k];
        A->v[k] = c11_exact_entry(P, r, holder[i] == (int)k ? M[i] : c11_below(P, r, M[i]), cmode); }
    free(holder); free(cnt);
}
/* column 0 is full and holds the row maxima 2^rexp[i]; column j >= 1 has maximum t[j] <= 1 after exact row scaling */
static void c11_fill_col_targets(const vf_api *P, vf_rng *r, vf_mat *A, const int *rexp, const ld *t, int cmode)
{
    for (int j = 0; j < A->n; j++) {
        int_t lo = A->colptr[j], hi = A->colptr[j + 1];
        int_t holder = lo + rng_int(r, 0, (int)(hi - lo) - 1);
        for (int_t k = lo; k < hi; k++) { int i = (int)A->rowind[k];
            ld mag = j == 0 ? 1.0L : (k == holder ? t[j] : c11_below(P, r, t[j]));
            A->v[k] = c11_exact_entry(P, r, ldexpl(mag, rexp[i]), cmode); }
    }
}

/* remove (structurally) the entries of the flagged rows / columns */
static void c11_delete(vf_mat *A, const unsigned char *delrow, const unsigned char *delcol)
{
    int_t q = 0;
    for (int j = 0; j < A->n; j++) {
        int_t lo = A->colptr[j], hi = A->colptr[j + 1]; A->colptr[j] = q;
        for (int_t k = lo; k < hi; k++) if (!delcol[j] && !delrow[A->rowind[k]]) { A->rowind[q] = A->rowind[k]; A->v[q] = A->v[k]; q++; }
    }
    A->colptr[A->n] = q; A->nnz = q;
}

enum { VC_MOD, VC_WIDE, VC_ROWSC, VC_COLSC, VC_NEAROVF, VC_SUBN, VC_CHAOS, VC_THRROW, VC_THRAMAX, VC_THRCOL, VC_CLAMPROW, VC_CLAMPCOL, VC_WIT_UNDERFLOW, VC_WIT_BOVERFLOW, VC_WIT_ROWCND, VC__N };
static const char *c11_vc_names[] = { "moderate", "wide", "rowscaled", "colscaled", "nearoverflow", "subnormal", "fullrange", "thr-rowcnd", "thr-amax", "thr-colcnd", "clamp-row", "clamp-col", "witness-underflow", "witness-Boverflow", "witness-rowcnd" };

static ld c11_synth_ratio(const vf_api *P, vf_rng *r, const c11_fp *F)
{
    double u = rng_unif(r);
    if (u < 0.45) return c11_step(P, c11_rnd(P, F->T), rng_int(r, -7, 7));
    if (u < 0.60) return c11_rnd(P, (ld)rng_unif(r));
    if (u < 0.70) return 1.0L;
    if (u < 0.75) return 0.0L;
    if (u < 0.80) return rng_bool(r, 0.5) ? F->den : F->sml;
    if (u < 0.90) return c11_rnd(P, rng_bool(r, 0.5) ? 0.09L : 0.11L);
    return ldexpl(1.0L, -rng_int(r, 1, 30));
}
static ld c11_synth_amax(const vf_api *P, vf_rng *r, const c11_fp *F)
{
    double u = rng_unif(r);
    if (u < 0.35) return c11_step(P, F->SMALL, rng_int(r, -7, 7));
    if (u < 0.70) return c11_step(P, F->LARGE, rng_int(r, -7, 7));
    if (u < 0.80) return 1.0L;
    if (u < 0.85) return P->huge;
    if (u < 0.90) return F->den;
    return c11_rnd(P, ldexpl(c11_mant(P, r), rng_int(r, F->esub, F->emax)));
}
static int c11_near(const vf_api *P, ld x, ld T) { return fabsl(x - T) <= 2 * P->eps * T; }

static void c11_run(vf_case *c)
{
    const vf_api *P = c->P; vf_rng *r = &c->rng; c11_fp F; c11_fp_init(P, &F);
    if (F.sml != P->tiny) { vf_skip(c, "harness-constant-mismatch"); return; }
    const ld eps = P->eps;
    /* library findings that are reported only if nothing else is wrong with the case (so they cannot mask a new violation) */
    char dkey[64] = "", dmsg[560] = "";
#define C11_DEFER(key, ...) do { if (!dkey[0]) { snprintf(dkey, sizeof dkey, "%s", key); snprintf(dmsg, sizeof dmsg, __VA_ARGS__); } } while (0)
    vf_mat A; memset(&A, 0, sizeof A);
    int nmax = c->tier ? 60 : 30;
    int vclass, pinned = 0;
    int cmode = P->cplx ? (rng_bool(r, 0.5) ? 4 : rng_int(r, 0, 3)) : 0;      /* for random entries */
    int xmode = P->cplx ? rng_int(r, 0, 3) : 0;                                /* for exact-magnitude entries */
    static const int weights[VC__N] = { 10, 16, 8, 8, 10, 8, 8, 8, 8, 8, 8, 8, 0, 0, 0 };
    if (c->index == 0) { vclass = VC_WIT_UNDERFLOW; pinned = 1; }
    else if (c->index == 1) { vclass = VC_WIT_BOVERFLOW; pinned = 2; }
    else if (c->index == 2) { vclass = VC_WIT_ROWCND; pinned = 3; }
    else { int tot = 0; for (int i = 0; i < VC__N; i++) tot += weights[i]; int x = rng_int(r, 0, tot - 1); vclass = 0; while (x >= weights[vclass]) { x -= weights[vclass]; vclass++; } }

    char gbuf[200] = "";
    if (vclass == VC_WIT_UNDERFLOW) {
        /* 1 x 2: [ 2^h , 2^-h ]: the second column is not zero, but abs(a12)*r1 = 2^-2h underflows to 0 */
        int h = P->rsz == 4 ? 100 : 600;
        A.m = 1; A.n = 2; A.nnz = 2; A.colptr = malloc(sizeof(int_t) * 3); A.rowind = malloc(sizeof(int_t) * 3); A.v = calloc(3, sizeof(ldc));
        A.colptr[0] = 0; A.colptr[1] = 1; A.colptr[2] = 2; A.rowind[0] = A.rowind[1] = 0;
        A.v[0] = ldexpl(1.0L, h); A.v[1] = P->cplx ? ldexpl(1.0L, -h) * I : ldexpl(1.0L, -h);
        snprintf(gbuf, sizeof gbuf, "1x2 [2^%d, 2^-%d]", h, h);
    } else if (vclass == VC_WIT_BOVERFLOW) {
        /* diag(2^(esub+9), 1): r = (1/sfmin, 1), c = (2^14, 1), equed B, c1*r1 = 2^14/sfmin overflows */
        A.m = 2; A.n = 2; A.nnz = 2; A.colptr = malloc(sizeof(int_t) * 3); A.rowind = malloc(sizeof(int_t) * 3); A.v = calloc(3, sizeof(ldc));
        A.colptr[0] = 0; A.colptr[1] = 1; A.colptr[2] = 2; A.rowind[0] = 0; A.rowind[1] = 1;
        A.v[0] = ldexpl(1.0L, F.esub + 9); A.v[1] = P->cplx ? 1.0L * I : 1.0L;
        snprintf(gbuf, sizeof gbuf, "diag(2^%d, 1)", F.esub + 9);
    } else if (vclass == VC_WIT_ROWCND) {
        /* [a a; b b] with a = 2^(esub+9), b = 2^(esub+19), both below sfmin: R = (1/sfmin, 1/sfmin), so min R / max R = 1 */
        A.m = 2; A.n = 2; A.nnz = 4; A.colptr = malloc(sizeof(int_t) * 3); A.rowind = malloc(sizeof(int_t) * 5); A.v = calloc(5, sizeof(ldc));
        A.colptr[0] = 0; A.colptr[1] = 2; A.colptr[2] = 4; A.rowind[0] = 0; A.rowind[1] = 1; A.rowind[2] = 0; A.rowind[3] = 1;
        A.v[0] = A.v[2] = ldexpl(1.0L, F.esub + 9); A.v[1] = A.v[3] = P->cplx ? ldexpl(1.0L, F.esub + 19) * I : ldexpl(1.0L, F.esub + 19);
        snprintf(gbuf, sizeof gbuf, "[a a; b b] a=2^%d b=2^%d", F.esub + 9, F.esub + 19);
    } else if (vclass <= VC_CHAOS) {
        gen_spec g; gen_spec_random(r, P, &g, 1, nmax, 0); g.explicit_zeros = 0;
        int cover = rng_bool(r, 0.5);        /* half of the cases: no structurally empty row/column to begin with */
        if (cover) c11_cover_pattern(r, g.m, g.n, rng_unif(r) * 0.3, 0, &A); else gen_matrix(r, P, &g, &A);
        int m = A.m, n = A.n;
        int W = P->rsz == 4 ? 24 : 230;
        int *rho = calloc((size_t)m + 1, sizeof(int)), *gam = calloc((size_t)n + 1, sizeof(int));
        int c0 = 0, jit = 3;
        switch (vclass) {
        case VC_MOD: c0 = rng_int(r, -10, 10); jit = 8; break;
        case VC_WIDE: c0 = rng_int(r, F.enorm + 2 * W + 4, F.emax - 2 * W - 4);
            for (int i = 0; i < m; i++) rho[i] = rng_int(r, -W, W); for (int j = 0; j < n; j++) gam[j] = rng_int(r, -W, W); break;
        case VC_ROWSC: c0 = rng_int(r, F.enorm + 2 * W + 4, F.emax - 2 * W - 4); for (int i = 0; i < m; i++) rho[i] = rng_int(r, -2 * W, 2 * W); break;
        case VC_COLSC: c0 = rng_int(r, F.enorm + 2 * W + 4, F.emax - 2 * W - 4); for (int j = 0; j < n; j++) gam[j] = rng_int(r, -2 * W, 2 * W); break;
        case VC_NEAROVF: c0 = F.emax - 3; for (int i = 0; i < m; i++) rho[i] = rng_bool(r, 0.3) ? -rng_int(r, 0, 40) : 0; break;
        case VC_SUBN: c0 = F.esub + rng_int(r, 3, 22); jit = rng_int(r, 0, 3);
            for (int i = 0; i < m; i++) rho[i] = rng_int(r, -6, 6); for (int j = 0; j < n; j++) gam[j] = rng_int(r, -6, 6); break;
        default: break;
        }
        for (int j = 0; j < n; j++) for (int_t k = A.colptr[j]; k < A.colptr[j + 1]; k++) {
            int e = vclass == VC_CHAOS ? rng_int(r, F.esub, F.emax) : c0 + rho[A.rowind[k]] + gam[j] + rng_int(r, -jit, jit);
            A.v[k] = c11_rand_entry(P, r, &F, e, cmode);
        }
        free(rho); free(gam);
        snprintf(gbuf, sizeof gbuf, "%dx%d %s c0=%d", m, n, cover ? "cover" : pat_names[g.pattern], c0);
    } else {
        int m = rng_int(r, 1, 8), n = rng_int(r, 1, 8); if (rng_bool(r, 0.15)) { m = rng_int(r, 1, nmax); n = rng_int(r, 1, nmax); }
        int colclass = vclass == VC_THRCOL || vclass == VC_CLAMPCOL;
        if (colclass && n < 2) n = 2;
        if (vclass == VC_THRROW && m < 2) m = 2;
        c11_cover_pattern(r, m, n, rng_unif(r) * 0.6, colclass, &A);
        if (!colclass) {
            ld *M = malloc(sizeof(ld) * (size_t)m);
            if (vclass == VC_THRROW) {
                /* row maxima 2^k and 2^k * t, t a few ulps around 0.1: rowcnd = t exactly */
                int k = rng_int(r, -40, 40); ld t = c11_step(P, c11_rnd(P, F.T), rng_int(r, -7, 7));
                int a = rng_int(r, 0, m - 1), b; do b = rng_int(r, 0, m - 1); while (b == a);
                for (int i = 0; i < m; i++) M[i] = ldexpl(i == a ? 1.0L : i == b ? t : c11_rnd(P, t + (1 - t) * (ld)rng_unif(r)), k);
                snprintf(gbuf, sizeof gbuf, "%dx%d rowmax {2^%d, 2^%d*%.10Lg}", m, n, k, k, t);
            } else if (vclass == VC_THRAMAX) {
                /* largest entry a few ulps around SMALL or LARGE, row maxima within a factor 4 */
                int hi = rng_bool(r, 0.5); ld am = c11_step(P, hi ? F.LARGE : F.SMALL, rng_int(r, -7, 7));
                int a = rng_int(r, 0, m - 1);
                for (int i = 0; i < m; i++) { M[i] = i == a ? am : c11_rnd(P, am * (0.25L + 0.75L * (ld)rng_unif(r))); if (M[i] > am) M[i] = am; }
                snprintf(gbuf, sizeof gbuf, "%dx%d amax=%s*(1%+.3Lg)", m, n, hi ? "LARGE" : "SMALL", am / (hi ? F.LARGE : F.SMALL) - 1);
            } else {
                /* row maxima at and around the clamping bounds sfmin and 1/sfmin */
                for (int i = 0; i < m; i++) {
                    double u = rng_unif(r);
                    if (u < 0.25) M[i] = c11_step(P, F.sml, rng_int(r, -4, 4));
                    else if (u < 0.50) M[i] = c11_step(P, F.big, rng_int(r, -4, 4));
                    else if (u < 0.60) M[i] = ldexpl(F.sml, -rng_int(r, 1, 20));
                    else if (u < 0.70) M[i] = ldexpl(F.big, 1);
                    else if (u < 0.75) M[i] = P->huge;
                    else if (u < 0.80) M[i] = F.den * rng_int(r, 1, 9);
                    else M[i] = c11_rnd(P, ldexpl(c11_mant(P, r), rng_int(r, -30, 30)));
                }
                snprintf(gbuf, sizeof gbuf, "%dx%d rowmax around sfmin/bignum", m, n);
            }
            c11_fill_row_targets(P, r, &A, M, xmode);
            free(M);
        } else {
            int *rexp = malloc(sizeof(int) * (size_t)m); ld *t = malloc(sizeof(ld) * (size_t)n);
            for (int i = 0; i < m; i++) rexp[i] = vclass == VC_THRCOL ? rng_int(r, 0, 3) : rng_int(r, 0, 20);
            t[0] = 1;
            for (int j = 1; j < n; j++) {
                double u = rng_unif(r);
                if (vclass == VC_THRCOL) {
                    if (u < 0.6) t[j] = c11_step(P, c11_rnd(P, F.T), rng_int(r, -7, 7));
                    else if (u < 0.8) t[j] = 1; else t[j] = c11_rnd(P, 0.1L + 0.9L * (ld)rng_unif(r));
                } else {
                    if (u < 0.4) t[j] = c11_step(P, F.sml, rng_int(r, -4, 4));
                    else if (u < 0.6) t[j] = F.den * rng_int(r, 1, 9);
                    else if (u < 0.8) t[j] = ldexpl(F.sml, -rng_int(r, 1, 20));
                    else t[j] = c11_rnd(P, (ld)rng_unif(r) * 0.9L + 0.1L);
                }
            }
            c11_fill_col_targets(P, r, &A, rexp, t, xmode);
            snprintf(gbuf, sizeof gbuf, "%dx%d col0 = row maxima 2^k, other columns scaled maxima %s", m, n, vclass == VC_THRCOL ? "around 0.1" : "around sfmin");
            free(rexp); free(t);
        }
    }

    /* zero rows / columns anywhere, structural or explicit, possibly both kinds present */
    int zmode = 0;
    if (!pinned && rng_bool(r, 0.3) && A.nnz > 0) {
        int m = A.m, n = A.n;
        unsigned char *dr = calloc((size_t)m + 1, 1), *dc = calloc((size_t)n + 1, 1), *xr = calloc((size_t)m + 1, 1), *xc = calloc((size_t)n + 1, 1);
        int what = rng_int(r, 0, 2);            /* 0 rows, 1 columns, 2 both */
        int nr = what != 1 ? rng_int(r, 1, 2) : 0, nc = what != 0 ? rng_int(r, 1, 2) : 0;
        for (int t = 0; t < nr; t++) { int u = rng_int(r, 0, 3); int i = u == 0 ? 0 : u == 1 ? m - 1 : rng_int(r, 0, m - 1); if (rng_bool(r, 0.5)) dr[i] = 1; else xr[i] = 1; }
        for (int t = 0; t < nc; t++) { int u = rng_int(r, 0, 3); int j = u == 0 ? 0 : u == 1 ? n - 1 : rng_int(r, 0, n - 1); if (rng_bool(r, 0.5)) dc[j] = 1; else xc[j] = 1; }
        for (int j = 0; j < n; j++) for (int_t k = A.colptr[j]; k < A.colptr[j + 1]; k++) if (xc[j] || xr[A.rowind[k]]) {
            int z = rng_int(r, 0, 2); A.v[k] = z == 0 ? 0.0L : z == 1 ? -0.0L : (P->cplx ? 0.0L - 0.0L * I : -0.0L); }
        c11_delete(&A, dr, dc);
        zmode = 1 + what;
        free(dr); free(dc); free(xr); free(xc);
    } else if (!pinned && rng_bool(r, 0.1) && A.nnz > 0) {
        int t = rng_int(r, 1, 3); for (int q = 0; q < t; q++) A.v[rng_int(r, 0, (int)A.nnz - 1)] = 0;   /* stray explicit zeros */
    }

    const int m = A.m, n = A.n; const int_t nnz = A.nnz;
    vf_desc(c, "%s: %s; nnz=%lld zeroing=%d cmode=%d/%d", c11_vc_names[vclass], gbuf, (long long)nnz, zmode, cmode, xmode);
    vf_tag(c, "prec=%c", P->letter); vf_tag(c, "class=%s", c11_vc_names[vclass]);
    vf_tag(c, "shape=%s", m > n ? "tall" : m < n ? "wide" : "square");

    /* ---------------------------------------------------------------- reference quantities of A */
    ld *mag = malloc(sizeof(ld) * (size_t)(nnz + 1)), *rm = calloc((size_t)m + 1, sizeof(ld)), *cmag = calloc((size_t)n + 1, sizeof(ld));
    for (int j = 0; j < n; j++) for (int_t k = A.colptr[j]; k < A.colptr[j + 1]; k++) {
        mag[k] = abs1(A.v[k]); int i = (int)A.rowind[k];
        if (mag[k] > rm[i]) rm[i] = mag[k]; if (mag[k] > cmag[j]) cmag[j] = mag[k];
    }
    int zr = -1, zc = -1; ld amax_ref = 0;
    for (int i = m - 1; i >= 0; i--) { if (rm[i] == 0) zr = i; if (rm[i] > amax_ref) amax_ref = rm[i]; }
    for (int j = n - 1; j >= 0; j--) if (cmag[j] == 0) zc = j;

    /* ---------------------------------------------------------------- ?gsequ */
    SuperMatrix SA; mk_sparse(P, &A, 0, &SA);
    vf_snap idx0, val0; snap_sparse(P, &SA, &idx0, &val0);
    void *R = malloc(P->rsz * (size_t)m), *C = malloc(P->rsz * (size_t)n);
    void *prc = malloc(P->rsz), *pcc = malloc(P->rsz), *pam = malloc(P->rsz);
    for (int i = 0; i < m; i++) P->rset(R, (size_t)i, (ld)NAN); for (int j = 0; j < n; j++) P->rset(C, (size_t)j, (ld)NAN);
    P->rset(prc, 0, (ld)NAN); P->rset(pcc, 0, (ld)NAN); P->rset(pam, 0, (ld)NAN);
    int info = -777;
    P->gsequ(&SA, R, C, prc, pcc, pam, &info);
    ld rowcnd = P->rget(prc, 0), colcnd = P->rget(pcc, 0), amax = P->rget(pam, 0);
    vf_log(c, "gsequ: info=%d rowcnd=%.20Lg colcnd=%.20Lg amax=%.20Lg (expected zero row %d, zero col %d)", info, rowcnd, colcnd, amax, zr, zc);
    {   vf_snap i1, v1; snap_sparse(P, &SA, &i1, &v1);
        if (!snap_same(&idx0, &i1) || !snap_same(&val0, &v1)) vf_viol(c, "gsequ-modified-A", "?gsequ changed its input matrix");
        snap_free(&i1); snap_free(&v1); }

    int rows_valid = 0, cols_valid = 0, gated = 0;
    const char *infoclass = "?";
    if (zr >= 0) {
        infoclass = zc >= 0 ? "zero-row-and-col" : "zero-row";
        if (info != zr + 1) vf_viol(c, "info-zero-row", "row %d (1-based) is the first exactly-zero row of the %dx%d matrix%s but info=%d", zr + 1, m, n, zc >= 0 ? " (a zero column exists too; the row must be reported)" : "", info);
    } else if (info >= 1 && info <= m) vf_viol(c, "info-spurious-zero-row", "info=%d claims a zero row but every row has a non-zero entry (row max %.6Lg)", info, rm[info - 1]);
    else if (info < 0 || info > m + n) vf_viol(c, "info-out-of-range", "info=%d on a valid %dx%d call", info, m, n);
    else rows_valid = 1;

    ld *rv = malloc(sizeof(ld) * (size_t)(m + 1)), *cv = malloc(sizeof(ld) * (size_t)(n + 1));
    for (int i = 0; i < m; i++) rv[i] = P->rget(R, (size_t)i); for (int j = 0; j < n; j++) cv[j] = P->rget(C, (size_t)j);
    int clampR_lo = 0, clampR_hi = 0, clampC_lo = 0;
    if (rows_valid) {
        ld rmin = INFINITY, rmax = 0;
        for (int i = 0; i < m && c->verdict != 1; i++) {
            ld x = rv[i];
            if (!(x > 0) || !isfinite((double)x) || !(x >= F.sml) || !(x <= F.big)) { vf_viol(c, "R-range", "R(%d)=%.10Lg is not a positive finite number in [sfmin=%.4Lg, 1/sfmin=%.4Lg] (info=%d)", i + 1, x, F.sml, F.big, info); break; }
            if (rm[i] < F.sml) { clampR_lo++; if (x != F.big) vf_viol(c, "R-clamp-small-row", "row %d has maximum %.10Lg < sfmin, R must be the clamped reciprocal 1/sfmin=%.10Lg, got %.10Lg", i + 1, rm[i], F.big, x); }
            else if (rm[i] > F.big) { clampR_hi++; if (x != F.sml) vf_viol(c, "R-clamp-big-row", "row %d has maximum %.10Lg > 1/sfmin, R must be the clamped reciprocal sfmin=%.10Lg, got %.10Lg", i + 1, rm[i], F.sml, x); }
            else if (!(fabsl(rm[i] * x - 1) <= 4 * eps)) vf_viol(c, "R-rowmax-not-one", "row %d: max|a|=%.12Lg inside the safe range, R=%.12Lg, max|a|*R - 1 = %.3Lg (> 4 eps)", i + 1, rm[i], x, rm[i] * x - 1);
            if (x < rmin) rmin = x; if (x > rmax) rmax = x;
        }
        if (c->verdict != 1) {
            ld ref = rmin / rmax, rm_min = INFINITY; for (int i = 0; i < m; i++) if (rm[i] < rm_min) rm_min = rm[i];
            if (!(fabsl(rowcnd - ref) <= 4 * eps * ref + F.den)) {
                if (clampR_lo == m || clampR_hi == m) C11_DEFER("rowcnd-all-rows-clamped", "every row maximum lies %s (largest %.6Lg, smallest %.6Lg), all R(i) = %.6Lg so min R / max R = %.6Lg, but rowcnd=%.10Lg", clampR_lo == m ? "below sfmin" : "above 1/sfmin", amax_ref, rm_min, rmax, ref, rowcnd);
                else vf_viol(c, "rowcnd", "rowcnd=%.12Lg but min R / max R = %.12Lg (relative difference %.3Lg)", rowcnd, ref, (rowcnd - ref) / ref);
            }
            if (P->cplx ? !(fabsl(amax - amax_ref) <= eps * amax_ref) : !(amax == amax_ref)) vf_viol(c, "amax", "amax=%.12Lg but the largest |re|+|im| of the matrix is %.12Lg", amax, amax_ref);
        }
        if (c->verdict != 1) cols_valid = 1;
    }
    ld entmin = INFINITY; int nund = 0, nsub = 0;
    if (cols_valid) {
        /* column maxima of diag(R)*A with the returned R */
        ld *cm = calloc((size_t)n + 1, sizeof(ld));
        for (int j = 0; j < n; j++) for (int_t k = A.colptr[j]; k < A.colptr[j + 1]; k++) {
            ld x = mag[k] * rv[A.rowind[k]]; if (x > cm[j]) cm[j] = x; if (mag[k] != 0 && x < entmin) entmin = x; }
        int ju = -1;
        for (int j = n - 1; j >= 0; j--) if (cmag[j] != 0) { if (cm[j] < 4 * F.den) { ju = j; nund++; } else if (cm[j] < F.sml) nsub++; }
        if (info == 0) {
            infoclass = "none";
            if (zc >= 0) vf_viol(c, "info-zero-col-missed", "column %d (1-based) is exactly zero and no row is, but info=0", zc + 1);
        } else {
            int jl = info - m - 1;
            if (cmag[jl] == 0) { infoclass = "zero-col";
                if (jl != zc) vf_viol(c, "info-zero-col-not-first", "info=%d reports column %d but column %d is the first exactly-zero column", info, jl + 1, zc + 1); }
            else if (cm[jl] >= 4 * F.den) vf_viol(c, "info-spurious-zero-col", "info=%d (= m + %d) claims column %d is exactly zero, but it holds a non-zero entry and its row-scaled maximum is %.6Lg", info, jl + 1, jl + 1, cm[jl]);
            else { infoclass = "underflow-col";
                if (pinned == 1) vf_viol(c, "nonzero-col-reported-zero-underflow", "column %d holds the non-zero entry %.6Lg, but abs(a)*R(i) = %.6Lg underflows in working precision and ?gsequ returns info=%d (\"column %d exactly zero\")", jl + 1, cmag[jl], cm[jl], info, jl + 1);
                else gated = 1; }
            (void)ju;
        }
        if (info == 0 && c->verdict != 1) {
            ld cmin = INFINITY, cmax = 0;
            for (int j = 0; j < n && c->verdict != 1; j++) {
                ld x = cv[j];
                if (!(x > 0) || !isfinite((double)x) || !(x >= F.sml) || !(x <= F.big)) { vf_viol(c, "C-range", "C(%d)=%.10Lg is not a positive finite number in [sfmin, 1/sfmin]", j + 1, x); break; }
                if (cm[j] < F.sml) { clampC_lo++; if (x != F.big) vf_viol(c, "C-clamp-small-col", "column %d of diag(R)*A has maximum %.10Lg < sfmin, C must be 1/sfmin=%.10Lg, got %.10Lg", j + 1, cm[j], F.big, x); }
                else if (cm[j] > F.big) { if (x != F.sml) vf_viol(c, "C-clamp-big-col", "column %d of diag(R)*A has maximum %.10Lg > 1/sfmin, C must be sfmin, got %.10Lg", j + 1, cm[j], x); }
                else if (!(fabsl(cm[j] * x - 1) <= 4 * eps)) vf_viol(c, "C-colmax-not-one", "column %d: max|r_i a_ij|=%.12Lg inside the safe range, C=%.12Lg, product - 1 = %.3Lg (> 4 eps)", j + 1, cm[j], x, cm[j] * x - 1);
                if (x < cmin) cmin = x; if (x > cmax) cmax = x;
            }
            if (c->verdict != 1) {
                ld ref = cmin / cmax;
                if (!(fabsl(colcnd - ref) <= 4 * eps * ref + F.den)) vf_viol(c, "colcnd", "colcnd=%.12Lg but min C / max C = %.12Lg (relative difference %.3Lg)", colcnd, ref, (colcnd - ref) / ref);
            }
        }
        free(cm);
    }
    vf_tag(c, "info=%s", infoclass);
    if (cols_valid) vf_tag(c, "gate=%s", gated ? "undecided-col-reported" : nund ? "undecided-col-present" : nsub ? "subnormal-colmax" : entmin < F.sml ? "entry-underflow-only" : "full");
    if (clampR_lo) vf_tag(c, "clampR=low"); if (clampR_hi) vf_tag(c, "clampR=high"); if (clampC_lo) vf_tag(c, "clampC=low");
    int gsequ_ok = c->verdict != 1;
    int full_equ = gsequ_ok && info == 0;

    /* ---------------------------------------------------------------- ?laqgs */
    if (gsequ_ok) {
        int synth_rc = !full_equ, synth_sc = !full_equ || (!pinned && rng_bool(r, 0.45));
        if (synth_rc) {     /* factors in (2^-20, 1]: no association order of a*r*c can overflow in an intermediate */
            for (int i = 0; i < m; i++) { rv[i] = c11_rnd(P, ldexpl(1.0L + (ld)rng_unif(r), -rng_int(r, 1, 20))); P->rset(R, (size_t)i, rv[i]); }
            for (int j = 0; j < n; j++) { cv[j] = c11_rnd(P, ldexpl(1.0L + (ld)rng_unif(r), -rng_int(r, 1, 20))); P->rset(C, (size_t)j, cv[j]); }
        }
        if (synth_sc) {
            int w = full_equ ? rng_int(r, 1, 7) : 7;
            if (w & 1) rowcnd = c11_synth_ratio(P, r, &F);
            if (w & 2) colcnd = c11_synth_ratio(P, r, &F);
            if (w & 4) amax = c11_synth_amax(P, r, &F);
        }
        vf_tag(c, "laqgs-in=%s", synth_rc ? "synthetic-all" : synth_sc ? "gsequ-factors+synthetic-scalars" : "gsequ");
        /* documented rule, with both outcomes accepted next to a threshold */
        /* the ratio thresholds are decided exactly: rowcnd/colcnd are working-precision numbers handed over as they are, THRESH is the constant 0.1, and no
           float or double lies strictly between the real number 0.1 and the library's double constant, so "x < 0.1" has one answer (a routine that
           uses > where the rule says >= differs only for x == (working precision) 0.1: seed C11t); SMALL / LARGE are computed quantities and keep a band */
        int p_und[4] = { 0, c11_near(P, amax, F.SMALL), c11_near(P, amax, F.LARGE), 0 };
        if (c11_near(P, rowcnd, F.T)) vf_tag(c, "thr=rowcnd"); if (c11_near(P, colcnd, F.T)) vf_tag(c, "thr=colcnd");
        int p_val[4] = { rowcnd < F.T, amax < F.SMALL, amax > F.LARGE, colcnd < F.T };
        int rs_ok[2] = { 0, 0 }, cs_ok[2] = { 0, 0 };
        for (int b = 0; b < 8; b++) {
            int v[3], okc = 1;
            for (int q = 0; q < 3; q++) { v[q] = (b >> q) & 1; if (!p_und[q] && v[q] != p_val[q]) okc = 0; }
            if (okc) rs_ok[v[0] || v[1] || v[2]] = 1;
        }
        cs_ok[p_val[3]] = 1; if (p_und[3]) cs_ok[!p_val[3]] = 1;
        if (p_und[1]) vf_tag(c, "thr=small"); if (p_und[2]) vf_tag(c, "thr=large");
        if (!p_und[0] && fabsl(rowcnd - F.T) <= 8 * eps * F.T) vf_tag(c, "thrnear=rowcnd%s", p_val[0] ? "-below" : "-above");
        if (!p_und[3] && fabsl(colcnd - F.T) <= 8 * eps * F.T) vf_tag(c, "thrnear=colcnd%s", p_val[3] ? "-below" : "-above");
        if (!p_und[1] && fabsl(amax - F.SMALL) <= 8 * eps * F.SMALL) vf_tag(c, "thrnear=small%s", p_val[1] ? "-below" : "-above");
        if (!p_und[2] && fabsl(amax - F.LARGE) <= 8 * eps * F.LARGE) vf_tag(c, "thrnear=large%s", p_val[2] ? "-above" : "-below");

        vf_snap r0, c0s; snap_bytes(R, P->rsz * (size_t)m, &r0); snap_bytes(C, P->rsz * (size_t)n, &c0s);
        char equed[4] = { '?', '?', '?', 0 };
        P->laqgs(&SA, R, C, rowcnd, colcnd, amax, equed);
        char L = equed[0];
        vf_log(c, "laqgs(rowcnd=%.20Lg colcnd=%.20Lg amax=%.20Lg) -> '%c'", rowcnd, colcnd, amax, L);
        vf_tag(c, "equed=%c", (L == 'N' || L == 'R' || L == 'C' || L == 'B') ? L : 'X');
        int rs = L == 'R' || L == 'B', cs = L == 'C' || L == 'B';
        if (L != 'N' && L != 'R' && L != 'C' && L != 'B') vf_viol(c, "equed-invalid", "?laqgs returned equed=0x%02x", (unsigned char)L);
        else if (!rs_ok[rs]) vf_viol(c, "equed-row-rule", "equed='%c' (%s row scaling) contradicts the rule rowcnd < 0.1 || amax < SMALL || amax > LARGE with rowcnd=%.12Lg amax=%.12Lg SMALL=%.6Lg LARGE=%.6Lg (colcnd=%.12Lg)", L, rs ? "with" : "without", rowcnd, amax, F.SMALL, F.LARGE, colcnd);
        else if (!cs_ok[cs]) vf_viol(c, "equed-col-rule", "equed='%c' (%s column scaling) contradicts the rule colcnd < 0.1 with colcnd=%.12Lg (rowcnd=%.12Lg amax=%.12Lg)", L, cs ? "with" : "without", colcnd, rowcnd, amax);
        else {
            if (equed[1] != '?' || equed[2] != '?') vf_viol(c, "equed-overrun", "?laqgs wrote more than one character of equed");
            vf_snap r1, c1; snap_bytes(R, P->rsz * (size_t)m, &r1); snap_bytes(C, P->rsz * (size_t)n, &c1);
            if (!snap_same(&r0, &r1) || !snap_same(&c0s, &c1)) vf_viol(c, "laqgs-modified-factors", "?laqgs changed its input arrays r / c");
            snap_free(&r1); snap_free(&c1);
            vf_snap i1; snap_sparse(P, &SA, &i1, NULL);
            if (!snap_same(&idx0, &i1)) vf_viol(c, "laqgs-modified-structure", "?laqgs changed colptr/rowind/nnz");
            snap_free(&i1);
            NCformat *st = SA.Store; long novf = 0; int_t kovf = -1; ld t_ovf = 0;
            for (int j = 0; j < n && c->verdict != 1; j++) for (int_t k = A.colptr[j]; k < A.colptr[j + 1]; k++) {
                int i = (int)A.rowind[k]; ldc a = A.v[k], g = c11_get(P, st->nzval, (size_t)k);
                if (L == 'N') { if (creall(g) != creall(a) || cimagl(g) != cimagl(a))
                        { vf_viol(c, "scaled-value-N", "equed='N' but stored entry (%d,%d) changed from %.12Lg%+.12Lgi to %.12Lg%+.12Lgi", i + 1, j + 1, creall(a), cimagl(a), creall(g), cimagl(g)); break; }
                    continue; }
                ld f = (rs ? rv[i] : 1.0L) * (cs ? cv[j] : 1.0L);
                int bad = 0, ovf = 0;
                for (int part = 0; part < (P->cplx ? 2 : 1); part++) {
                    ld ac = part ? cimagl(a) : creall(a), gc = part ? cimagl(g) : creall(g), e = ac * f;
                    ld tol = 2 * eps * fabsl(e) + F.den * (L == 'B' ? 1 + fmaxl(fabsl(ac), fmaxl(rv[i], cv[j])) : 1);
                    if (!isfinite((double)gc) || isnan((double)gc)) {
                        if (fabsl(e) >= P->huge * (1 - 2 * eps) && !isnan((double)gc) && (gc > 0) == (e > 0)) continue;   /* the true product overflows */
                        if (L == 'B' && rv[i] * cv[j] > P->huge) ovf = 1; else bad = 1;
                    } else if (!(fabsl(gc - e) <= tol)) bad = 1;
                }
                if (bad) { vf_viol(c, "scaled-value", "equed='%c': entry (%d,%d) %.12Lg%+.12Lgi became %.12Lg%+.12Lgi, the selected factors (r=%.12Lg, c=%.12Lg) give %.12Lg%+.12Lgi", L, i + 1, j + 1,
                                   creall(a), cimagl(a), creall(g), cimagl(g), rs ? rv[i] : 1.0L, cs ? cv[j] : 1.0L, creall(a) * f, cimagl(a) * f); break; }
                if (ovf) { if (!novf) { kovf = k; t_ovf = f; } novf++; }
            }
            if (novf && c->verdict != 1) {
                int i = (int)A.rowind[kovf], j = 0; while (A.colptr[j + 1] <= kovf) j++;
                ldc a = A.v[kovf], g = c11_get(P, st->nzval, (size_t)kovf);
                C11_DEFER("laqgs-B-factor-product-overflow", "equed='B': entry (%d,%d)=%.6Lg%+.6Lgi times r*c=%.6Lg (r=%.6Lg, c=%.6Lg) is %.6Lg%+.6Lgi, but the routine forms c*r first, which overflows, and stores %.6Lg%+.6Lgi (%ld entries affected)",
                        i + 1, j + 1, creall(a), cimagl(a), t_ovf, rv[i], cv[j], creall(a) * t_ovf, cimagl(a) * t_ovf, creall(g), cimagl(g), novf);
                vf_tag(c, "B-overflow");
            }
        }
        snap_free(&r0); snap_free(&c0s);
    }

    /* ---------------------------------------------------------------- bookkeeping */
    {   uint64_t h = mat_pattern_hash(&A);
        for (int_t k = 0; k < nnz; k++) { double d[2] = { (double)creall(A.v[k]), (double)cimagl(A.v[k]) }; h = fnv64(h, d, sizeof d); }
        vf_sig_u64(c, h); vf_sig_u64(c, (uint64_t)vclass * 1000 + (uint64_t)(info > 0) * 100 + (uint64_t)gated);
        double sc[3] = { (double)rowcnd, (double)colcnd, (double)amax }; vf_sig(c, sc, sizeof sc); }
    if (dkey[0]) vf_viol(c, dkey, "%s", dmsg);
    c->nontrivial = c->verdict == 0 && nnz >= 2 && !gated;
    c->counters[0] += full_equ; c->counters[1] += (info > 0); c->counters[2] += gated; c->counters[3] += clampR_lo + clampR_hi + clampC_lo;

    free(mag); free(rm); free(cmag); free(rv); free(cv);
    free(R); free(C); free(prc); free(pcc); free(pam);
    snap_free(&idx0); snap_free(&val0);
    free_sparse(&SA); mat_free(&A);
    vf_check_ledger(c, "after gsequ/laqgs");
}

VF_REGISTER("C11", c11_run)
