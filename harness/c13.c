/* C13 - the backward error reported by the expert driver is the true backward error of the returned X.

   Route: ?gssvx (through xdrv) on generated nonsingular systems, IterRefine in {NOREFINE, SLU_SINGLE, SLU_DOUBLE, SLU_EXTRA}.
   Oracle, per right-hand side j, on the system that was actually factored (F = A_after or its stored transpose, B_after,
   X in the scaled variables):
     A  BERR(j) lies in the band [lo, hi] of the LAPACK componentwise backward error of X_returned/S evaluated in long
        double, where the band carries (i) the rounding of a working-precision residual: absolute 4(nz_i+2) eps and
        relative 2(nz_i+4) eps per row, (ii) the uncertainty of undoing the driver's final X *= S (one rounding per
        component, or half a subnormal), (iii) the safe1/safe2 branch of the formula, rows 0 = 0 contributing nothing.
     B  the same band without (ii), on the scaled iterate itself: column j is replayed alone through the real
        ?gstrs + ?gsrfs on copies; when the replay reproduces the driver's column bit for bit (X after scaling, BERR)
        the replayed scaled iterate IS the driver's and the band is sharp, also in the underflow range.
     FERR(j) finite and >= 0 (undecided when | |inv U||inv L| | * max S * max W * n * 1e3 reaches the overflow threshold:
     the estimator's solves may then overflow); stat.RefineSteps in 0..5, every replayed column takes <= 5 steps;
     reference-BLAS build only (there the first solve is column-independent bit for bit): stat.RefineSteps equals the
     replayed count of the last column, and a column must not depend on the columns before it;
     NOREFINE: ferr = berr = 1.0 exactly and X = S * (?gstrs solution), bitwise in the reference-BLAS build.
   Margins (u = eps/2): the library forms r^ = fl(b - op(F) x) with nz_i multiply-adds: |r^ - r|_i <= g(nz_i+2) w_i, for complex
   times 2 sqrt 2 for the products and sqrt 2 for |re|+|im| => < (1.5 nz_i + 7) u w_i; products that underflow add at most
   (nz_i+1) subnormal spacings; the denominator w^_i carries (nz_i+3) u relative; the quotient 2u. Hence per row
   |q^_i - q_i| <= 4(nz_i+2) eps + 2(nz_i+4) eps q_i (+ underflow), a factor >= 2 above the derivation, and
   |max_i q^_i - max_i q_i| <= max_i of that. The loop of ?gsrfs recomputes the residual at the top of every pass and leaves
   without touching X, so the last BERR is that of the final iterate. */
#include "fact.h"

typedef struct { ld lo, hi; int nsafe, nzero, namb, nrow; ld maxw; } c13_band;

/* op: 0 F, 1 F^T, 2 F^H, 3 conj(F).  dx: abs1-uncertainty of x per component, or NULL */
static void c13_band_eval(const vf_api *P, const vf_mat *F, int op, const ldc *x, const ld *dx, const ldc *b,
                          ld safe1, ld safe2, ld sfmin, ld denorm, c13_band *o)
{
    int n = F->n; memset(o, 0, sizeof *o);
    ldc *r = malloc(sizeof(ldc) * (size_t)(n + 1)); ld *w = malloc(sizeof(ld) * (size_t)(n + 1)), *d = calloc((size_t)n + 1, sizeof(ld));
    int *nz = calloc((size_t)n + 1, sizeof(int));
    for (int i = 0; i < n; i++) { r[i] = b[i]; w[i] = abs1(b[i]); }
    int rowwise = (op == 0 || op == 3);
    for (int cc = 0; cc < n; cc++) for (int_t q = F->colptr[cc]; q < F->colptr[cc + 1]; q++) {
        int rr = (int)F->rowind[q]; ldc f = F->v[q]; if (op >= 2) f = conjl(f);
        int row = rowwise ? rr : cc, xi = rowwise ? cc : rr;
        r[row] -= f * x[xi]; w[row] += abs1(f) * abs1(x[xi]); if (dx) d[row] += abs1(f) * dx[xi]; nz[row]++;
    }
    ld lo = 0, hi = 0;
    for (int i = 0; i < n; i++) {
        ld N = abs1(r[i]), W = w[i], D = d[i];
        if (W > o->maxw || W != W) o->maxw = W;
        if (W == 0 && D == 0) { o->nzero++; continue; }          /* a 0 = 0 row: skipped by the library's formula */
        ld Wlo = W - D, Whi = W + D;
        if (!(Wlo >= 2 * sfmin)) { o->namb++; hi = INFINITY; continue; }   /* denominator in the underflow range: nothing can be said */
        /* library: N^ = |r + dr| (+ safe1), W^ = W (1 + th) + ew with |dr| <= ta W + eu, |th| <= tr, |ew| <= eu, where
           ta, tr: rounding of a working-precision residual / denominator, eu: products that underflowed (absolute) */
        ld ta = 4 * (ld)(nz[i] + 2) * P->eps, tr = 2 * (ld)(nz[i] + 4) * P->eps, eu = 2 * (ld)(nz[i] + 2) * denorm;
        ld Nlo = N - D > 0 ? N - D : 0, Nhi = N + D;
        ld Dlo = Wlo * (1 - tr) - eu, Dhi = Whi * (1 + tr) + eu;
        ld h = (Nhi + (Wlo <= 2 * safe2 ? safe1 : 0) + eu + ta * Whi) / Dlo * (1 + tr);
        ld l = (Nlo + (Whi < safe2 / 2 ? safe1 : 0) - eu - ta * Whi) / Dhi * (1 - tr); if (!(l > 0)) l = 0;
        if (Whi < safe2 / 2) o->nsafe++;
        if (!(h <= hi)) hi = h;
        if (l > lo) lo = l;
        o->nrow++;
    }
    o->lo = lo; o->hi = hi;
    free(r); free(w); free(d); free(nz);
}

/* max(1-norm, inf-norm) of |inv(U)| |inv(L)| from the returned factors (long double): bounds every intermediate of the
   triangular solves with an O(1) right-hand side; INFINITY when a factor is singular */
static ld c13_amplification(const vf_api *P, const xdrv *D)
{
    int n = D->n; size_t nn = (size_t)n * (size_t)n;
    ldc *Ld = malloc(sizeof(ldc) * nn), *Ud = malloc(sizeof(ldc) * nn), *Li = malloc(sizeof(ldc) * nn), *Ui = malloc(sizeof(ldc) * nn), *M = calloc(nn, sizeof(ldc));
    expand_LU(P, &D->L, &D->U, n, n, Ld, Ud); ld amp = INFINITY;
    if (!dense_inverse(n, Ld, Li) && !dense_inverse(n, Ud, Ui)) {
        for (int j = 0; j < n; j++) for (int k = 0; k < n; k++) { ld l = cabsl(Li[(size_t)j * n + k]); if (l != 0) for (int i = 0; i < n; i++) M[(size_t)j * n + i] += cabsl(Ui[(size_t)k * n + i]) * l; }
        ld a = dense_norm1(n, M), b = dense_norminf(n, M); amp = a > b ? a : b;
        /* each triangular stage can overflow on its own although the composed map does not (tiny pivots with u = 0: huge L^-1,
           small U^-1), and partial sums inside a substitution are bounded by |T||T^-1| times its result: take the worst stage too */
        ld nLi = 0, nUi = 0, cL = 0, cU = 0; ld *rs1 = calloc((size_t)n, sizeof(ld)), *rs2 = calloc((size_t)n, sizeof(ld)), *cs1 = calloc((size_t)n, sizeof(ld)), *cs2 = calloc((size_t)n, sizeof(ld));
        for (int j = 0; j < n; j++) for (int i = 0; i < n; i++) { ld x = cabsl(Li[(size_t)j * n + i]), y = cabsl(Ui[(size_t)j * n + i]); rs1[i] += x; cs1[j] += x; rs2[i] += y; cs2[j] += y; }
        for (int i = 0; i < n; i++) { if (rs1[i] > nLi) nLi = rs1[i]; if (cs1[i] > nLi) nLi = cs1[i]; if (rs2[i] > nUi) nUi = rs2[i]; if (cs2[i] > nUi) nUi = cs2[i]; }
        memset(rs1, 0, sizeof(ld) * (size_t)n); memset(rs2, 0, sizeof(ld) * (size_t)n); memset(cs1, 0, sizeof(ld) * (size_t)n); memset(cs2, 0, sizeof(ld) * (size_t)n);
        for (int j = 0; j < n; j++) for (int k = 0; k < n; k++) { ld li = cabsl(Li[(size_t)j * n + k]), ui = cabsl(Ui[(size_t)j * n + k]);
            for (int i = 0; i < n; i++) { ld x = cabsl(Ld[(size_t)k * n + i]) * li, y = cabsl(Ud[(size_t)k * n + i]) * ui; rs1[i] += x; cs1[j] += x; rs2[i] += y; cs2[j] += y; } }
        for (int i = 0; i < n; i++) { if (rs1[i] > cL) cL = rs1[i]; if (cs1[i] > cL) cL = cs1[i]; if (rs2[i] > cU) cU = rs2[i]; if (cs2[i] > cU) cU = cs2[i]; }
        if (cL < 1) cL = 1; if (cU < 1) cU = 1;
        ld st = nLi * cL; if (nUi * cU > st) st = nUi * cU; if (nLi * cU > st) st = nLi * cU; if (nUi * cL > st) st = nUi * cL;
        if (st > amp) amp = st;
        free(rs1); free(rs2); free(cs1); free(cs2);
        if (!(amp == amp)) amp = INFINITY;
    }
    free(Ld); free(Ud); free(Li); free(Ui); free(M); return amp;
}

static int c13_same(ldc a, ldc b) { return creall(a) == creall(b) && cimagl(a) == cimagl(b); }
static int c13_finite(ldc a) { return isfinite((double)creall(a)) && isfinite((double)cimagl(a)); }

/* replays column b (already in the form handed to ?gstrs: scaled, conjugated for complex NR/CONJ) alone.
   xhat: the scaled iterate after ?gstrs (+ ?gsrfs when refine). returns 0 when both calls returned info 0 */
static int c13_replay(const vf_api *P, xdrv *D, SuperMatrix *AA, trans_t trant, const ldc *b, int refine,
                      ldc *xhat, ld *ferr, ld *berr, int *steps)
{
    int n = D->n, info = -99, rc = 0;
    SuperMatrix Bc, Xc; mk_dense(P, n, 1, n, b, &Bc, 0); mk_dense(P, n, 1, n, b, &Xc, 0);
    SuperLUStat_t st; StatInit(&st);
    void *fe = malloc(P->rsz * 2), *be = malloc(P->rsz * 2); P->rset(fe, 0, -5.0L); P->rset(be, 0, -5.0L);
    P->gstrs(trant, &D->L, &D->U, D->perm_c, D->perm_r, &Xc, &st, &info);
    if (info != 0) rc = 1;
    if (!rc && refine) {
        info = -99; st.RefineSteps = -1;
        P->gsrfs(trant, AA, &D->L, &D->U, D->perm_c, D->perm_r, D->equed, D->R, D->C, &Bc, &Xc, fe, be, &st, &info);
        if (info != 0) rc = 1;
    }
    dense_read(P, &Xc, xhat); *ferr = P->rget(fe, 0); *berr = P->rget(be, 0); *steps = st.RefineSteps;
    StatFree(&st); free(fe); free(be); free_dense(&Bc); free_dense(&Xc);
    return rc;
}

static void c13_run(vf_case *c)
{
    const vf_api *P = c->P; vf_rng *r = &c->rng; char buf[400];
    gen_spec g; run_opts o;
    gen_spec_random(r, P, &g, 1, 48, 1);
    static const int pats[] = { PAT_RANDOM_DIAG, PAT_RANDOM_DIAG, PAT_RANDOM_DIAG, PAT_BAND, PAT_ARROW, PAT_BLOCKDIAG, PAT_BLOCKTRI, PAT_PERMTRI, PAT_GRID, PAT_DENSE, PAT_DIAG, PAT_STAIR };
    g.pattern = rng_pick(r, pats, 12);
    static const int vals[] = { VAL_UNIF, VAL_UNIF, VAL_DIAGDOM, VAL_ROWSCALED, VAL_COLSCALED, VAL_BOTHSCALED, VAL_BOTHSCALED, VAL_GRADED, VAL_ROWSCALED, VAL_COLSCALED };
    g.values = rng_pick(r, vals, 10); g.explicit_zeros = 0; g.drop_diag = 0;
    if (P->rsz == 4) g.scale_exp = rng_int(r, 1, 4); else g.scale_exp = rng_int(r, 1, 20);
    if (g.pattern == PAT_DENSE && g.n > 24) g.n = g.m = rng_int(r, 2, 24);
    vf_mat A; gen_matrix(r, P, &g, &A);
    gen_run_opts(r, &o, 1);
    int n = A.n, nrhs = rng_int(r, 1, 3); o.nrhs = nrhs;
    o.opt.IterRefine = rng_bool(r, 0.18) ? NOREFINE : (IterRefine_t)rng_int(r, 1, 3);
    /* weak diagonal + small pivot threshold: the factorization keeps the (tiny) diagonal pivots, the first solve has a large
       backward error and refinement has real work to do (possibly more than it is allowed to) */
    int weak = rng_bool(r, 0.45), weak_k = 0, weak_e = 0;
    if (weak) {
        static const double us[] = { 0.0, 0.0, 1e-8, 1e-4, 1e-2 };
        o.opt.DiagPivotThresh = us[rng_int(r, 0, 4)];
        weak_k = rng_int(r, 1, n / 4 > 1 ? n / 4 : 1); int emax = P->rsz == 4 ? 6 : 14;
        for (int t = 0; t < weak_k; t++) {
            int j = rng_int(r, 0, n - 1), e = rng_int(r, 1, emax); if (e > weak_e) weak_e = e;
            for (int_t k = A.colptr[j]; k < A.colptr[j + 1]; k++) if ((int)A.rowind[k] == j) { ldc v = P->round(A.v[k] * powl(10.0L, -(ld)e)); if (v != 0) A.v[k] = v; }
        }
    }
    gen_tuning(r, o.tuning_small);
    gen_spec_str(&g, buf, sizeof buf); vf_desc(c, "%s; ", buf); run_opts_str(&o, buf, sizeof buf); vf_desc(c, "%s; weak=%d/%d; ", buf, weak_k, weak_e);
    tuning_str(buf, sizeof buf); vf_desc(c, "%s", buf);

    const ld ulib = P->mach("E"), sfmin = P->mach("S"), denorm = P->tiny * P->eps;
    const ld safe1 = (ld)(n + 1) * sfmin, safe2 = safe1 / ulib;

    /* right-hand sides */
    ldc *B0 = malloc(sizeof(ldc) * (size_t)n * (size_t)(nrhs + 1)); int bmode[4] = { 0, 0, 0, 0 };
    for (int j = 0; j < nrhs; j++) {
        int mode = rng_int(r, 0, 9); bmode[j] = mode;
        /* 0 zero column, 1-2 sparse, 3 tiny (below safe2), 4 badly scaled entries, 5 op-free product A*y, else dense */
        ld tinys = ldexpl(safe2, -rng_int(r, 3, P->rsz == 4 ? 18 : 40));
        ldc *y = malloc(sizeof(ldc) * (size_t)(n + 1)); for (int i = 0; i < n; i++) y[i] = (2 * rng_unif(r) - 1) + (P->cplx ? (2 * rng_unif(r) - 1) * I : 0);
        for (int i = 0; i < n; i++) {
            ld re = 2 * rng_unif(r) - 1, im = P->cplx ? 2 * rng_unif(r) - 1 : 0;
            if (mode == 0) re = im = 0;
            if ((mode == 1 || mode == 2) && rng_bool(r, 0.5)) re = im = 0;
            if (mode == 3) { re *= tinys; im *= tinys; if (rng_bool(r, 0.2)) re = im = 0; }
            if (mode == 4) { ld s = powl(10.0L, (ld)rng_int(r, -(P->rsz == 4 ? 6 : 15), P->rsz == 4 ? 6 : 15)); re *= s; im *= s; }
            B0[(size_t)j * n + i] = P->round(re + im * I);
        }
        if (mode == 5) {
            for (int i = 0; i < n; i++) B0[(size_t)j * n + i] = 0;
            for (int cc = 0; cc < n; cc++) for (int_t k = A.colptr[cc]; k < A.colptr[cc + 1]; k++) B0[(size_t)j * n + A.rowind[k]] += A.v[k] * y[cc];
            for (int i = 0; i < n; i++) B0[(size_t)j * n + i] = P->round(B0[(size_t)j * n + i]);
        }
        free(y);
    }
    xdrv D; xdrv_init(&D, P, &A, o.rowmajor, nrhs, o.ldpad, rng_int(r, 0, 3), B0, 0);
    superlu_options_t xo = o.opt; xo.Fact = DOFACT; xo.PrintStat = NO;
    if (xo.ColPerm == MY_PERMC) rng_perm(r, D.perm_c, n);

    xdrv_call(&D, &xo);

    int_t info = D.info; int refine = xo.IterRefine != NOREFINE; int steps = D.stat.RefineSteps;
    vf_tag(c, "prec=%c", P->letter); vf_tag(c, "%s", o.rowmajor ? "NR" : "NC"); vf_tag(c, "trans=%d", (int)xo.Trans); vf_tag(c, "equil=%d", xo.Equil == YES);
    vf_tag(c, "refine=%d", (int)xo.IterRefine); vf_tag(c, "equed=%c", D.equed[0]); vf_tag(c, "nrhs=%d", nrhs); vf_tag(c, "weak=%d", weak);
    vf_sig_u64(c, mat_pattern_hash(&A)); vf_sig_u64(c, (uint64_t)xo.Trans * 64 + (uint64_t)o.rowmajor * 32 + (uint64_t)(xo.Equil == YES) * 16 + (uint64_t)xo.ColPerm);
    vf_sig_u64(c, (uint64_t)D.equed[0] * 8 + (uint64_t)xo.IterRefine); vf_sig_u64(c, (uint64_t)nrhs * 16 + (uint64_t)bmode[0]);
    if (!(info == 0 || info == n + 1)) {
        if (info > 0 && info <= n) vf_tag(c, "info=singular"); else vf_viol(c, "info-unexpected", "gssvx returned info=%lld on a valid call (malloc mode)", (long long)info);
        goto done;
    }
    vf_tag(c, info ? "info=n+1" : "info=0");
    {
        int op = effective_op(o.rowmajor, xo.Trans), notranF = (op == 0 || op == 3);
        int rowequ = D.equed[0] == 'R' || D.equed[0] == 'B', colequ = D.equed[0] == 'C' || D.equed[0] == 'B';
        int scaleX = notranF ? colequ : rowequ; const void *Sv = notranF ? D.C : D.R;
        trans_t trant = !o.rowmajor ? xo.Trans : (xo.Trans == NOTRANS ? TRANS : NOTRANS);
        int nrconj = P->cplx && o.rowmajor && xo.Trans == CONJ;
        vf_mat F; xdrv_factored_matrix(&D, &F);
        /* the SLU_NC view the driver hands to ?gstrs/?gsrfs */
        SuperMatrix AAv, *AA = &D.A; const NCformat *st = D.A.Store;
        if (o.rowmajor) { P->Create_CompCol(&AAv, n, n, st->nnz, st->nzval, st->rowind, st->colptr, SLU_NC, P->dtype, SLU_GE); AA = &AAv; }
        ldc *X = malloc(sizeof(ldc) * (size_t)n * (size_t)(nrhs + 1)), *Bs = malloc(sizeof(ldc) * (size_t)n * (size_t)(nrhs + 1));
        dense_read(P, &D.X, X); dense_read(P, &D.B, Bs);
        {   /* the right-hand side of the factored system is B0 scaled as documented (C05 checks that B is returned that way);
               it is formed here from B0 so that a driver refining against some other B is seen */
            const void *Bv = notranF ? (rowequ ? D.R : NULL) : (colequ ? D.C : NULL); int differs = 0;
            for (int j = 0; j < nrhs; j++) for (int i = 0; i < n; i++) {
                ldc e = B0[(size_t)j * n + i]; if (Bv) e = mul_native(P, e, P->rget(Bv, (size_t)i));
                if (!c13_same(e, Bs[(size_t)j * n + i])) differs = 1;
                Bs[(size_t)j * n + i] = e;
            }
            if (differs) vf_tag(c, "B-after=not-as-documented");
        }
        ldc *xs = malloc(sizeof(ldc) * (size_t)(n + 1)), *xh = malloc(sizeof(ldc) * (size_t)(n + 1)), *bb = malloc(sizeof(ldc) * (size_t)(n + 1));
        ld *dx = malloc(sizeof(ld) * (size_t)(n + 1));
        int judgedA = 0, judgedB = 0, repro0 = 0, anysafe = 0, anyzero = 0, anylarge = 0, anyamb = 0;
        if (refine && !(steps >= 0 && steps <= 5)) vf_viol(c, "refine-steps-exceed-5", "stat.RefineSteps = %d after ?gssvx with IterRefine = %d (ITMAX is 5)", steps, (int)xo.IterRefine);
        for (int j = 0; j < nrhs; j++) {
            const ldc *xr = &X[(size_t)j * n], *bs = &Bs[(size_t)j * n];
            ld fe = P->rget(D.ferr, (size_t)j), be = P->rget(D.berr, (size_t)j);
            int finite = 1, bzero = 1;
            for (int i = 0; i < n; i++) { if (!c13_finite(xr[i]) || !c13_finite(bs[i])) finite = 0; if (bs[i] != 0) bzero = 0; }
            for (int i = 0; i < n; i++) bb[i] = nrconj ? conjl(bs[i]) : bs[i];
            ld fe2 = -1, be2 = -1; int st2 = -1;
            int rc = c13_replay(P, &D, AA, trant, bb, refine, xh, &fe2, &be2, &st2);
            /* does the replayed scaled iterate turn into the returned column under the driver's final scaling? */
            int sameX = !rc;
            for (int i = 0; i < n && sameX; i++) { ldc v = xh[i]; if (scaleX) v = mul_native(P, v, P->rget(Sv, (size_t)i)); if (nrconj) v = conjl(v); if (!c13_same(v, xr[i])) sameX = 0; }
            if (!refine) {
                if (!(fe == 1.0L && be == 1.0L)) vf_viol(c, "norefine-ferr-berr-not-one", "IterRefine = NOREFINE but ferr(%d) = %.17Lg, berr(%d) = %.17Lg", j, fe, j, be);
                if (!finite) { vf_tag(c, "X=nonfinite"); continue; }
                if (sameX) { c->counters[7]++; judgedB++; }
                else if (!c->variant_vendor) {
                    int k = 0; for (int i = 0; i < n; i++) { ldc v = xh[i]; if (scaleX) v = mul_native(P, v, P->rget(Sv, (size_t)i)); if (nrconj) v = conjl(v); if (!c13_same(v, xr[i])) { k = i; break; } }
                    vf_viol(c, "norefine-X-not-unrefined", "NOREFINE: X(%d,%d) = %.17Lg%+.17Lgi differs from S*(?gstrs solution) (scaled value %.17Lg%+.17Lgi, %s, trans=%d, equed=%c)", k, j,
                            creall(xr[k]), cimagl(xr[k]), creall(xh[k]), cimagl(xh[k]), o.rowmajor ? "NR" : "NC", (int)xo.Trans, D.equed[0]);
                } else {
                    /* vendor BLAS may block the driver's multi-column solve differently: accept any backward-stable unrefined solve.
                       The factor-derived bound says nothing in the underflow range (tiny columns): judged only for mid-range data */
                    int midrange = 1; ld lo_ = sqrtl(sfmin), hi_ = sqrtl(P->huge);
                    for (size_t t = 0; t < (size_t)n * (size_t)nrhs; t++) { ld a = abs1(X[t]), b_ = abs1(Bs[t]); if ((a != 0 && (a < lo_ || a > hi_)) || (b_ != 0 && (b_ < lo_ || b_ > hi_))) midrange = 0; }
                    if (midrange) { int nonfin; ld q = xdrv_scaled_residual(&D, xo.Trans, P->cplx ? 16 : 8, &nonfin);
                        if (!nonfin && !(q <= 1.0L)) vf_viol(c, "norefine-X-not-unrefined", "NOREFINE (vendor BLAS): residual of X exceeds the factor-derived bound by %.3Lg", q); }
                    vf_tag(c, "norefine-replay=inexact"); judgedB++;
                }
                continue;
            }
            /* ---- refinement enabled ---- */
            if (!finite) { vf_tag(c, "X=nonfinite"); continue; }
            int same = sameX && be2 == be;
            if (j == 0) repro0 = same;
            /* path A: band around the backward error of the returned column */
            for (int i = 0; i < n; i++) {
                ld s = scaleX ? P->rget(Sv, (size_t)i) : 1; xs[i] = xr[i] / s; dx[i] = 0;
                if (scaleX && !(bzero && xr[i] == 0)) {
                    ld a = fabsl(creall(xr[i])), b_ = fabsl(cimagl(xr[i]));
                    ld da = a >= 2 * sfmin ? a * ulib * 1.001L : denorm, db = P->cplx ? (b_ >= 2 * sfmin ? b_ * ulib * 1.001L : denorm) : 0;
                    dx[i] = (da + db) / s;
                }
            }
            c13_band bandA, bandB; c13_band_eval(P, &F, op, xs, scaleX ? dx : NULL, bs, safe1, safe2, sfmin, denorm, &bandA);
            int flagged = 0;
            if (!(bandA.maxw < P->huge / 16)) { vf_tag(c, "berr=overflow-range"); continue; }
            if (!(be >= 0) || !isfinite((double)be)) { vf_viol(c, "berr-not-finite-nonneg", "berr(%d) = %Lg", j, be); flagged = 1; }
            else if (be < bandA.lo) { flagged = 1; vf_viol(c, "berr-understated", "berr(%d) = %.6Lg but the returned X(:,%d) has componentwise backward error >= %.6Lg in the factored system (band [%.6Lg, %.6Lg], steps=%d, %s, trans=%d, equed=%c, rows safe/zero/amb %d/%d/%d)", j, be, j, bandA.lo, bandA.lo, bandA.hi, steps, o.rowmajor ? "NR" : "NC", (int)xo.Trans, D.equed[0], bandA.nsafe, bandA.nzero, bandA.namb); }
            else if (be > bandA.hi) { flagged = 1; vf_viol(c, "berr-overstated", "berr(%d) = %.6Lg but the returned X(:,%d) has componentwise backward error <= %.6Lg in the factored system (band [%.6Lg, %.6Lg], steps=%d, %s, trans=%d, equed=%c, rows safe/zero/amb %d/%d/%d)", j, be, j, bandA.hi, bandA.lo, bandA.hi, steps, o.rowmajor ? "NR" : "NC", (int)xo.Trans, D.equed[0], bandA.nsafe, bandA.nzero, bandA.namb); }
            judgedA++; c->counters[0]++;
            if (bandA.namb) { anyamb = 1; c->counters[4]++; }
            if (be > 1000 * P->eps) { anylarge = 1; c->counters[2]++; }
            /* FERR */
            if (!(fe >= 0) || !isfinite((double)fe)) {
                /* the estimator solves with O(1) vectors times S and with W = |r| + (nz+1) eps w + safe1: no overflow may be possible */
                ld amp = c13_amplification(P, &D), smax = 1, wmax = 2 * bandA.maxw + safe1; if (wmax < 1) wmax = 1;
                if (scaleX) for (int i = 0; i < n; i++) { ld s_ = P->rget(Sv, (size_t)i); if (s_ > smax) smax = s_; }
                if (c->verbose) fprintf(stderr, " ferr(%d) = %Lg: amplification |inv U||inv L| = %.3Lg, max S = %.3Lg, max W = %.3Lg\n", j, fe, amp, smax, wmax);
                if (isfinite((double)amp) && amp * smax * wmax * (ld)n * 1e3L < P->huge) vf_viol(c, "ferr-not-finite-nonneg", "ferr(%d) = %Lg (max|op(A)||x|+|b| = %.3Lg, | |inv U||inv L| | = %.3Lg, max S = %.3Lg)", j, fe, bandA.maxw, amp, smax);
                else vf_tag(c, "ferr=overflow-range");
            }
            /* path B: the replayed iterate is the driver's iterate */
            if (same) {
                for (int i = 0; i < n; i++) xs[i] = nrconj ? conjl(xh[i]) : xh[i];
                c13_band_eval(P, &F, op, xs, NULL, bs, safe1, safe2, sfmin, denorm, &bandB);
                judgedB++; c->counters[1]++;
                if (bandB.nsafe) { anysafe = 1; c->counters[5]++; }
                if (bandB.nzero) anyzero = 1;
                if (!flagged && be < bandB.lo) vf_viol(c, "berr-understated", "berr(%d) = %.6Lg but the scaled iterate (replayed bit for bit) has backward error >= %.6Lg (band [%.6Lg, %.6Lg], steps=%d, rows safe/zero/amb %d/%d/%d)", j, be, bandB.lo, bandB.lo, bandB.hi, st2, bandB.nsafe, bandB.nzero, bandB.namb);
                else if (!flagged && be > bandB.hi) vf_viol(c, "berr-overstated", "berr(%d) = %.6Lg but the scaled iterate (replayed bit for bit) has backward error <= %.6Lg (band [%.6Lg, %.6Lg], steps=%d, rows safe/zero/amb %d/%d/%d)", j, be, bandB.hi, bandB.lo, bandB.hi, st2, bandB.nsafe, bandB.nzero, bandB.namb);
                if (!(st2 >= 0 && st2 <= 5)) vf_viol(c, "refine-steps-exceed-5", "column %d alone takes %d refinement steps", j, st2);
                if (!c->variant_vendor && j == nrhs - 1 && st2 != steps) vf_viol(c, "refinesteps-not-last-rhs", "stat.RefineSteps = %d but the last right-hand side (%d of %d) takes %d steps when solved alone with identical X and BERR", steps, j, nrhs, st2);
            } else {
                c->counters[3]++;
                if (!c->variant_vendor && j > 0 && repro0) vf_viol(c, "rhs-coupling", "column %d of %d: X/BERR differ from the same column solved alone (berr %.6Lg vs %.6Lg, alone %d steps; driver reports %d for the last column) although column 0 is reproduced bit for bit", j, nrhs, be, be2, st2, steps);
                else vf_tag(c, "replay=mismatch");
            }
            if (c->verbose) fprintf(stderr, " rhs %d (bmode %d): berr=%.6Lg ferr=%.6Lg bandA=[%.6Lg,%.6Lg] replay: same=%d berr2=%.6Lg steps2=%d | rows safe/zero/amb %d/%d/%d\n", j, bmode[j], be, fe, bandA.lo, bandA.hi, same, be2, st2, bandA.nsafe, bandA.nzero, bandA.namb);
        }
        if (refine) {
            vf_tag(c, "steps=%d", steps); if (steps == 5) c->counters[6]++;
            if (judgedA) { vf_tag(c, anylarge ? "berr=large" : "berr=eps-level"); if (anysafe) vf_tag(c, "rows=safe-branch"); if (anyzero) vf_tag(c, "rows=zero"); if (anyamb) vf_tag(c, "rows=ambiguous"); }
            if (judgedB) vf_tag(c, "replay=exact");
            { int z = 0, t = 0; for (int j = 0; j < nrhs; j++) { if (bmode[j] == 0) z = 1; if (bmode[j] == 3) t = 1; } if (z) vf_tag(c, "bcol=zero"); if (t) vf_tag(c, "bcol=tiny"); }
            vf_sig_u64(c, (uint64_t)steps * 4 + (uint64_t)anylarge * 2 + (uint64_t)anysafe);
            c->nontrivial = n >= 2 && judgedA > 0;
        } else { c->nontrivial = n >= 2 && judgedB > 0; }
        if (o.rowmajor) Destroy_SuperMatrix_Store(&AAv);
        free(X); free(Bs); free(xs); free(xh); free(bb); free(dx); mat_free(&F);
    }
done:
    free(B0); xdrv_free(&D); mat_free(&A);
    vf_check_ledger(c, "after gssvx + replay lifecycle");
}
VF_REGISTER("C13", c13_run)
