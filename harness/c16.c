/* C16 - matrix file readers return exactly the matrix in the file.
 *
 * The file writer below is the reference: it keeps the matrix it rendered (values = strtod / strtof of the
 * exact text printed, D exponents read as E).  Readers: ?readhb (FILE*), ?readrb (stdin), ?readMM (FILE*),
 * ?readtriple (stdin), dreadtriple_noheader (stdin, double only).
 *
 * Cases that carry a "hazard" (an encoding feature for which the unchanged library is known to corrupt memory,
 * abort or spin) run the reader in a forked child so that the finding gets a precise stable key and the worker
 * survives; every other case calls the reader in-process (a crash there is attributed by the supervisor). */
#include "vf.h"
#include <unistd.h>
#include <fcntl.h>
#include <signal.h>
#include <ctype.h>
#include <stdarg.h>
#include <sys/wait.h>
#include <sys/time.h>
#include <sys/stat.h>

extern void dreadtriple_noheader(int *, int *, int_t *, double **, int_t **, int_t **);

enum { F_HB, F_RB, F_MM, F_TRI, F_TRINH };
static const char *c16_fmtname[] = { "HB", "RB", "MM", "TRI", "TRINH" };

typedef struct { int i, j; double re, im; float ref[2], imf[2]; } c16_ent;   /* 0-based; value candidates */

typedef struct { char *b; size_t n, cap; } c16_sb;
static void sb_put(c16_sb *s, const char *t, size_t l)
{
    if (s->n + l + 1 > s->cap) { s->cap = (s->n + l + 1) * 2 + 256; s->b = realloc(s->b, s->cap); }
    memcpy(s->b + s->n, t, l); s->n += l; s->b[s->n] = 0;
}
static void sb_printf(c16_sb *s, const char *fmt, ...) __attribute__((format(printf, 2, 3)));
static void sb_printf(c16_sb *s, const char *fmt, ...)
{
    char t[1400]; va_list ap; va_start(ap, fmt); int l = vsnprintf(t, sizeof t, fmt, ap); va_end(ap);
    if (l < 0) return; if ((size_t)l >= sizeof t) l = (int)sizeof t - 1;
    sb_put(s, t, (size_t)l);
}

/* ------------------------------------------------------------------ value text */
typedef struct {
    int kind;        /* 0 Fortran E/D field, 1 Fortran F field, 2 C text (Matrix Market / triplet) */
    int w, d;        /* Fortran field width / digits after the point */
    int pform;       /* 0 no scale factor, 1 (1PkEw.d), 2 (1P,kEw.d): mantissa printed as d.ddd */
    int exp3;        /* Ew.dE3: three exponent digits */
    char explet;     /* exponent letter written in the data: E D e d */
    int mixlet;      /* vary the exponent letter per value */
    int single;      /* working precision is single */
    int emax;        /* decimal exponent range of generated magnitudes */
    int tight;       /* minimal-width fields on non-negative data: a value may fill its field completely, so that adjacent fields touch
                        (digits of one value directly followed by the first digit of the next) - legal fixed-width Fortran output */
} c16_vstyle;

static double c16_rawvalue(vf_rng *r, int emax)
{
    int cls = rng_int(r, 0, 9);
    double v;
    if (cls <= 1) v = (double)rng_int(r, -20, 20);
    else if (cls <= 5) v = 2 * rng_unif(r) - 1;
    else if (cls <= 7) { v = (1 + 9 * rng_unif(r)) * pow(10.0, (double)rng_int(r, -emax, emax)); if (rng_bool(r, 0.5)) v = -v; }
    else if (cls == 8) v = 0.0;
    else v = rng_bool(r, 0.5) ? 1.0 : -1.0;
    return v;
}

/* parse the text the way a Fortran/C reader must: D exponent == E exponent */
static void c16_parse(const char *text, double *vd, float vf[2])
{
    char t[96]; size_t k = 0;
    for (const char *p = text; *p && k + 1 < sizeof t; p++) { char ch = *p; if (ch == 'D' || ch == 'd') ch = 'E'; t[k++] = ch; }
    t[k] = 0;
    *vd = strtod(t, NULL);
    vf[0] = (float)*vd; vf[1] = strtof(t, NULL);
}

/* one value field; out receives exactly w characters for Fortran kinds, a token for C text */
static void c16_value_text(vf_rng *r, const c16_vstyle *s, char *out, size_t outn, double *vd, float vf[2])
{
    double v = c16_rawvalue(r, s->emax);
    if (s->tight) v = fabs(v);
    char body[96];
    if (s->kind == 0) {
        int sig = s->pform ? s->d + 1 : s->d; if (sig < 1) sig = 1;
        char t[64]; snprintf(t, sizeof t, "%.*E", sig - 1, fabs(v));
        char dig[40]; int nd = 0; const char *p = t;
        for (; *p && *p != 'E'; p++) if (isdigit((unsigned char)*p) && nd < 39) dig[nd++] = *p;
        dig[nd] = 0;
        int e = (*p == 'E') ? atoi(p + 1) : 0;
        int allzero = 1; for (int q = 0; q < nd; q++) if (dig[q] != '0') allzero = 0;
        char mant[48]; int ex;
        if (s->pform) { snprintf(mant, sizeof mant, "%c.%s", dig[0], dig + 1); ex = allzero ? 0 : e; }
        else { snprintf(mant, sizeof mant, "0.%s", dig); ex = allzero ? 0 : e + 1; }
        char let = s->explet;
        if (s->mixlet) { static const char L[4] = { 'E', 'D', 'e', 'd' }; let = L[rng_int(r, 0, 3)]; }
        int lim = s->exp3 ? 999 : 99;
        if (ex > lim || ex < -lim) { /* cannot happen with the emax bounds; stay legal anyway */ ex = 0; }
        const char *sign = v < 0 ? "-" : "";
        snprintf(body, sizeof body, "%s%s%c%c%0*d", sign, mant, let, ex < 0 ? '-' : '+', s->exp3 ? 3 : 2, abs(ex));
        if (v >= 0 && (int)strlen(body) + 1 <= s->w && rng_bool(r, 0.04)) { memmove(body + 1, body, strlen(body) + 1); body[0] = '+'; }
        snprintf(out, outn, "%*s", s->w, body);
    } else if (s->kind == 1) {
        int intd = s->w - s->d - 2 + (s->tight ? 1 : 0); if (intd > 8) intd = 8;
        if (intd < 1) v = 0.0;
        else if (fabs(v) >= 1.0) { v = (2 * rng_unif(r) - 1) * pow(10.0, (double)rng_int(r, 0, intd)); if (fabs(v) >= pow(10.0, (double)intd) * 0.99) v = 1.0; }
        if (s->tight) v = fabs(v);
        snprintf(body, sizeof body, "%#*.*f", s->w, s->d, v);
        if ((int)strlen(body) != s->w) snprintf(body, sizeof body, "%#*.*f", s->w, s->d, 0.0);
        snprintf(out, outn, "%s", body);
    } else {
        int st = rng_int(r, 0, 5); int pr = rng_int(r, 1, s->single ? 9 : 17);
        if (st == 0) snprintf(body, sizeof body, "%.*g", pr, v);
        else if (st == 1) snprintf(body, sizeof body, "%.*e", pr - 1, v);
        else if (st == 2) snprintf(body, sizeof body, "%.*E", pr - 1, v);
        else if (st == 3) { if (fabs(v) > 1e6) v = fmod(v, 1e6); snprintf(body, sizeof body, "%.*f", rng_int(r, 0, 8), v); }
        else if (st == 4) snprintf(body, sizeof body, "%.17g", v);
        else snprintf(body, sizeof body, "%d", (int)(fmod(v, 1000.0)));
        if (body[0] != '-' && rng_bool(r, 0.04)) snprintf(out, outn, "+%s", body); else snprintf(out, outn, "%s", body);
    }
    c16_parse(out, vd, vf);
}

/* ------------------------------------------------------------------ the generated file */
typedef struct {
    int fmt, m, n, cplx, sym;
    int nst; c16_ent *st;        /* stored entries in file order (i, j as the file means them, 0-based) */
    int nfull; c16_ent *full;    /* the matrix the file denotes (symmetric storage expanded) */
    const char *hazard;          /* stable finding key if this encoding is a known trap, else NULL */
    const char *hazard_asan;     /* key to use instead when the child dies with a heap overflow report (a second trap behind the first) */
    char path[80], dir[64];
    c16_sb text;
} c16_file;

static int ent_cmp_ji(const void *a, const void *b)
{
    const c16_ent *x = a, *y = b;
    if (x->j != y->j) return x->j < y->j ? -1 : 1;
    if (x->i != y->i) return x->i < y->i ? -1 : 1;
    return 0;
}

/* pattern: list of (i,j) column by column; sym -> lower triangle only; diagmode 0 all diagonals, 1 some absent, 2 none */
static int c16_pattern(vf_rng *r, int m, int n, int sym, int diagmode, int sorted, c16_ent **out)
{
    int cap = m * n + 2; c16_ent *e = calloc((size_t)cap, sizeof *e); int k = 0;
    int dens = rng_int(r, 0, 9);  /* 0 full, 1-5 sparse, 6-8 medium, 9 with empty columns */
    int *rows = malloc(sizeof(int) * (size_t)(m + 1));
    int missing = 0;
    for (int j = 0; j < n; j++) {
        int lo = sym ? j : 0, len = m - lo, nr = 0; if (len <= 0) continue;
        double target = dens == 0 ? len : dens <= 5 ? 1.0 + 2 * rng_unif(r) : dens <= 8 ? 0.4 * len + 1 : (rng_bool(r, 0.4) ? 0 : 2.0);
        double p = target / len; if (p > 1) p = 1;
        for (int i = lo; i < m; i++) {
            if (sym && i == j) continue;
            if (rng_bool(r, p)) rows[nr++] = i;
        }
        if (sym) {
            int have = diagmode == 0 ? 1 : diagmode == 2 ? 0 : rng_bool(r, 0.6);
            if (have) rows[nr++] = j; else missing++;
        }
        if (sorted) { for (int a = 1; a < nr; a++) { int t = rows[a], b = a; while (b > 0 && rows[b - 1] > t) { rows[b] = rows[b - 1]; b--; } rows[b] = t; } }
        else { for (int a = nr - 1; a > 0; a--) { int b = rng_int(r, 0, a), t = rows[a]; rows[a] = rows[b]; rows[b] = t; } }
        for (int a = 0; a < nr; a++) { e[k].i = rows[a]; e[k].j = j; k++; }
    }
    if (sym && diagmode == 1 && missing == 0 && n >= 1) {
        /* force one absent diagonal: remove the first diagonal entry */
        for (int a = 0; a < k; a++) if (e[a].i == e[a].j) { memmove(&e[a], &e[a + 1], sizeof *e * (size_t)(k - a - 1)); k--; break; }
    }
    if (k == 0) { /* at least one stored entry */
        if (sym && diagmode != 0 && n >= 2) { e[0].i = 1; e[0].j = 0; } else { e[0].i = 0; e[0].j = 0; }
        k = 1;
    }
    free(rows); *out = e; return k;
}

static void c16_fill_values(vf_rng *r, const c16_vstyle *vs, int cplx, c16_ent *e, char (*retext)[64], char (*imtext)[64], int k)
{
    for (int a = 0; a < k; a++) {
        c16_value_text(r, vs, retext[a], 64, &e[a].re, e[a].ref);
        if (cplx) c16_value_text(r, vs, imtext[a], 64, &e[a].im, e[a].imf);
        else { imtext[a][0] = 0; e[a].im = 0; e[a].imf[0] = e[a].imf[1] = 0; }
    }
}

static void c16_make_full(c16_file *F)
{
    F->full = malloc(sizeof(c16_ent) * (size_t)(2 * F->nst + 1)); int k = 0;
    for (int a = 0; a < F->nst; a++) {
        F->full[k++] = F->st[a];
        if (F->sym && F->st[a].i != F->st[a].j) { F->full[k] = F->st[a]; F->full[k].i = F->st[a].j; F->full[k].j = F->st[a].i; k++; }
    }
    F->nfull = k;
    qsort(F->full, (size_t)k, sizeof(c16_ent), ent_cmp_ji);
}

static int ndigits(long v) { int d = 1; while (v >= 10) { v /= 10; d++; } return d; }

/* write `cnt` fixed-width fields, k per line */
static int c16_emit_fields(c16_sb *s, char (*fld)[64], int cnt, int k)
{
    int lines = 0;
    for (int a = 0; a < cnt; a++) {
        sb_put(s, fld[a], strlen(fld[a]));
        if ((a + 1) % k == 0 || a + 1 == cnt) { sb_put(s, "\n", 1); lines++; }
    }
    return lines;
}

static void pad_line(c16_sb *s, const char *content, int width)
{
    int l = (int)strlen(content);
    sb_put(s, content, (size_t)l);
    for (; l < width; l++) sb_put(s, " ", 1);
    sb_put(s, "\n", 1);
}

static void random_title(vf_rng *r, char *t, int n)
{
    static const char alpha[] = "ABCDEFGHIJKLMNOPQRSTUVWXYZ abcdefghijklmnopqrstuvwxyz 0123456789 -_.,:;()/+*=";
    int l = rng_int(r, 0, n);
    for (int a = 0; a < n; a++) t[a] = a < l ? alpha[rng_int(r, 0, (int)sizeof alpha - 2)] : ' ';
    t[n] = 0;
}

/* ---- Harwell-Boeing / Rutherford-Boeing */
static void c16_gen_hbrb(vf_case *c, c16_file *F)
{
    vf_rng *r = &c->rng; const vf_api *P = c->P;
    int rb = F->fmt == F_RB;
    int nmax = c->tier && rng_bool(r, 0.05) ? 120 : 40;
    int n = rng_int(r, 1, rng_bool(r, 0.3) ? 6 : nmax), m = n;
    int kindsel = rng_int(r, 0, 99);
    int sym = kindsel < 38, rect = !sym && kindsel >= 88;
    if (rect) { m = rng_int(r, 1, nmax); if (m == n) rect = 0; }
    F->m = m; F->n = n; F->sym = sym; F->cplx = P->cplx;
    /* value format */
    c16_vstyle vs; memset(&vs, 0, sizeof vs); vs.single = P->prec == 0 || P->prec == 2;
    int fsel = rng_int(r, 0, 99);
    char dl = 'E';
    if (fsel < 45) { vs.kind = 0; dl = 'E'; } else if (fsel < 80) { vs.kind = 0; dl = 'D'; } else { vs.kind = 1; dl = 'F'; }
    int pcomma = 0;
    if (vs.kind == 0) {
        int ps = rng_int(r, 0, 99);
        vs.pform = ps < 68 ? 0 : ps < 97 ? 1 : 2;
        if (c->tier == 0 && vs.pform == 2 && rng_bool(r, 0.5)) vs.pform = 1;   /* the comma form spins until the child limit: keep it rare */
        pcomma = vs.pform == 2;
        vs.exp3 = !vs.single && dl == 'E' && rng_bool(r, 0.25);   /* Ew.dEe exists for E only */
        vs.emax = vs.single ? 30 : vs.exp3 ? 280 : 60;
        vs.d = rng_int(r, 1, vs.single ? 9 : 17);
        if (vs.pform && vs.d > 16) vs.d = 16;
        vs.w = vs.d + 7 + vs.exp3 + (rng_bool(r, 0.5) ? 0 : rng_int(r, 1, 4));
        if (rng_bool(r, 0.12)) { vs.tight = 1; vs.w = vs.d + 6 + vs.exp3; }
        int ls = rng_int(r, 0, 9);
        vs.explet = ls < 6 ? dl : ls < 8 ? (char)tolower(dl) : (dl == 'E' ? 'D' : 'E');
        vs.mixlet = rng_bool(r, 0.1);
    } else {
        vs.d = rng_int(r, 0, 10); vs.w = vs.d + 3 + rng_int(r, 0, 8); vs.emax = 6;
        if (rng_bool(r, 0.2)) vs.tight = 1;
    }
    int kvmax = 80 / vs.w, kv = rng_bool(r, 0.4) ? kvmax : rng_int(r, 1, kvmax);
    int lower = rng_bool(r, 0.2);
    char valfmt[32], rep[8]; snprintf(rep, sizeof rep, "%d", kv);
    char L = lower ? (char)tolower(dl) : dl, Pc = lower ? 'p' : 'P', Ec = lower ? 'e' : 'E';
    if (vs.kind == 1) snprintf(valfmt, sizeof valfmt, "(%s%c%d.%d)", rep, L, vs.w, vs.d);
    else {
        char tail[16] = ""; if (vs.exp3) snprintf(tail, sizeof tail, "%c3", Ec);
        snprintf(valfmt, sizeof valfmt, "(%s%s%c%d.%d%s)", vs.pform == 1 ? (lower ? "1p" : "1P") : vs.pform == 2 ? (lower ? "1p," : "1P,") : "", rep, L, vs.w, vs.d, tail);
        (void)Pc;
    }
    /* pattern */
    int diagmode = 0;
    if (sym) { int ds = rng_int(r, 0, 99); diagmode = ds < 50 ? 0 : ds < 85 ? 1 : 2; if (n == 1 || pcomma) diagmode = 0; }
    int sorted = rng_bool(r, 0.6);
    F->nst = c16_pattern(r, m, n, sym, diagmode, sorted, &F->st);
    int nnz = F->nst;
    char (*ret)[64] = malloc((size_t)nnz * 64), (*imt)[64] = malloc((size_t)nnz * 64);
    c16_fill_values(r, &vs, F->cplx, F->st, ret, imt, nnz);
    int missing = 0;
    if (sym) { int have = 0; for (int a = 0; a < nnz; a++) if (F->st[a].i == F->st[a].j) have++; missing = n - have; }
    if (pcomma) F->hazard = "floatfmt-1P-comma-repeat-count";
    else if (missing > 0) F->hazard = "symexpand-missing-diagonal";
    /* integer formats */
    int wp = ndigits(nnz + 1) + (rng_bool(r, 0.5) ? 0 : rng_int(r, 1, 14 - ndigits(nnz + 1)));
    int wi = ndigits(m) + (rng_bool(r, 0.5) ? 0 : rng_int(r, 1, 14 - ndigits(m)));
    if (rng_bool(r, 0.5)) { wp++; wi++; }        /* usual: at least one blank between numbers */
    int kp = rng_bool(r, 0.4) ? 80 / wp : rng_int(r, 1, 80 / wp), ki = rng_bool(r, 0.4) ? 80 / wi : rng_int(r, 1, 80 / wi);
    char ptrfmt[24], indfmt[24];
    snprintf(ptrfmt, sizeof ptrfmt, "(%d%c%d)", kp, lower ? 'i' : 'I', wp);
    snprintf(indfmt, sizeof indfmt, "(%d%c%d)", ki, rng_bool(r, 0.15) ? 'i' : 'I', wi);
    /* data blocks */
    c16_sb ptrb = { 0 }, indb = { 0 }, valb = { 0 }, rhsb = { 0 };
    char (*fld)[64] = malloc((size_t)(2 * nnz + n + 2 + 4 * m) * 64);
    int *colcnt = calloc((size_t)n + 1, sizeof(int));
    for (int a = 0; a < nnz; a++) colcnt[F->st[a].j]++;
    { int acc = 1; for (int j = 0; j <= n; j++) { snprintf(fld[j], 64, "%*d", wp, acc); if (j < n) acc += colcnt[j]; } }
    int ptrcrd = c16_emit_fields(&ptrb, fld, n + 1, kp);
    for (int a = 0; a < nnz; a++) snprintf(fld[a], 64, "%*d", wi, F->st[a].i + 1);
    int indcrd = c16_emit_fields(&indb, fld, nnz, ki);
    int nv = 0;
    for (int a = 0; a < nnz; a++) { memcpy(fld[nv++], ret[a], 64); if (F->cplx) memcpy(fld[nv++], imt[a], 64); }
    int valcrd = c16_emit_fields(&valb, fld, nv, kv);
    int rhscrd = 0, nrhs = 0; char rhstyp[4] = "F  ";
    if (!rb && rng_bool(r, 0.4)) {
        nrhs = rng_int(r, 1, 2);
        int blocks = 1; if (rng_bool(r, 0.3)) { rhstyp[1] = 'G'; blocks++; } if (rng_bool(r, 0.3)) { rhstyp[2] = 'X'; blocks++; }
        for (int b = 0; b < blocks * nrhs; b++) {
            int cnt = m * (F->cplx ? 2 : 1); double dv; float fv[2];
            for (int a = 0; a < cnt; a++) c16_value_text(r, &vs, fld[a], 64, &dv, fv);
            rhscrd += c16_emit_fields(&rhsb, fld, cnt, kv);
        }
    }
    /* header */
    c16_sb *S = &F->text; char line[200], title[81];
    int full80 = rng_bool(r, 0.5);
    random_title(r, title, 72); snprintf(line, sizeof line, "%s%-8.8s", title, rng_bool(r, 0.5) ? "VFC16" : "KEY(I5)");
    pad_line(S, line, 80);
    char type[4] = { F->cplx ? 'C' : 'R', sym ? 'S' : rect ? 'R' : 'U', 'A', 0 };
    if (rb) {
        snprintf(line, sizeof line, "%14d %13d %13d %13d", ptrcrd + indcrd + valcrd, ptrcrd, indcrd, valcrd); pad_line(S, line, full80 ? 80 : 56);
        snprintf(line, sizeof line, "%s           %14d %13d %13d %13d", type, m, n, nnz, 0); pad_line(S, line, full80 ? 80 : 70);
        snprintf(line, sizeof line, "%-16s%-16s%-20s", ptrfmt, indfmt, valfmt); pad_line(S, line, full80 ? 80 : 52);
    } else {
        snprintf(line, sizeof line, "%14d%14d%14d%14d%14d", ptrcrd + indcrd + valcrd + rhscrd, ptrcrd, indcrd, valcrd, rhscrd); pad_line(S, line, full80 ? 80 : 70);
        snprintf(line, sizeof line, "%s           %14d%14d%14d%14d", type, m, n, nnz, 0); pad_line(S, line, full80 ? 80 : 70);
        snprintf(line, sizeof line, "%-16s%-16s%-20s%-20s", ptrfmt, indfmt, valfmt, rhscrd ? valfmt : ""); pad_line(S, line, full80 ? 80 : 72);
        if (rhscrd) { snprintf(line, sizeof line, "%s           %14d%14d", rhstyp, nrhs, 0); pad_line(S, line, full80 ? 80 : 42); }
    }
    sb_put(S, ptrb.b ? ptrb.b : "", ptrb.n); sb_put(S, indb.b ? indb.b : "", indb.n); sb_put(S, valb.b ? valb.b : "", valb.n);
    if (rhscrd) sb_put(S, rhsb.b, rhsb.n);
    /* bookkeeping */
    vf_tag(c, "type=%s", type); vf_tag(c, "vfmt=%c", dl); vf_tag(c, "P=%s", vs.kind ? "na" : vs.pform == 0 ? "none" : vs.pform == 1 ? "nocomma" : "comma");
    if (vs.kind == 0) { vf_tag(c, "explet=%c", vs.mixlet ? 'm' : vs.explet); vf_tag(c, "exp3=%d", vs.exp3); }
    vf_tag(c, "desc-case=%s", lower ? "lower" : "upper"); if (vs.tight) vf_tag(c, "value-fields=touching");
    vf_tag(c, "rhs=%d", rhscrd > 0); vf_tag(c, "kval=%s", kv == 1 ? "1" : kv == kvmax ? "max" : "mid");
    vf_tag(c, "lastline=%s", nv % kv ? "short" : "full"); vf_tag(c, "rows=%s", sorted ? "sorted" : "shuffled");
    if (sym) vf_tag(c, "diag=%s", missing == 0 ? "all" : missing == n ? "none" : "some");
    if (F->cplx) vf_tag(c, "pair-split=%d", kv % 2);
    vf_desc(c, "%s %s %dx%d nnz=%d ptr=%s ind=%s val=%s explet=%c%s rhscrd=%d%s", c16_fmtname[F->fmt], type, m, n, nnz, ptrfmt, indfmt, valfmt,
            vs.explet ? vs.explet : '-', vs.mixlet ? "(mixed)" : "", rhscrd, sym ? (missing ? " diagonals-absent" : " diagonals-all") : "");
    if (sym && missing) vf_desc(c, "=%d", missing);
    vf_sig(c, ptrfmt, strlen(ptrfmt)); vf_sig(c, indfmt, strlen(indfmt)); vf_sig(c, valfmt, strlen(valfmt));
    free(ret); free(imt); free(fld); free(colcnt); free(ptrb.b); free(indb.b); free(valb.b); free(rhsb.b);
}

static void shuffle_ents(vf_rng *r, c16_ent *e, char (*a)[64], char (*b)[64], int k)
{
    for (int x = k - 1; x > 0; x--) {
        int y = rng_int(r, 0, x); c16_ent t = e[x]; e[x] = e[y]; e[y] = t;
        char tt[64]; memcpy(tt, a[x], 64); memcpy(a[x], a[y], 64); memcpy(a[y], tt, 64);
        memcpy(tt, b[x], 64); memcpy(b[x], b[y], 64); memcpy(b[y], tt, 64);
    }
}
/* field separator: Matrix Market says "one or more blanks" (spaces only); triplet files are plain scanf input (tabs too) */
static const char *rand_sep(vf_rng *r, int allow_tab)
{
    static const char *seps[] = { " ", " ", " ", "  ", "   ", "\t", " \t" };
    return seps[rng_int(r, 0, allow_tab ? 6 : 4)];
}
static void rand_case(vf_rng *r, char *dst, const char *src, int mode)
{
    size_t k = 0;
    for (; src[k]; k++) dst[k] = mode == 0 ? src[k] : mode == 1 ? (char)toupper((unsigned char)src[k]) : (rng_bool(r, 0.5) ? (char)toupper((unsigned char)src[k]) : src[k]);
    dst[k] = 0; if (mode == 3 && k) dst[0] = (char)toupper((unsigned char)src[0]);
}

/* ---- Matrix Market coordinate */
static void c16_gen_mm(vf_case *c, c16_file *F)
{
    vf_rng *r = &c->rng; const vf_api *P = c->P;
    int nmax = c->tier && rng_bool(r, 0.05) ? 120 : 40;
    int n = rng_int(r, 1, rng_bool(r, 0.3) ? 6 : nmax);
    int sym = rng_bool(r, 0.45);
    F->m = F->n = n; F->sym = sym; F->cplx = P->cplx;
    c16_vstyle vs; memset(&vs, 0, sizeof vs); vs.kind = 2; vs.single = P->prec == 0 || P->prec == 2; vs.emax = vs.single ? 30 : 280;
    int hz = rng_int(r, 0, 99);   /* at most one trap per file */
    int want_token = 0, want_longline = 0;
    int diagmode = 0;
    if (P->cplx) {   /* ?readMM (c, z) refuse the "complex" field outright; behind that zreadMM's triplet buffer is half the needed size */
        F->hazard = "mm-complex-field-rejected"; hz = 100;
        if (P->prec == 3) F->hazard_asan = "zreadMM-val-buffer-undersized";
    }
    else if (hz < 4) want_token = 1;
    else if (hz < 6) want_longline = 1;
    if (sym) { int ds = rng_int(r, 0, 99); diagmode = ds < 50 ? 0 : ds < 85 ? 1 : 2; if (n == 1 || want_token || want_longline || P->cplx) diagmode = 0; }
    F->nst = c16_pattern(r, n, n, sym, diagmode, 1, &F->st);
    int nnz = F->nst;
    char (*ret)[64] = malloc((size_t)nnz * 64), (*imt)[64] = malloc((size_t)nnz * 64);
    c16_fill_values(r, &vs, F->cplx, F->st, ret, imt, nnz);
    int missing = 0;
    if (sym) { int have = 0; for (int a = 0; a < nnz; a++) if (F->st[a].i == F->st[a].j) have++; missing = n - have; }
    /* which triangle the stored entries are written in */
    int tri = 0;
    if (sym) { int ts = rng_int(r, 0, 99); tri = ts < 76 ? 0 : ts < 88 ? 1 : 2; }
    for (int a = 0; a < nnz; a++) if (tri == 1 || (tri == 2 && rng_bool(r, 0.5))) { int t = F->st[a].i; F->st[a].i = F->st[a].j; F->st[a].j = t; }
    int order = rng_int(r, 0, 9);   /* 0-1 column major as generated, else shuffled */
    if (order >= 2) shuffle_ents(r, F->st, ret, imt, nnz);
    if (missing > 0) F->hazard = "symexpand-missing-diagonal";
    c16_sb *S = &F->text; char t1[32], t2[32], t3[32], t4[32];
    int cm = rng_int(r, 0, 3);
    rand_case(r, t1, "matrix", cm); rand_case(r, t2, "coordinate", cm); rand_case(r, t3, F->cplx ? "complex" : "real", cm); rand_case(r, t4, sym ? "symmetric" : "general", cm);
    sb_printf(S, "%%%%MatrixMarket%s%s%s%s%s%s%s%s%s\n", rand_sep(r, 0), t1, rand_sep(r, 0), t2, rand_sep(r, 0), t3, rand_sep(r, 0), t4, rng_bool(r, 0.2) ? " " : "");
    int ncom = rng_int(r, 0, 4), maxtok = 0, maxline = 0;
    if ((want_token || want_longline) && ncom == 0) ncom = 1;
    int special = (want_token || want_longline) ? rng_int(r, 0, ncom - 1) : -1;
    for (int q = 0; q < ncom; q++) {
        char com[1100]; int l = 0;
        if (q == special && want_token) {
            int tl = rng_int(r, 64, 100); com[l++] = '%'; char ch = rng_bool(r, 0.7) ? '-' : rng_bool(r, 0.5) ? '%' : '=';
            while (l < tl) com[l++] = ch; com[l] = 0;
        } else if (q == special && want_longline) {
            int tl = rng_int(r, 520, 1000); com[l++] = '%';
            while (l < tl) { int wl = rng_int(r, 1, 12); for (int a = 0; a < wl && l < tl; a++) com[l++] = (char)('a' + rng_int(r, 0, 25)); if (l < tl) com[l++] = ' '; }
            com[l] = 0;
        } else {
            int kind = rng_int(r, 0, 4);
            if (kind == 0) { com[l++] = '%'; com[l] = 0; }
            else if (kind == 1) { int tl = rng_int(r, 2, 60); com[l++] = '%'; while (l < tl) com[l++] = '-'; com[l] = 0; }
            else if (kind == 2) snprintf(com, sizeof com, "%% generated by the C16 monitor, case %ld", c->index);
            else if (kind == 3) snprintf(com, sizeof com, "%%%% 3 3 4 looks like a size line but is a comment");
            else snprintf(com, sizeof com, "%%\tkind: %s matrix;  author: nobody;  1 2 3.5", sym ? "symmetric" : "general");
            l = (int)strlen(com);
        }
        if (l > maxline) maxline = l;
        { int cur = 0; for (int a = 0; a <= l; a++) { if (a == l || isspace((unsigned char)com[a])) { if (cur > maxtok) maxtok = cur; cur = 0; } else cur++; } }
        if (q != special && rng_bool(r, 0.1)) sb_put(S, rng_bool(r, 0.5) ? " " : "\t ", rng_bool(r, 0.5) ? 1 : 2);   /* an indented comment line */
        sb_put(S, com, (size_t)l); sb_put(S, "\n", 1);
        if (rng_bool(r, 0.06)) { sb_put(S, "   ", (size_t)rng_int(r, 0, 3)); sb_put(S, "\n", 1); vf_tag(c, "mm-blank-line-in-header"); }   /* blank lines may appear anywhere after the banner */
    }
    if (rng_bool(r, 0.1)) { sb_put(S, "   ", (size_t)rng_int(r, 0, 3)); sb_put(S, "\n", 1); vf_tag(c, "mm-blank-line-in-header"); }
    if (want_token) F->hazard = "mm-comment-token-64plus";
    if (want_longline) F->hazard = "mm-comment-line-over-511";
    sb_printf(S, "%s%d%s%d%s%d\n", rng_bool(r, 0.2) ? "  " : "", n, rand_sep(r, 0), n, rand_sep(r, 0), nnz);
    int blank = rng_bool(r, 0.1);
    for (int a = 0; a < nnz; a++) {
        if (rng_bool(r, 0.3)) sb_printf(S, "%*d%s%*d%s", rng_int(r, 1, 6), F->st[a].i + 1, rand_sep(r, 0), rng_int(r, 1, 6), F->st[a].j + 1, rand_sep(r, 0));
        else sb_printf(S, "%d%s%d%s", F->st[a].i + 1, rand_sep(r, 0), F->st[a].j + 1, rand_sep(r, 0));
        if (F->cplx) sb_printf(S, "%s%s%s", ret[a], rand_sep(r, 0), imt[a]); else sb_printf(S, "%s", ret[a]);
        sb_put(S, "\n", 1);
        if (blank && rng_bool(r, 0.1)) sb_put(S, "\n", 1);
    }
    vf_tag(c, "mm=%s", sym ? "symmetric" : "general"); vf_tag(c, "mm-comments=%d", ncom > 2 ? 2 : ncom); vf_tag(c, "mm-order=%s", order >= 2 ? "shuffled" : "colmajor");
    vf_tag(c, "mm-case=%d", cm);
    if (sym) { vf_tag(c, "mm-tri=%s", tri == 0 ? "lower" : tri == 1 ? "upper" : "mixed"); vf_tag(c, "diag=%s", missing == 0 ? "all" : missing == n ? "none" : "some"); }
    vf_desc(c, "MM %s %s n=%d stored=%d comments=%d(maxtoken=%d,maxline=%d) order=%s tri=%d%s", F->cplx ? "complex" : "real", sym ? "symmetric" : "general", n, nnz, ncom, maxtok, maxline,
            order >= 2 ? "shuffled" : "colmajor", tri, sym ? (missing ? " diagonals-absent" : " diagonals-all") : "");
    vf_sig_u64(c, (uint64_t)sym * 64 + (uint64_t)tri * 16 + (uint64_t)ncom);
    free(ret); free(imt);
}

/* ---- triplet files (with "n nnz" header for ?readtriple, bare for dreadtriple_noheader) */
static void c16_gen_tri(vf_case *c, c16_file *F)
{
    vf_rng *r = &c->rng; const vf_api *P = c->P;
    int nh = F->fmt == F_TRINH;
    int nmax = c->tier && rng_bool(r, 0.05) ? 90 : 40;
    int n = rng_int(r, 1, rng_bool(r, 0.3) ? 6 : nmax);
    F->sym = 0; F->cplx = nh ? 0 : P->cplx;
    c16_vstyle vs; memset(&vs, 0, sizeof vs); vs.kind = 2; vs.single = !nh && (P->prec == 0 || P->prec == 2); vs.emax = vs.single ? 30 : 280;
    F->nst = c16_pattern(r, n, n, 0, 0, 1, &F->st);
    int nnz = F->nst;
    if (nh) { /* no header: the dimension IS the largest index written */
        int mx = 0; for (int a = 0; a < nnz; a++) { if (F->st[a].i > mx) mx = F->st[a].i; if (F->st[a].j > mx) mx = F->st[a].j; }
        n = mx + 1;
    }
    F->m = F->n = n;
    char (*ret)[64] = malloc((size_t)nnz * 64), (*imt)[64] = malloc((size_t)nnz * 64);
    c16_fill_values(r, &vs, F->cplx, F->st, ret, imt, nnz);
    if (rng_bool(r, 0.8)) shuffle_ents(r, F->st, ret, imt, nnz);
    int base = rng_bool(r, 0.2) ? 0 : 1;
    if (base == 0) {
        /* zero-based files are recognised by a 0 index (first entry for ?readtriple, anywhere for the no-header reader) */
        int z = -1; for (int a = 0; a < nnz; a++) if (F->st[a].i == 0 || F->st[a].j == 0) { z = a; break; }
        if (z < 0) base = 1;
        else if (z != 0) { c16_ent t = F->st[0]; F->st[0] = F->st[z]; F->st[z] = t; char tt[64]; memcpy(tt, ret[0], 64); memcpy(ret[0], ret[z], 64); memcpy(ret[z], tt, 64); memcpy(tt, imt[0], 64); memcpy(imt[0], imt[z], 64); memcpy(imt[z], tt, 64); }
    }
    int hdr3 = !nh && rng_bool(r, 0.06);
    c16_sb *S = &F->text;
    if (!nh) {
        if (hdr3) { sb_printf(S, "%d%s%d%s%d\n", n, rand_sep(r, 1), n, rand_sep(r, 1), nnz); F->hazard = "triple-header-rows-cols-nnz-as-documented"; }
        else sb_printf(S, "%d%s%d\n", n, rand_sep(r, 1), nnz);
    }
    for (int a = 0; a < nnz; a++) {
        sb_printf(S, "%d%s%d%s", F->st[a].i + base, rand_sep(r, 1), F->st[a].j + base, rand_sep(r, 1));
        if (F->cplx) sb_printf(S, "%s%s%s", ret[a], rand_sep(r, 1), imt[a]); else sb_printf(S, "%s", ret[a]);
        sb_put(S, "\n", 1);
    }
    vf_tag(c, "base=%d", base); if (!nh) vf_tag(c, "hdr=%d", hdr3 ? 3 : 2);
    vf_desc(c, "%s %s n=%d nnz=%d base=%d header=%s", c16_fmtname[F->fmt], F->cplx ? "complex" : "real", n, nnz, base, nh ? "none" : hdr3 ? "rows cols nnz" : "n nnz");
    vf_sig_u64(c, (uint64_t)base * 2 + (uint64_t)hdr3);
    free(ret); free(imt);
}

/* ------------------------------------------------------------------ calling the reader, comparing */
typedef struct { int m, n; int_t nnz; void *val; int_t *ri, *cp; } c16_out;

static __attribute__((noinline)) void c16_call(const vf_api *P, const c16_file *F, FILE *f, c16_out *o)
{
    FILE *saved = stdin;
    switch (F->fmt) {
    case F_HB: P->readhb(f, &o->m, &o->n, &o->nnz, &o->val, &o->ri, &o->cp); break;                    /* closes f */
    case F_MM: P->readMM(f, &o->m, &o->n, &o->nnz, &o->val, &o->ri, &o->cp); fclose(f); break;
    case F_RB: stdin = f; P->readrb(&o->m, &o->n, &o->nnz, &o->val, &o->ri, &o->cp); stdin = saved; break;   /* closes its stdin */
    case F_TRI: stdin = f; P->readtriple(&o->m, &o->n, &o->nnz, &o->val, &o->ri, &o->cp); stdin = saved; fclose(f); break;
    default: { double *dv = NULL; stdin = f; dreadtriple_noheader(&o->m, &o->n, &o->nnz, &dv, &o->ri, &o->cp); stdin = saved; fclose(f); o->val = dv; } break;
    }
}

typedef struct { int row; ld re, im; } c16_got;
static int got_cmp(const void *a, const void *b) { const c16_got *x = a, *y = b; return x->row < y->row ? -1 : x->row > y->row; }

static void c16_compare(vf_case *c, const c16_file *F, const c16_out *o)
{
    const vf_api *P = F->fmt == F_TRINH ? &vf_apis[1] : c->P;
    if (o->m != F->m || o->n != F->n) { vf_viol(c, "dims", "reader returned %d x %d, the file says %d x %d", o->m, o->n, F->m, F->n); return; }
    if ((long long)o->nnz != F->nfull) { vf_viol(c, "nnz", "reader returned nnz=%lld, the file denotes %d entries (%d stored%s)", (long long)o->nnz, F->nfull, F->nst, F->sym ? ", symmetric" : ""); return; }
    if (!o->val || !o->ri || !o->cp) { vf_viol(c, "null-array", "a returned array pointer is NULL"); return; }
    if (o->cp[0] != 0 || (long long)o->cp[F->n] != (long long)o->nnz) { vf_viol(c, "colptr-ends", "colptr[0]=%lld colptr[n]=%lld nnz=%lld", (long long)o->cp[0], (long long)o->cp[F->n], (long long)o->nnz); return; }
    for (int j = 0; j < F->n; j++) if (o->cp[j] > o->cp[j + 1]) { vf_viol(c, "colptr-decreasing", "colptr[%d]=%lld > colptr[%d]=%lld", j, (long long)o->cp[j], j + 1, (long long)o->cp[j + 1]); return; }
    c16_got *g = malloc(sizeof(c16_got) * (size_t)(F->nfull + 1));
    int e = 0;
    for (int j = 0; j < F->n && c->verdict != 1; j++) {
        int cnt = (int)(o->cp[j + 1] - o->cp[j]), want = 0;
        while (e + want < F->nfull && F->full[e + want].j == j) want++;
        if (cnt != want) { vf_viol(c, "column-count", "column %d has %d entries, the file gives it %d", j, cnt, want); break; }
        for (int k = 0; k < cnt; k++) {
            int_t p = o->cp[j] + k; ldc z = P->get(o->val, (size_t)p);
            g[k].row = (int)o->ri[p]; g[k].re = creall(z); g[k].im = cimagl(z);
            if (o->ri[p] < 0 || o->ri[p] >= F->m) { vf_viol(c, "rowind-out-of-range", "rowind[%lld]=%lld in column %d of a matrix with %d rows", (long long)p, (long long)o->ri[p], j, F->m); break; }
        }
        if (c->verdict == 1) break;
        qsort(g, (size_t)cnt, sizeof *g, got_cmp);
        for (int k = 0; k < cnt; k++) {
            const c16_ent *x = &F->full[e + k];
            if (g[k].row != x->i) { vf_viol(c, "pattern", "column %d: sorted entry %d has row %d, the file has row %d there (0-based)", j, k, g[k].row, x->i); break; }
            int okre, okim;
            if (P->prec == 0 || P->prec == 2) {
                okre = g[k].re == (ld)x->ref[0] || g[k].re == (ld)x->ref[1];
                okim = !P->cplx || g[k].im == (ld)x->imf[0] || g[k].im == (ld)x->imf[1];
            } else { okre = g[k].re == (ld)x->re; okim = !P->cplx || g[k].im == (ld)x->im; }
            if (!okre || !okim) {
                vf_viol(c, "value", "entry (%d,%d): reader returned %.17Lg%+.17Lgi, the printed field is %.17g%+.17gi", x->i, j, g[k].re, g[k].im, x->re, x->im);
                break;
            }
        }
        e += want;
    }
    free(g);
    c->counters[0] += F->nfull;
}

/* the whole observable part of a case: call, compare, release, ledger.  catch_abort is used in the child only. */
static void c16_body(vf_case *c, const c16_file *F, int catch_abort)
{
    c16_out o; memset(&o, 0, sizeof o); o.m = o.n = -7; o.nnz = -7;
    FILE *f = fopen(F->path, "r");
    if (!f) { vf_viol(c, "harness-fopen", "cannot reopen %s", F->path); return; }
    if (!catch_abort) { unlink(F->path); rmdir(F->dir); }   /* in-process: nothing is left behind if the reader takes the worker down */
    if (catch_abort) {
        jmp_buf jb; volatile int aborted = 0;
        if (VF_TRY_BEGIN(jb)) c16_call(c->P, F, f, &o); else aborted = 1;
        VF_TRY_END();
        if (aborted) { vf_viol(c, "reader-abort", "library ABORT: %s", vf_abort_msg); vf_ledger_purge(); return; }
    } else c16_call(c->P, F, f, &o);
    c16_compare(c, F, &o);
    if (o.val) SUPERLU_FREE(o.val);
    if (o.ri) SUPERLU_FREE(o.ri);
    if (o.cp) SUPERLU_FREE(o.cp);
    vf_check_ledger(c, "after reader + SUPERLU_FREE of the three arrays");
    c->nontrivial = F->n >= 2 && F->nfull >= 2;
}

typedef struct { int verdict, nontrivial; long cnt0; char key[200], msg[600]; } c16_res;

/* summarise the child's stderr: sanitizer kind + innermost /repo frames */
static void c16_summarise(const char *err, char *out, size_t n)
{
    out[0] = 0; size_t l = 0;
    const char *p = strstr(err, "ERROR: AddressSanitizer: ");
    if (p) { p += 25; const char *q = p; while (*q && !isspace((unsigned char)*q)) q++; l += (size_t)snprintf(out + l, n - l, "AddressSanitizer %.*s", (int)(q - p), p); }
    else if ((p = strstr(err, "runtime error: "))) { const char *q = strchr(p, '\n'); l += (size_t)snprintf(out + l, n - l, "UBSan %.*s", q ? (int)(q - p) : 60, p); }
    int frames = 0; p = err;
    while (frames < 3 && (p = strstr(p, " in ")) && l + 80 < n) {
        const char *fn = p + 4; const char *sp = fn; while (*sp && !isspace((unsigned char)*sp)) sp++;
        const char *eol = strchr(fn, '\n'); if (!eol) eol = fn + strlen(fn);
        const char *rp = strstr(sp, "/SRC/"); if (!rp || rp > eol) rp = strstr(sp, "/EXAMPLE/");
        if (*sp && rp && rp < eol) { l += (size_t)snprintf(out + l, n - l, " <%.*s %.*s", (int)(sp - fn), fn, (int)(eol - rp - 1), rp + 1); frames++; }
        p = fn;
    }
    if (!out[0]) {   /* no sanitizer report: quote the last thing the library printed */
        size_t e = strlen(err); while (e > 0 && isspace((unsigned char)err[e - 1])) e--;
        size_t b = e; while (b > 0 && err[b - 1] != '\n') b--;
        if (e > b) snprintf(out, n, "last output: \"%.*s\"", (int)(e - b > 160 ? 160 : e - b), err + b);
    }
}

static void c16_probe_in_child(vf_case *c, const c16_file *F)
{
    char resp[100], errp[100];
    snprintf(resp, sizeof resp, "%s/res", F->dir); snprintf(errp, sizeof errp, "%s/err", F->dir);
    fflush(NULL);
    pid_t pid = fork();
    if (pid < 0) { vf_viol(c, "harness-fork", "fork failed"); return; }
    if (pid == 0) {
        signal(SIGPROF, SIG_DFL);
        struct itimerval it = { { 0, 0 }, { 0, c->tier ? 600000 : 400000 } }; setitimer(ITIMER_PROF, &it, NULL);
        int efd = open(errp, O_WRONLY | O_CREAT | O_TRUNC, 0600); if (efd >= 0) { dup2(efd, 2); dup2(efd, 1); close(efd); }
        vf_case cc = *c; cc.verdict = 0; cc.key[0] = cc.msg[0] = 0; cc.verbose = 0; memset(cc.counters, 0, sizeof cc.counters);
        c16_body(&cc, F, 1);
        c16_res R; memset(&R, 0, sizeof R); R.verdict = cc.verdict; R.nontrivial = cc.nontrivial; R.cnt0 = cc.counters[0];
        snprintf(R.key, sizeof R.key, "%s", cc.key); snprintf(R.msg, sizeof R.msg, "%s", cc.msg);
        int fd = open(resp, O_WRONLY | O_CREAT | O_TRUNC, 0600);
        if (fd >= 0) { ssize_t w = write(fd, &R, sizeof R); (void)w; close(fd); }
        _exit(0);
    }
    int st = 0; while (waitpid(pid, &st, 0) < 0) { }
    c->counters[1]++;
    c16_res R; int have = 0;
    { int fd = open(resp, O_RDONLY); if (fd >= 0) { have = read(fd, &R, sizeof R) == (ssize_t)sizeof R; close(fd); } }
    if (WIFEXITED(st) && WEXITSTATUS(st) == 0 && have) {
        c->nontrivial = R.nontrivial; c->counters[0] += R.cnt0;
        R.key[sizeof R.key - 1] = 0; R.msg[sizeof R.msg - 1] = 0;
        if (R.verdict == 1) vf_viol(c, F->hazard, "[%s] %s", R.key, R.msg);
        return;
    }
    c->counters[2]++;
    char *err = calloc(1, 20001); { int fd = open(errp, O_RDONLY); if (fd >= 0) { ssize_t k = read(fd, err, 20000); if (k < 0) k = 0; err[k] = 0; close(fd); } }
    char sum[400]; c16_summarise(err, sum, sizeof sum);
    if (c->verbose) fprintf(stderr, "---- child stderr ----\n%s\n----\n", err);
    if (WIFSIGNALED(st) && WTERMSIG(st) == SIGPROF)
        vf_viol(c, F->hazard, "reader did not return: still spinning after %d ms of CPU on a %zu-byte file (child killed)", c->tier ? 600 : 400, F->text.n);
    else if (WIFSIGNALED(st)) vf_viol(c, F->hazard, "reader killed by signal %d; %s", WTERMSIG(st), sum);
    else if (WEXITSTATUS(st) == 99 && F->hazard_asan && strstr(sum, "heap-buffer-overflow")) vf_viol(c, F->hazard_asan, "reader process ended with an AddressSanitizer report; %s", sum);
    else vf_viol(c, F->hazard, "reader process ended with status %d (99 = AddressSanitizer, 98 = UBSan, 255 = library exit(-1)); %s", WEXITSTATUS(st), sum);
    free(err);
}

static void c16_run(vf_case *c)
{
    const vf_api *P = c->P; vf_rng *r = &c->rng;
    c16_file F; memset(&F, 0, sizeof F);
    int sel = rng_int(r, 0, 99);
    if (P->prec == 1) F.fmt = sel < 30 ? F_HB : sel < 55 ? F_RB : sel < 78 ? F_MM : sel < 90 ? F_TRI : F_TRINH;
    else if (P->cplx) F.fmt = sel < 36 ? F_HB : sel < 70 ? F_RB : sel < 80 ? F_MM : F_TRI;     /* c/z readMM refuse every complex file: keep the share small */
    else F.fmt = sel < 32 ? F_HB : sel < 60 ? F_RB : sel < 85 ? F_MM : F_TRI;
    vf_tag(c, "prec=%c", P->letter); vf_tag(c, "fmt=%s", c16_fmtname[F.fmt]);
    if (F.fmt == F_HB || F.fmt == F_RB) c16_gen_hbrb(c, &F); else if (F.fmt == F_MM) c16_gen_mm(c, &F); else c16_gen_tri(c, &F);
    c16_make_full(&F);
    { uint64_t h = FNV0; for (int a = 0; a < F.nfull; a++) { h = fnv64(h, &F.full[a].i, sizeof(int)); h = fnv64(h, &F.full[a].j, sizeof(int)); } vf_sig_u64(c, h); vf_sig_u64(c, (uint64_t)F.fmt); }
    if (F.hazard) vf_tag(c, "hazard=%s", F.hazard); else vf_tag(c, "hazard=none");
    if (c->verbose) fprintf(stderr, "---- generated file (%zu bytes) ----\n%s----\n", F.text.n, F.text.b ? F.text.b : "");
    /* private directory */
    snprintf(F.dir, sizeof F.dir, "/tmp/vfc16_XXXXXX");
    if (!mkdtemp(F.dir)) { vf_viol(c, "harness-mkdtemp", "mkdtemp failed"); goto done; }
    snprintf(F.path, sizeof F.path, "%s/in", F.dir);
    { FILE *w = fopen(F.path, "w"); if (!w) { vf_viol(c, "harness-write", "cannot create %s", F.path); goto rm; }
      if (F.text.n) fwrite(F.text.b, 1, F.text.n, w); fclose(w); }
    c->counters[3] += (long)F.text.n;
    if (F.hazard) c16_probe_in_child(c, &F); else c16_body(c, &F, 0);
rm:
    { char p[100]; unlink(F.path); snprintf(p, sizeof p, "%s/res", F.dir); unlink(p); snprintf(p, sizeof p, "%s/err", F.dir); unlink(p); rmdir(F.dir); }
done:
    if (c->verdict == 1) vf_tag(c, "outcome=violation"); else vf_tag(c, "outcome=equal");
    free(F.st); free(F.full); free(F.text.b);
}

VF_REGISTER("C16", c16_run)
