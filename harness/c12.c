/* C12 - the condition estimate of ?gssvx is a valid one-sided bound (norm selected by the effective transpose),
 * never exceeds one, info = n+1 exactly when it is below machine epsilon; the reciprocal pivot growth equals
 * min_j max|A_j| / max|U_j| recomputed from the returned factors (also over the leading info columns of a
 * singular factorization).
 *
 * The matrix judged is always F = the matrix that was factored: the caller's arrays after the call (equilibrated
 * when equed != 'N'), read column-wise, i.e. A for SLU_NC and A^T for SLU_NR.  The driver estimates the 1-norm
 * condition number of F when its internal `notran` flag is set (NC: Trans = NOTRANS; NR: Trans != NOTRANS) and the
 * infinity-norm condition number otherwise; in both storage schemes that is the 1-norm condition number of op(A). */
#include "fact.h"

enum { K_GEN, K_SCALED, K_NEARSING, K_NORMGAP, K_SINGULAR, K__N };
static const char *c12_cls[] = { "gen", "scaled", "nearsing", "normgap", "singular" };

/* ------------------------------------------------------------------ generators (dense scratch, then compressed) */
static ld c12_upm(vf_rng *r) { ld v; do v = (ld)(2.0 * rng_unif(r) - 1.0); while (fabsl(v) < 0.05L); return v; }
static ldc c12_rval(vf_rng *r, const vf_api *P)
{
    ld re = c12_upm(r), im = P->cplx ? c12_upm(r) : 0;
    if (P->cplx && rng_bool(r, 0.15)) { if (rng_bool(r, 0.5)) im = 0; else { im = re; re = 0; } }
    return re + im * I;
}
static ldc c12_ival(vf_rng *r, const vf_api *P)
{
    ld re, im; do { re = rng_int(r, -3, 3); im = P->cplx ? rng_int(r, -2, 2) : 0; } while (re == 0 && im == 0);
    return re + im * I;
}
static ldc c12_p2val(vf_rng *r, const vf_api *P)
{
    ld re = ldexpl(rng_bool(r, 0.5) ? 1.0L : -1.0L, rng_int(r, -2, 2)), im = 0;
    if (P->cplx && rng_bool(r, 0.5)) im = ldexpl(rng_bool(r, 0.5) ? 1.0L : -1.0L, rng_int(r, -2, 2));
    if (P->cplx && rng_bool(r, 0.15)) { im = re; re = 0; }
    return re + im * I;
}
#define DD(i, j) D[(size_t)(j) * (size_t)n + (size_t)(i)]
#define SS(i, j) S[(size_t)(j) * (size_t)n + (size_t)(i)]

static void c12_compress(vf_rng *r, const vf_api *P, int n, const ldc *D, const unsigned char *S, vf_mat *A)
{
    int_t nnz = 0; for (size_t q = 0; q < (size_t)n * (size_t)n; q++) nnz += S[q] != 0;
    A->m = A->n = n; A->nnz = nnz;
    A->colptr = malloc(sizeof(int_t) * (size_t)(n + 1)); A->rowind = malloc(sizeof(int_t) * (size_t)(nnz + 1)); A->v = malloc(sizeof(ldc) * (size_t)(nnz + 1));
    int shuffle = rng_bool(r, 0.25); int *tmp = malloc(sizeof(int) * (size_t)(n + 1)); int_t q = 0;
    for (int j = 0; j < n; j++) {
        A->colptr[j] = q; int cnt = 0;
        for (int i = 0; i < n; i++) if (SS(i, j)) tmp[cnt++] = i;
        if (shuffle) for (int a = cnt - 1; a > 0; a--) { int b = rng_int(r, 0, a); int t = tmp[a]; tmp[a] = tmp[b]; tmp[b] = t; }
        for (int a = 0; a < cnt; a++) { A->rowind[q] = tmp[a]; A->v[q] = P->round(DD(tmp[a], j)); q++; }
    }
    A->colptr[n] = q; free(tmp);
}
/* moderately conditioned base: random off-diagonal entries, diagonal comparable with the column's off-diagonal mass */
static void c12_base(vf_rng *r, const vf_api *P, int n, int dense, int ints, ldc *D, unsigned char *S)
{
    memset(D, 0, sizeof(ldc) * (size_t)n * (size_t)n); memset(S, 0, (size_t)n * (size_t)n);
    for (int j = 0; j < n; j++) {
        if (dense) { for (int i = 0; i < n; i++) if (i != j && rng_bool(r, 0.9)) { SS(i, j) = 1; DD(i, j) = ints ? c12_ival(r, P) : c12_rval(r, P); } }
        else { int k = rng_int(r, 0, n - 1 < 5 ? n - 1 : 5); for (int t = 0; t < k; t++) { int i = rng_int(r, 0, n - 1); if (i != j) { SS(i, j) = 1; DD(i, j) = ints ? c12_ival(r, P) : c12_rval(r, P); } } }
    }
    for (int j = 0; j < n; j++) {
        ld s = 0; for (int i = 0; i < n; i++) if (i != j) s += cabsl(DD(i, j));
        SS(j, j) = 1;
        if (ints) { ld d = ceill(s * (0.5L + 0.7L * (ld)rng_unif(r))) + 1; DD(j, j) = rng_bool(r, 0.5) ? d : -d; }
        else { ld d = 0.5L + s * (0.6L + 0.9L * (ld)rng_unif(r)); ldc ph = c12_rval(r, P); DD(j, j) = d * ph / cabsl(ph); }
    }
}
static int c12_emax(const vf_api *P) { return P->rsz == 4 ? 6 : 14; }

static void c12_gen_scaled(vf_rng *r, const vf_api *P, int n, vf_mat *A, char *note, size_t nl)
{
    ldc *D = malloc(sizeof(ldc) * (size_t)n * n); unsigned char *S = malloc((size_t)n * n + 1);
    c12_base(r, P, n, rng_bool(r, 0.3), 0, D, S);
    int mode = rng_int(r, 0, 4); ld E = (ld)rng_unif(r) * c12_emax(P);
    ld *rs = malloc(sizeof(ld) * (size_t)n), *cs = malloc(sizeof(ld) * (size_t)n); int *ord = malloc(sizeof(int) * (size_t)n);
    if (rng_bool(r, 0.5)) rng_perm(r, ord, n); else for (int i = 0; i < n; i++) ord[i] = i;
    for (int i = 0; i < n; i++) { rs[i] = cs[i] = 1; }
    static const char *mn[] = { "rows", "cols", "both", "graded-cols", "graded-rows" };
    for (int i = 0; i < n; i++) {
        ld g = powl(10.0L, -E * (ld)ord[i] / (ld)(n > 1 ? n - 1 : 1)), u1 = powl(10.0L, E * ((ld)rng_unif(r) - 0.5L)), u2 = powl(10.0L, 0.5L * E * ((ld)rng_unif(r) - 0.5L));
        if (mode == 0) rs[i] = u1; else if (mode == 1) cs[i] = u1; else if (mode == 2) { rs[i] = u2; cs[i] = powl(10.0L, 0.5L * E * ((ld)rng_unif(r) - 0.5L)); }
        else if (mode == 3) cs[i] = g; else rs[i] = g;
    }
    for (int j = 0; j < n; j++) for (int i = 0; i < n; i++) DD(i, j) *= rs[i] * cs[j];
    c12_compress(r, P, n, D, S, A); snprintf(note, nl, "base x diagonal scaling of %s over 10^%.1Lf", mn[mode], E);
    free(D); free(S); free(rs); free(cs); free(ord);
}
static void c12_gen_nearsing(vf_rng *r, const vf_api *P, int n, vf_mat *A, char *note, size_t nl)
{
    ldc *D = malloc(sizeof(ldc) * (size_t)n * n); unsigned char *S = malloc((size_t)n * n + 1);
    int exact = rng_bool(r, 0.4) && n >= 2;
    c12_base(r, P, n, rng_bool(r, 0.4), exact, D, S);
    int i0 = rng_int(r, 0, n - 1), m = n >= 2 ? rng_int(r, 1, n - 1 < 3 ? n - 1 : 3) : 0;
    int *oth = malloc(sizeof(int) * (size_t)(n + 1)); rng_perm(r, oth, n);
    if (!exact) {
        /* row i0 := delta * row i0 + combination of m other rows: distance to singularity about delta */
        ld delta = powl(10.0L, -(ld)rng_unif(r) * (c12_emax(P) + 3));
        if (n == 1) delta = 1;
        for (int j = 0; j < n; j++) DD(i0, j) *= delta;
        int used = 0;
        for (int t = 0; t < n && used < m; t++) { int k = oth[t]; if (k == i0) continue; ldc ck = c12_rval(r, P); used++;
            for (int j = 0; j < n; j++) if (SS(k, j)) { DD(i0, j) += ck * DD(k, j); SS(i0, j) = 1; } }
        snprintf(note, nl, "row %d = %.2Le * itself + combination of %d rows", i0, delta, used);
    } else {
        /* small-integer matrix whose row i0 is an exact combination of other rows, plus 2^-k at one position */
        for (int j = 0; j < n; j++) { DD(i0, j) = 0; SS(i0, j) = 0; }
        int used = 0;
        for (int t = 0; t < n && used < m; t++) { int k = oth[t]; if (k == i0) continue; ld ck = rng_bool(r, 0.5) ? 1 : -1; if (rng_bool(r, 0.3)) ck *= 2; used++;
            for (int j = 0; j < n; j++) if (SS(k, j)) { DD(i0, j) += ck * DD(k, j); SS(i0, j) = 1; } }
        int k2 = rng_int(r, 0, P->rsz == 4 ? 36 : 72), j0 = rng_int(r, 0, n - 1);
        DD(i0, j0) += ldexpl(1.0L, -k2); SS(i0, j0) = 1;
        snprintf(note, nl, "integer matrix, row %d exact combination of %d rows, + 2^-%d at (%d,%d)", i0, used, k2, i0, j0);
    }
    c12_compress(r, P, n, D, S, A); free(D); free(S); free(oth);
}
/* one dense scaled row (wantrow) or column on top of a diagonal: cond_inf/cond_1 (resp. the inverse ratio) grows like n^2/2 */
static void c12_gen_normgap(vf_rng *r, const vf_api *P, int n, int wantrow, vf_mat *G, char *note, size_t nl)
{
    ldc *D = calloc((size_t)n * n, sizeof(ldc)); unsigned char *S = calloc((size_t)n * n + 1, 1);
    for (int j = 0; j < n; j++) { ldc ph = c12_rval(r, P); SS(j, j) = 1; DD(j, j) = (0.6L + 0.4L * (ld)rng_unif(r)) * ph / cabsl(ph); }
    int p = rng_int(r, 0, n - 1); ld s = powl(10.0L, 0.7L + 2.3L * (ld)rng_unif(r));
    for (int j = 0; j < n; j++) { ldc ph = c12_rval(r, P); ldc w = s * (0.7L + 0.3L * (ld)rng_unif(r)) * ph / cabsl(ph);
        if (wantrow) { DD(p, j) += w; SS(p, j) = 1; } else { DD(j, p) += w; SS(j, p) = 1; } }
    int noise = rng_int(r, 0, n / 2);
    for (int t = 0; t < noise; t++) { int i = rng_int(r, 0, n - 1), j = rng_int(r, 0, n - 1); if (!SS(i, j)) { SS(i, j) = 1; DD(i, j) = 0.02L * c12_rval(r, P); } }
    c12_compress(r, P, n, D, S, G); snprintf(note, nl, "diagonal + dense %s %d scaled by %.1Lf", wantrow ? "row" : "column", p, s);
    free(D); free(S);
}
/* exactly singular matrices as in C04: empty column/row, Hall violation, proportional row/column pairs */
static void c12_gen_singular(vf_rng *r, const vf_api *P, int n, vf_mat *A, char *note, size_t nl)
{
    ldc *D = calloc((size_t)n * n, sizeof(ldc)); unsigned char *S = calloc((size_t)n * n + 1, 1); int ints = rng_bool(r, 0.35);
#define SET(i, j) do { SS(i, j) = 1; DD(i, j) = ints ? c12_ival(r, P) : c12_p2val(r, P); } while (0)
    int *pr = malloc(sizeof(int) * (size_t)n), *pc = malloc(sizeof(int) * (size_t)n); rng_perm(r, pr, n); rng_perm(r, pc, n);
    for (int j = 0; j < n; j++) SET(pr[j], pc[j]);
    int extra = rng_int(r, 0, 3 * n);
    for (int t = 0; t < extra; t++) { int a = rng_int(r, 0, n - 1), b = rng_int(r, 0, n - 1); if (!SS(a, b)) SET(a, b); }
    int kind = rng_int(r, 0, 4); if (kind == 2 && n < 3) kind = 0; if (kind >= 3 && n < 2) kind = 0;
    int k = n >= 6 ? rng_int(r, 1, 2) : 1;
    if (kind <= 1) {
        for (int t = 0; t < k; t++) { int x = rng_bool(r, 0.3) ? (rng_bool(r, 0.5) ? 0 : n - 1) : rng_int(r, 0, n - 1);
            for (int i = 0; i < n; i++) { if (kind == 0) { SS(i, x) = 0; DD(i, x) = 0; } else { SS(x, i) = 0; DD(x, i) = 0; } } }
        snprintf(note, nl, "%d empty %s", k, kind == 0 ? "column(s)" : "row(s)");
    } else if (kind == 2) {
        int q = rng_int(r, 2, n < 5 ? n - 1 : 4); int *cols = malloc(sizeof(int) * (size_t)n), *rows = malloc(sizeof(int) * (size_t)n); rng_perm(r, cols, n); rng_perm(r, rows, n);
        for (int a = 0; a < q; a++) { for (int i = 0; i < n; i++) { SS(i, cols[a]) = 0; DD(i, cols[a]) = 0; }
            for (int b = 0; b < q - 1; b++) if (rng_bool(r, 0.7) || b == a % (q - 1)) SET(rows[b], cols[a]); }
        free(cols); free(rows); snprintf(note, nl, "%d columns confined to %d rows", q, q - 1);
    } else {
        for (int t = 0; t < k; t++) { int a = rng_int(r, 0, n - 1), b; do b = rng_int(r, 0, n - 1); while (b == a);
            ld f = ldexpl(rng_bool(r, 0.5) ? 1.0L : -1.0L, rng_int(r, -1, 1));
            for (int i = 0; i < n; i++) { if (kind == 3) { SS(b, i) = SS(a, i); DD(b, i) = DD(a, i) * f; } else { SS(i, b) = SS(i, a); DD(i, b) = DD(i, a) * f; } } }
        snprintf(note, nl, "%d proportional %s pair(s)", k, kind == 3 ? "row" : "column");
    }
#undef SET
    c12_compress(r, P, n, D, S, A); free(D); free(S); free(pr); free(pc);
}

/* ------------------------------------------------------------------ growth factor from the returned store */
/* U_j = the NC part of column j (rows above the supernode) plus the first j - fsupc + 1 stored values of column j of
   its supernode (rows fsupc..j).  Returns 0 and the two admissible references (a column with max|U_j| = 0 counted
   as ratio 1 / skipped), or a nonzero code when the store cannot be read consistently for the leading ncols columns.
   strict = 0 (singular returns): the supernode of a pivotless column may have a row list shorter than its column count. */
static int c12_growth(vf_case *c, const vf_api *P, const SuperMatrix *L, const SuperMatrix *U, const vf_mat *F, const int *perm_c, int ncols,
                      ld *ref_one, ld *ref_skip, int *nzerocols, int *argmin, int *nshort, int strict)
{
    const SCformat *Ls = L->Store; const NCformat *Us = U->Store; int n = F->n;
    if (!Ls || !Us || !Ls->sup_to_col || !Ls->col_to_sup || !Ls->nzval_colptr || !Ls->rowind_colptr || !Us->colptr) return 1;
    long nsuper = (long)Ls->nsuper; if (nsuper < 0 || nsuper >= n) return 1;
    int_t lend = Ls->nzval_colptr[n], uend = Us->colptr[n];
    int *ipc = malloc(sizeof(int) * (size_t)n); for (int j = 0; j < n; j++) ipc[j] = -1;
    for (int j = 0; j < n; j++) if (perm_c[j] >= 0 && perm_c[j] < n) ipc[perm_c[j]] = j;
    ld one = INFINITY, skip = INFINITY; int nz = 0, am = -1, bad = 0; *nshort = 0;
    for (int j = 0; j < ncols && !bad; j++) {
        int s = Ls->col_to_sup[j]; if (s < 0 || s > nsuper) { bad = 1; break; }
        int f = Ls->sup_to_col[s], l = Ls->sup_to_col[s + 1]; if (f < 0 || f > j || l <= j || l > n) { bad = 2; break; }
        long nsupr = (long)(Ls->rowind_colptr[f + 1] - Ls->rowind_colptr[f]); int_t v0 = Ls->nzval_colptr[j];
        /* a singular factorization may leave the supernode of the pivotless column with a short (even empty) row list:
           only values stored for column j itself are U entries */
        int_t vnext = Ls->nzval_colptr[j + 1]; if (nsupr < 0 || nsupr > n || v0 < 0 || vnext < v0 || vnext > lend || (strict && (vnext - v0 != nsupr || nsupr < l - f))) { bad = 3; break; }
        int ucnt = j - f + 1; if ((int_t)ucnt > vnext - v0) { ucnt = (int)(vnext - v0); (*nshort)++; }
        if (ipc[j] < 0) { bad = 4; break; }
        ld maxa = 0, maxu = 0;
        for (int_t q = F->colptr[ipc[j]]; q < F->colptr[ipc[j] + 1]; q++) { ld a = abs1(F->v[q]); if (a > maxa) maxa = a; }
        int_t us = Us->colptr[j], ue = Us->colptr[j + 1]; if (us < 0 || ue < us || ue > uend) { bad = 5; break; }
        for (int_t q = us; q < ue; q++) { ld a = abs1(P->get(Us->nzval, (size_t)q)); if (a > maxu) maxu = a; }
        for (int k = 0; k < ucnt; k++) { ld a = abs1(P->get(Ls->nzval, (size_t)(v0 + k))); if (a > maxu) maxu = a; }
        if (!strict || ncols <= 12) vf_log(c, "  col %d (orig %d): snode %d [%d,%d) nsupr=%ld stored=%lld ucnt=%d U-store=%lld max|A_j|=%.6Lg max|U_j|=%.6Lg", j, ipc[j], s, f, l, nsupr, (long long)(vnext - v0), ucnt, (long long)(ue - us), maxa, maxu);
        if (maxu == 0) { nz++; if (1.0L < one) { one = 1; } continue; }
        ld q = maxa / maxu; if (q < one) { one = q; am = j; } if (q < skip) skip = q;
    }
    free(ipc); if (bad) return bad;
    *ref_one = one; *ref_skip = skip; *nzerocols = nz; *argmin = am; return 0;
}
static int c12_close(ld a, ld b, ld rel) { if (a == b) return 1; if (!isfinite((double)a) || !isfinite((double)b)) return 0; return fabsl(a - b) <= rel * fmaxl(fabsl(a), fabsl(b)); }

static const char *c12_decade(ld cond)
{
    if (!(cond < INFINITY)) return "cond=inf";
    if (cond < 1e2L) return "cond=1e0-1e2"; if (cond < 1e4L) return "cond=1e2-1e4"; if (cond < 1e6L) return "cond=1e4-1e6";
    if (cond < 1e8L) return "cond=1e6-1e8"; if (cond < 1e11L) return "cond=1e8-1e11"; if (cond < 1e14L) return "cond=1e11-1e14";
    if (cond < 1e17L) return "cond=1e14-1e17"; return "cond>=1e17";
}

static void c12_run(vf_case *c)
{
    const vf_api *P = c->P; vf_rng *r = &c->rng; char buf[400], why[300], note[160];
    run_opts o; gen_run_opts(r, &o, 1);
    int cls; { double u = rng_unif(r); cls = u < 0.26 ? K_GEN : u < 0.48 ? K_SCALED : u < 0.68 ? K_NEARSING : u < 0.93 ? K_NORMGAP : K_SINGULAR; }
    superlu_options_t xo = o.opt; xo.Fact = DOFACT; xo.PrintStat = NO; xo.ConditionNumber = YES; xo.PivotGrowth = YES;
    if (rng_bool(r, 0.7)) xo.IterRefine = NOREFINE;
    if (rng_bool(r, 0.5)) xo.DiagPivotThresh = 1.0;          /* half of the cases: classical partial pivoting, small growth */
    int notranF = o.rowmajor ? xo.Trans != NOTRANS : xo.Trans == NOTRANS;    /* driver's `notran` after the SLU_NR swap */
    vf_mat A; note[0] = 0; gen_spec g; memset(&g, 0, sizeof g);
    if (cls == K_GEN) {
        gen_spec_random(r, P, &g, 1, 40, 1);
        static const int pats[] = { PAT_RANDOM_DIAG, PAT_RANDOM_DIAG, PAT_BAND, PAT_ARROW, PAT_BLOCKDIAG, PAT_BLOCKTRI, PAT_PERMTRI, PAT_GRID, PAT_DENSE, PAT_DIAG };
        g.pattern = rng_pick(r, pats, 10);
        static const int vals[] = { VAL_UNIF, VAL_UNIF, VAL_DIAGDOM, VAL_ROWSCALED, VAL_COLSCALED, VAL_BOTHSCALED, VAL_GRADED, VAL_GRADED, VAL_SMALLINT, VAL_POW2 };
        g.values = rng_pick(r, vals, 10); g.explicit_zeros = 0;
        g.scale_exp = P->rsz == 4 ? rng_int(r, 1, 4) : rng_int(r, 1, 12);
        gen_matrix(r, P, &g, &A); gen_spec_str(&g, note, sizeof note);
    } else if (cls == K_SCALED) c12_gen_scaled(r, P, rng_bool(r, 0.1) ? rng_int(r, 1, 3) : rng_int(r, 2, 40), &A, note, sizeof note);
    else if (cls == K_NEARSING) c12_gen_nearsing(r, P, rng_bool(r, 0.1) ? rng_int(r, 1, 3) : rng_int(r, 2, 32), &A, note, sizeof note);
    else if (cls == K_NORMGAP) {
        int n = rng_bool(r, 0.55) ? rng_int(r, 48, 76) : rng_int(r, 4, 47);
        /* mostly the orientation in which the norm the driver must NOT use gives the larger condition number */
        int wantrow = rng_bool(r, 0.85) ? notranF : !notranF;
        vf_mat G; c12_gen_normgap(r, P, n, wantrow, &G, note, sizeof note);
        if (o.rowmajor) { mat_transpose(&A, &G); mat_free(&G); } else A = G;      /* the factored matrix is G in both schemes */
    } else {
        c12_gen_singular(r, P, rng_bool(r, 0.15) ? rng_int(r, 1, 3) : rng_int(r, 2, rng_bool(r, 0.8) ? 14 : 30), &A, note, sizeof note);
        if (rng_bool(r, 0.7)) xo.Equil = NO;
    }
    int n = A.n, nrhs = rng_int(r, 0, 2);
    gen_tuning(r, o.tuning_small);
    vf_desc(c, "class=%s %dx%d nnz=%lld (%s); ", c12_cls[cls], n, n, (long long)A.nnz, note);
    o.opt = xo; o.nrhs = nrhs; run_opts_str(&o, buf, sizeof buf); vf_desc(c, "%s; ", buf); tuning_str(buf, sizeof buf); vf_desc(c, "%s", buf);
    ldc *B0 = malloc(sizeof(ldc) * (size_t)n * (size_t)(nrhs + 1));
    for (int k = 0; k < n * nrhs; k++) B0[k] = P->round(c12_upm(r) + (P->cplx ? c12_upm(r) * I : 0));
    xdrv D; xdrv_init(&D, P, &A, o.rowmajor, nrhs, o.ldpad, rng_int(r, 0, 2), B0, 0);
    if (xo.ColPerm == MY_PERMC) rng_perm(r, D.perm_c, n);
    int use_ws = rng_bool(r, 0.15); void *work = NULL;
    if (use_ws) { D.lwork = (int_t)generous_lwork(P, n, A.nnz); work = vf_ws_alloc(c, (size_t)D.lwork); D.work = work; }

    xdrv_call(&D, &xo);

    int_t info = D.info; ld eps = P->eps, machE = P->mach("E");
    vf_tag(c, "prec=%c", P->letter); vf_tag(c, "class=%s", c12_cls[cls]); vf_tag(c, "%s", o.rowmajor ? "NR" : "NC"); vf_tag(c, "trans=%d", (int)xo.Trans);
    vf_tag(c, "equil=%d", xo.Equil == YES); vf_tag(c, "equed=%c", D.equed[0]); vf_tag(c, "norm=%s", notranF ? "1" : "I"); vf_tag(c, "mem=%s", use_ws ? "workspace" : "malloc");
    vf_tag(c, "u=%g", xo.DiagPivotThresh);
    vf_sig_u64(c, mat_pattern_hash(&A)); vf_sig_u64(c, (uint64_t)xo.Trans * 64 + (uint64_t)o.rowmajor * 32 + (uint64_t)(xo.Equil == YES) * 16 + (uint64_t)xo.ColPerm); vf_sig_u64(c, (uint64_t)D.equed[0] * 8 + (uint64_t)cls);
    if (info == 0 || info == n + 1) {
        vf_tag(c, info ? "info=n+1" : "info=0"); if (info) c->counters[5]++;
        if (!is_perm(D.perm_r, n) || !is_perm(D.perm_c, n)) vf_viol(c, "perm-not-bijection", "perm_r/perm_c are not permutations with info=%lld", (long long)info);
        else if (structure_ok(P, &D.L, &D.U, n, n, 0, why, sizeof why)) vf_viol(c, "factors-malformed", "cannot evaluate the clauses: %s", why);
        else {
            vf_mat F; xdrv_factored_matrix(&D, &F);
            ldc *Ld = malloc(sizeof(ldc) * (size_t)n * n), *Ud = malloc(sizeof(ldc) * (size_t)n * n);
            expand_LU(P, &D.L, &D.U, n, n, Ld, Ud);
            int finite = 1; for (size_t q = 0; q < (size_t)n * n && finite; q++) if (!isfinite((double)creall(Ld[q])) || !isfinite((double)cimagl(Ld[q])) || !isfinite((double)creall(Ud[q])) || !isfinite((double)cimagl(Ud[q]))) finite = 0;
            if (!finite) { vf_tag(c, "factors=nonfinite"); vf_skip(c, "factors hold non-finite values (overflow under weak pivoting): estimates undefined"); }
            else {
                /* ---- growth clause */
                ld g1, g2; int nz, am, nshort;
                if (c12_growth(c, P, &D.L, &D.U, &F, D.perm_c, n, &g1, &g2, &nz, &am, &nshort, 1)) vf_viol(c, "factors-malformed", "factor store unreadable for the growth scan");
                else {
                    ld tol = 8 * eps; c->counters[3]++;
                    if (!(c12_close(D.rpg, g1, tol) || (nz && isfinite((double)g2) && c12_close(D.rpg, g2, tol))))
                        vf_viol(c, "growth-mismatch", "recip_pivot_growth = %.10Lg but min_j max|A_j|/max|U_j| over the returned factors = %.10Lg (attained at column %d of A*Pc; relative difference %.3Lg, tolerance 8 eps; %s, equed=%c, %d columns with max|U_j|=0)",
                                D.rpg, g1, am, fabsl(D.rpg - g1) / fmaxl(fabsl(g1), P->tiny), o.rowmajor ? "NR" : "NC", D.equed[0], nz);
                    { const SCformat *Ls = D.L.Store; int s = am >= 0 ? Ls->col_to_sup[am] : 0; int f = Ls->sup_to_col[s];
                      vf_tag(c, "growthmin=%s", am < 0 ? "none" : am == f ? "snode-first-col" : "snode-inner-col");
                      if (am >= 0) { const NCformat *Us = D.U.Store; ld mu = 0, ms = 0; for (int_t q = Us->colptr[am]; q < Us->colptr[am + 1]; q++) { ld a = abs1(P->get(Us->nzval, (size_t)q)); if (a > mu) mu = a; }
                          for (int k = 0; k <= am - f; k++) { ld a = abs1(P->get(Ls->nzval, (size_t)(Ls->nzval_colptr[am] + k))); if (a > ms) ms = a; }
                          vf_tag(c, "growthmax-in=%s", mu > ms ? "U-store" : am > f && ms > abs1(P->get(Ls->nzval, (size_t)(Ls->nzval_colptr[am] + (am - f)))) ? "snode-above-diag" : "snode-diag"); }
                      vf_tag(c, "rpg=%s", g1 >= 0.99L ? "~1" : g1 > 1e-3L ? "1e-3..1" : "<1e-3"); }
                }
                /* ---- condition clauses */
                ld n1, in1, ni, ini; dense_cond1(&F, &n1, &in1, &ni, &ini);
                ld cond_right = notranF ? n1 * in1 : ni * ini, cond_wrong = notranF ? ni * ini : n1 * in1;
                int singular_ld = !isfinite((double)in1) || !isfinite((double)cond_right);
                /* rho = || |L||U| || / ||F|| in both norms: the backward error of factorization + solves is gamma * |L||U| */
                ld rho = 1;
                {   ld *E = calloc((size_t)n * n, sizeof(ld));
                    for (int j = 0; j < n; j++) for (int k = 0; k <= j; k++) { ld u = cabsl(Ud[(size_t)j * n + k]); if (u == 0) continue; for (int i = k; i < n; i++) { ld l = cabsl(Ld[(size_t)k * n + i]); if (l != 0) E[(size_t)j * n + i] += l * u; } }
                    ld e1 = 0, ei = 0; ld *rs = calloc((size_t)n, sizeof(ld));
                    for (int j = 0; j < n; j++) { ld s = 0; for (int i = 0; i < n; i++) { s += E[(size_t)j * n + i]; rs[i] += E[(size_t)j * n + i]; } if (s > e1) e1 = s; }
                    for (int i = 0; i < n; i++) if (rs[i] > ei) ei = rs[i];
                    if (n1 > 0 && e1 / n1 > rho) rho = e1 / n1; if (ni > 0 && ei / ni > rho) rho = ei / ni;
                    if (!isfinite((double)rho)) rho = INFINITY;
                    free(E); free(rs); }
                ld rc = D.rcond, cf = P->cplx ? 30 : 10;
                vf_tag(c, "%s", singular_ld ? "cond=inf" : c12_decade(cond_right));
                ld gap = (!singular_ld && isfinite((double)cond_wrong) && cond_right > 0) ? cond_wrong / cond_right : 1;
                if (gap >= 1e3L) { vf_tag(c, "normgap>=1e3"); c->counters[6]++; } else if (gap >= 30) vf_tag(c, "normgap>=30"); else if (gap <= 1 / 30.0L) vf_tag(c, "normgap<=1/30");
                vf_log(c, "rcond=%.6Lg true(right)=%.6Lg true(wrong)=%.6Lg rho=%.3Lg rpg=%.6Lg ref=%.6Lg info=%lld equed=%c norm=%s", rc, singular_ld ? 0 : 1 / cond_right, 1 / cond_wrong, rho, D.rpg, g1, (long long)info, D.equed[0], notranF ? "1" : "I");
                if (!(rc >= 0) || !isfinite((double)rc)) vf_viol(c, "rcond-not-a-bound", "rcond = %Lg is negative or not finite (info=%lld)", rc, (long long)info);
                else {
                    /* (1) never above one: ||F|| * ||F^-1 x|| >= ||x|| up to the backward error of the solve */
                    ld up = 1 + (cf * n * rho + 8 * n) * eps;
                    if (isfinite((double)up) && rc > up) vf_viol(c, "rcond-above-one", "rcond = %.17Lg > 1 + %.3Lg (n=%d, growth of |L||U| %.3Lg)", rc, up - 1, n, rho);
                    /* (2) one-sided bound, inside the conditioning gate */
                    ld gate = singular_ld ? INFINITY : n * eps * cond_right * rho;
                    if (!singular_ld && gate < 0.02L) {
                        ld rt = 1 / cond_right, slack = cf * gate + (4 * n + 100) * eps;
                        c->counters[0]++; vf_tag(c, "gate=in");
                        if (!(rc >= rt * (1 - slack)))
                            vf_viol(c, "rcond-below-true", "rcond = %.6Lg is below the true reciprocal %s-norm condition number %.6Lg of the factored matrix by a factor %.4Lg (allowed 1 - %.3Lg; other norm would give %.6Lg; %s trans=%d equed=%c n=%d)",
                                    rc, notranF ? "1" : "inf", rt, rc / rt, slack, 1 / cond_wrong, o.rowmajor ? "NR" : "NC", (int)xo.Trans, D.equed[0], n);
                        ld ratio = rc / rt; long pm = ratio > 1e6L ? 1000000000L : (long)(ratio * 1000); if (pm > c->counters[1]) c->counters[1] = pm;
                        long ppm = ratio < 1 ? (long)((1 - ratio) * 1e6L) : 0; if (ppm > c->counters[2]) c->counters[2] = ppm;
                        vf_tag(c, "est/true=%s", ratio < 1.0001L ? "exact" : ratio < 1.5L ? "<1.5" : ratio < 4 ? "<4" : ">=4");
                        c->nontrivial = n >= 2;
                    } else { vf_tag(c, "gate=out"); c->counters[7]++; }
                    /* (3) info = n+1 exactly when rcond < eps (the library's ?mach("E")); a few ulp around the threshold are undecided */
                    int expect = rc < machE, near = fabsl(rc - machE) <= 4 * eps * machE;
                    if (!near && expect != (info == n + 1))
                        vf_viol(c, "info-n+1-mismatch", "rcond = %.6Lg, machine epsilon %.6Lg, but info = %lld (n = %d)", rc, machE, (long long)info, n);
                    if (!near) { vf_tag(c, expect ? "warn=yes" : "warn=no"); if (n >= 2) c->nontrivial = 1; } else vf_tag(c, "warn=near-threshold");
                }
            }
            free(Ld); free(Ud); mat_free(&F);
        }
    } else if (info > 0 && info <= n) {
        vf_tag(c, "info=singular");
        if (!is_perm(D.perm_c, n)) vf_viol(c, "perm-not-bijection", "perm_c is not a permutation with info=%lld", (long long)info);
        else {
            vf_mat F; xdrv_factored_matrix(&D, &F); ld g1, g2; int nz, am, nshort;
            int gb; if ((gb = c12_growth(c, P, &D.L, &D.U, &F, D.perm_c, (int)info, &g1, &g2, &nz, &am, &nshort, 0))) vf_tag(c, "singular-store=unreadable%d", gb);
            else {
                ld tol = 8 * eps; c->counters[4]++; c->nontrivial = 1; vf_tag(c, "singular-growth=compared"); vf_tag(c, nz ? "zeroUcol=yes" : "zeroUcol=no"); vf_tag(c, nshort ? "shortcol=yes" : "shortcol=no");
                vf_log(c, "singular: info=%lld rpg=%.10Lg ref(one)=%.10Lg ref(skip)=%.10Lg zero-U columns=%d", (long long)info, D.rpg, g1, g2, nz);
                if (!(c12_close(D.rpg, g1, tol) || (nz && isfinite((double)g2) && c12_close(D.rpg, g2, tol))))
                    vf_viol(c, nshort ? "growth-mismatch-singular-short-snode" : "growth-mismatch-singular", "info=%lld: recip_pivot_growth = %.10Lg but min over the leading %lld columns of max|A_j|/max|U_j| from the returned factors = %.10Lg (skipping the %d columns with max|U_j|=0: %.10Lg)",
                            (long long)info, D.rpg, (long long)info, g1, nz, g2);
            }
            mat_free(&F);
        }
    } else if (info > n + 1 && use_ws) vf_tag(c, "info=nomem");
    else vf_viol(c, "info-unexpected", "gssvx returned info=%lld on a valid call", (long long)info);
    vf_sig_u64(c, (uint64_t)(info == 0) + 2 * (uint64_t)(info == n + 1));
    free(B0); xdrv_free(&D); free(work); mat_free(&A);
    vf_check_ledger(c, "after gssvx lifecycle");
}
VF_REGISTER("C12", c12_run)
