/* C07 - how factor storage is obtained never changes the answer (bitwise), counts/memory usage describe the factors. */
#include "fact.h"

static uint64_t run_hash(const vf_api *P, const fact_run *R) { return hash_factors(P, &R->L, &R->U, R->perm_r, R->perm_c, R->m, R->n); }

static void check_query(vf_case *c, const vf_api *P, fact_run *R, int ilu, const char *what)
{
    mem_usage_t mu; mu.for_lu = mu.total_needed = -1;
    if (ilu) P->ilu_QuerySpace(&R->L, &R->U, &mu); else P->QuerySpace(&R->L, &R->U, &mu);
    const SCformat *Ls = R->L.Store; const NCformat *Us = R->U.Store; int n = R->n;
    /* bytes actually held by the returned factor arrays */
    double iw = sizeof(int), dw = (double)P->ssz;
    double held = (4.0 * n + 3.0) * iw + (double)Ls->nzval_colptr[n] * dw + (double)Ls->rowind_colptr[n] * iw + (n + 1.0) * iw + (double)Us->colptr[n] * (dw + iw);
    if (!(fabs(mu.for_lu - held) <= 1e-5 * held + 1)) vf_viol(c, "for_lu-mismatch", "%s: QuerySpace for_lu=%g but the returned factors hold %g bytes by the documented accounting", what, (double)mu.for_lu, held);
    if (!(mu.total_needed >= mu.for_lu)) vf_viol(c, "total_needed<for_lu", "%s: total_needed=%g < for_lu=%g", what, (double)mu.total_needed, (double)mu.for_lu);
    /* "number of memory expansions during the factorization" (stat->expansions, copied to mem_usage->expansions by the drivers) against the
       growths in flight the monitor saw during this call: ?expand calls inside the caller's workspace (guarded hook) or allocations made by
       ?expand under library allocation (ledger), the four initial requests excluded */
    if (R->growths >= 0) { c->counters[6]++; if ((long)R->stat.expansions != R->growths)
        vf_viol(c, "expansions-misreported", "%s: the factorization reports %d memory expansions, the monitor observed %ld growths in flight during this call", what, R->stat.expansions, R->growths); }
}

static void c07_run(vf_case *c)
{
    const vf_api *P = c->P; vf_rng *r = &c->rng; char buf[400], why[300];
    gen_spec g; run_opts o;
    gen_spec_random(r, P, &g, 2, 45, 1);
    static const int pats[] = { PAT_RANDOM_DIAG, PAT_GRID, PAT_ARROW, PAT_BAND, PAT_BLOCKTRI, PAT_DENSE, PAT_RANDOM_DIAG, PAT_GRID };
    g.pattern = rng_pick(r, pats, 8); if (g.values == VAL_SMALLINT || g.values == VAL_POW2) g.values = VAL_UNIF;
    g.explicit_zeros = 0;
    int ilu = rng_bool(r, 0.3);
    if (ilu) g.values = rng_bool(r, 0.5) ? VAL_UNIF : VAL_DIAGDOM;
    int tall = !ilu && rng_bool(r, 0.2);      /* ?gstrf called directly accepts m > n: the m-long work arrays then differ from the n-long ones */
    if (tall) g.m = g.n + rng_int(r, 1, 1 + g.n / 2);
    vf_mat A; gen_matrix(r, P, &g, &A);
    if (ilu && rng_bool(r, 0.4)) {     /* structurally missing diagonal entries (still structurally nonsingular): ?gsitrf's fill-in path for emptied L columns */
        gen_spec g2 = g; g2.drop_diag = rng_int(r, 1, 3); if (g2.pattern == PAT_DENSE) g2.pattern = PAT_BAND;
        vf_mat A2; gen_matrix(r, P, &g2, &A2);
        if (sprank(&A2) == A2.n) { mat_free(&A); A = A2; g = g2; vf_tag(c, "ilu-missing-diagonal"); } else mat_free(&A2);
    }
    int gadget = ilu && rng_bool(r, 0.25);
    if (gadget) { vf_mat A2; gen_ilu_emptycol(r, P, rng_int(r, 8, 40), &A2); if (sprank(&A2) == A2.n) { mat_free(&A); A = A2; vf_tag(c, "ilu-emptied-column-gadget"); } else { mat_free(&A2); gadget = 0; } }
    gen_run_opts(r, &o, 0);
    if (tall && o.opt.ColPerm == MMD_AT_PLUS_A) o.opt.ColPerm = MMD_ATA;   /* A'+A needs a square matrix (documented) */
    gen_tuning(r, 1);
    int n = A.n;
    superlu_options_t opt;
    if (ilu) { gen_ilu_options(r, &opt); opt.RowPerm = NOROWPERM;
        if (gadget) { opt.ColPerm = NATURAL; opt.ILU_DropRule |= DROP_BASIC; if (opt.ILU_DropTol < 1e-4) opt.ILU_DropTol = 1e-2; }
        ilu_options_str(&opt, buf, sizeof buf); }
    else { set_default_options(&opt); opt.ColPerm = o.opt.ColPerm; opt.DiagPivotThresh = o.opt.DiagPivotThresh; opt.SymmetricMode = o.opt.SymmetricMode; opt.PrintStat = NO; run_opts_str(&o, buf, sizeof buf); }
    int *mypc = malloc(sizeof(int) * (size_t)(n + 1)); rng_perm(r, mypc, n);
    char gs[200]; gen_spec_str(&g, gs, sizeof gs); vf_desc(c, "%s %s; %s; ", ilu ? "gsitrf" : "gstrf", gs, buf); tuning_str(buf, sizeof buf); vf_desc(c, "%s", buf);
    vf_tag(c, "prec=%c", P->letter); vf_tag(c, "%s", ilu ? "ilu" : "complete"); vf_tag(c, "%s", tall ? "tall" : "square");
    if (ilu) vf_note(c, "ilu");
    if (sprank(&A) < n) { vf_note(c, "structsing"); vf_tag(c, "structsing"); }
    vf_sig_u64(c, mat_pattern_hash(&A)); vf_sig_u64(c, (uint64_t)ilu * 16 + (uint64_t)opt.ColPerm);
    /* reference: fill estimate 30, library allocation */
    vf_ienv_set(6, 30);
    fact_run R0; fact_do(P, &A, &opt, mypc, NULL, 0, ilu, &R0);
    int ok0 = ilu ? (R0.info >= 0 && R0.info <= n) : R0.info == 0;
    if (!ok0) { vf_tag(c, "reference-not-successful"); fact_free(&R0); free(mypc); mat_free(&A); vf_check_ledger(c, "after reference"); return; }
    if (ilu && sprank(&A) < n) { vf_tag(c, "ilu-structsing-not-judged"); vf_skip(c, "incomplete factorization of a structurally singular matrix (outside C15's domain; listed finding F14)"); fact_free(&R0); free(mypc); mat_free(&A); vf_check_ledger(c, "after reference"); return; }
    if (structure_ok(P, &R0.L, &R0.U, A.m, n, ilu, why, sizeof why)) { vf_viol(c, "reference-malformed", "%s", why); fact_free(&R0); free(mypc); mat_free(&A); return; }
    uint64_t h0 = run_hash(P, &R0); int_t info0 = R0.info; int exp0 = R0.stat.expansions;
    check_query(c, P, &R0, ilu, "reference");
    int compared = 0, maxexp = exp0, minexp = exp0;
    /* (1) fill estimates 1..8 under library allocation */
    for (int f = 1; f <= 8 && c->nmore < 3; f++) {
        if (f > 4 && rng_bool(r, 0.5)) continue;
        vf_ienv_set(6, f);
        fact_run R; fact_do(P, &A, &opt, mypc, NULL, 0, ilu, &R);
        if (R.info != info0) vf_viol(c, "info-depends-on-fill", "fill estimate %d: info=%lld, reference (fill 30) info=%lld", f, (long long)R.info, (long long)info0);
        else if (run_hash(P, &R) != h0) vf_viol(c, "factors-depend-on-fill", "fill estimate %d (%d expansions): perms/L/U bytes differ from the fill-30 run (%d expansions)", f, R.stat.expansions, exp0);
        else { compared++; check_query(c, P, &R, ilu, "fill variant"); }
        if (R.stat.expansions > maxexp) maxexp = R.stat.expansions; if (R.stat.expansions < minexp) minexp = R.stat.expansions;
        fact_free(&R);
    }
    /* (2) caller workspace: geometric ladder of lengths down to the first failure, both alignments, two fill estimates */
    {
        size_t G = generous_lwork(P, A.m, A.nnz); unsigned char *buf0 = vf_ws_alloc(c, G + 64);
        int nws = 0, nshort = 0;
        for (int pass = 0; pass < 2 && c->nmore < 3; pass++) {
            int f = pass == 0 ? 30 : rng_int(r, 1, 3); vf_ienv_set(6, f);
            size_t len = G, last_ok = 0, first_bad = 0; int failed = 0;
            for (int t = 0; t < 14 && !failed && c->nmore < 3; t++) {
                int align4 = rng_bool(r, 0.5); void *work = buf0 + (align4 ? 4 : 8) + (16 - ((uintptr_t)buf0 & 15)) % 16;
                size_t L = len - rng_int(r, 0, 3) * 4;
                uint64_t mark = vf_ledger_mark(); if (t % 3 == 0) vf_ws_fill(c, buf0, G + 64);
                fact_run R; fact_do(P, &A, &opt, mypc, work, (int_t)L, ilu, &R);
                if (vf_events_count(VF_EV_STACK_OVERLAP) > 0) { vf_viol(c, "workspace-stack-overlap", "workspace %zu bytes (align %d, fill %d): after a storage growth the head of the workspace stack passed its tail; info=%lld", L, align4 ? 4 : 8, f, (long long)R.info); vf_events_reset(); }
                if (R.info > n && t == 0) vf_viol(c, "generous-workspace-reported-short", "workspace of %zu bytes (several times the dense n x n factors, fill %d): info=%lld, but library allocation succeeded with info=%lld", L, f, (long long)R.info, (long long)info0);
                if (R.info > n) { failed = 1; nshort++; }
                else if (R.info != info0) vf_viol(c, "info-depends-on-storage", "workspace %zu bytes (align %d, fill %d): info=%lld, reference info=%lld", L, align4 ? 4 : 8, f, (long long)R.info, (long long)info0);
                else if (run_hash(P, &R) != h0) vf_viol(c, "factors-depend-on-storage", "workspace %zu bytes (align %d, fill %d, %d expansions): perms/L/U bytes differ from the library-allocation run", L, align4 ? 4 : 8, f, R.stat.expansions);
                else { compared++; nws++; check_query(c, P, &R, ilu, "workspace variant"); if (R.stat.expansions > maxexp) maxexp = R.stat.expansions; vf_tag(c, align4 ? "align=4" : "align=8"); }
                fact_free(&R);
                if (failed) vf_check_ledger_since(c, "after a reported workspace shortage", "nomem", mark);
                if (!failed) last_ok = L; else first_bad = L;
                len = len * 3 / 4;
                if (len < 64) break;
            }
            /* the band just above the smallest sufficient length is where expansions run with reduced growth:
               bisect to the threshold, then compare a sample of lengths on the 4-byte grid right above it */
            if (failed && last_ok > first_bad) {
                size_t lo = first_bad, hi = last_ok;
                for (int it = 0; it < 24 && hi - lo > 8; it++) {
                    size_t mid = ((lo + hi) / 2) & ~(size_t)3; void *work = buf0 + 8 + (16 - ((uintptr_t)buf0 & 15)) % 16;
                    uint64_t mark = vf_ledger_mark(); fact_run R; fact_do(P, &A, &opt, mypc, work, (int_t)mid, ilu, &R);
                    int bad = R.info > n; if (bad) lo = mid; else hi = mid;
                    fact_free(&R); if (bad) vf_check_ledger_since(c, "after a reported workspace shortage", "nomem", mark);
                }
                int nband = c->tier ? 80 : 30;
                for (int t = 0; t < nband && c->nmore < 3; t++) {
                    size_t L = hi + 4 * (size_t)rng_int(r, 0, c->tier ? 1500 : 700); if (L > G) L = G;
                    int align4 = rng_bool(r, 0.5); void *work = buf0 + (align4 ? 4 : 8) + (16 - ((uintptr_t)buf0 & 15)) % 16;
                    uint64_t mark = vf_ledger_mark(); fact_run R; fact_do(P, &A, &opt, mypc, work, (int_t)L, ilu, &R);
                    if (vf_events_count(VF_EV_STACK_OVERLAP) > 0) { vf_viol(c, "workspace-stack-overlap", "workspace %zu bytes (fill %d): stack head passed its tail after a growth", L, f); vf_events_reset(); }
                    if (R.info > n) { nshort++; fact_free(&R); vf_check_ledger_since(c, "after a reported workspace shortage", "nomem", mark); continue; }
                    if (R.info != info0) vf_viol(c, "info-depends-on-storage", "workspace %zu bytes just above the minimum (align %d, fill %d): info=%lld, reference info=%lld", L, align4 ? 4 : 8, f, (long long)R.info, (long long)info0);
                    else if (run_hash(P, &R) != h0) vf_viol(c, "factors-depend-on-storage", "workspace %zu bytes, %zu above the smallest sufficient length (align %d, fill %d, %d expansions): perms/L/U bytes differ from the library-allocation run", L, L - hi, align4 ? 4 : 8, f, R.stat.expansions);
                    else { compared++; nws++; c->counters[4]++; if (R.stat.expansions > maxexp) maxexp = R.stat.expansions; }
                    fact_free(&R);
                }
                vf_tag(c, "band-above-minimum");
            }
        }
        free(buf0); c->counters[1] += nws; c->counters[2] += nshort; if (nws) vf_tag(c, "mem=workspace");
    }
    /* (3) every growth site at the exactly-full state: the initial capacity of lusup, of ucol/usub and of lsub (guarded hook in
       ?LUMemInit) is set to the fill level the reference run had at a column boundary (or to any value up to the final size), under
       library allocation and inside a generous caller workspace (where a growth shifts the arrays behind it) */
    if (c->nmore < 3) {
        const SCformat *Ls = R0.L.Store; const NCformat *Us = R0.U.Store;
        long fin[3] = { (long)Ls->nzval_colptr[n], (long)Us->colptr[n], (long)Ls->rowind_colptr[n] };
        size_t G = generous_lwork(P, A.m, A.nnz); unsigned char *wb = vf_ws_alloc(c, G + 64);
        vf_ienv_set(6, 30);
        int nv = c->tier ? 36 : 12, ncap = 0;
        for (int which = 0; which < 3 && c->nmore < 3; which++) for (int t = 0; t < nv && c->nmore < 3; t++) {
            long F = fin[which] < 1 ? 1 : fin[which], c0; int j = rng_int(r, 0, n);
            if (t == 0) c0 = F; else if (t == 1) c0 = F > 1 ? F - 1 : 1; else if (t == 2) c0 = 1;
            else if (rng_bool(r, 0.55)) c0 = which == 0 ? (long)Ls->nzval_colptr[j] : which == 1 ? (long)Us->colptr[j] : (long)Ls->rowind_colptr[j];
            else c0 = rng_int(r, 1, (int)(F + F / 4 + 2));
            if (c0 < 1) c0 = 1;
            long cap[3] = { 0, 0, 0 }; cap[which] = c0; if (rng_bool(r, 0.25)) cap[(which + 1 + rng_int(r, 0, 1)) % 3] = rng_int(r, 1, 8);
            int ws = rng_bool(r, 0.5); void *work = wb + (rng_bool(r, 0.5) ? 4 : 8) + (16 - ((uintptr_t)wb & 15)) % 16;
            if (ws && t % 4 == 0) vf_ws_fill(c, wb, G + 64);
            uint64_t mark = vf_ledger_mark();
            vf_cap_set(cap[0], cap[1], cap[2]);
            fact_run R; fact_do(P, &A, &opt, mypc, ws ? work : NULL, ws ? (int_t)G : 0, ilu, &R);
            vf_cap_set(0, 0, 0);
            if (vf_events_count(VF_EV_STACK_OVERLAP) > 0) { vf_viol(c, "workspace-stack-overlap", "initial capacities lusup=%ld ucol=%ld lsub=%ld in a generous workspace: stack head passed its tail after a growth", cap[0], cap[1], cap[2]); vf_events_reset(); }
            if (R.info > n) { vf_viol(c, "capacity-start-misreported", "initial capacities lusup=%ld ucol=%ld lsub=%ld (%s): info=%lld although memory is plentiful", cap[0], cap[1], cap[2], ws ? "generous workspace" : "library allocation", (long long)R.info); fact_free(&R); vf_check_ledger_since(c, "after capacity run", "nomem", mark); continue; }
            if (R.info != info0) vf_viol(c, "info-depends-on-capacity", "initial capacities lusup=%ld ucol=%ld lsub=%ld (%s): info=%lld, reference info=%lld", cap[0], cap[1], cap[2], ws ? "workspace" : "library allocation", (long long)R.info, (long long)info0);
            else if (run_hash(P, &R) != h0) vf_viol(c, "factors-depend-on-capacity", "initial capacities lusup=%ld ucol=%ld lsub=%ld (%s, %d expansions): perms/L/U bytes differ from the reference run", cap[0], cap[1], cap[2], ws ? "workspace" : "library allocation", R.stat.expansions);
            else { compared++; ncap++; if (R.stat.expansions > maxexp) maxexp = R.stat.expansions; check_query(c, P, &R, ilu, "capacity start");
                /* a refactorization in the same storage (row pivots and arrays reused, values perturbed in the last bits): what it reports
                   must describe this call - its own growths, the factors it returned - not the earlier one */
                if (!ilu && t % 3 == 0 && R.info == 0 && n >= 2 && c->nmore < 3) {
                    vf_mat A2; mat_revalue(r, P, &A, rng_bool(r, 0.7) ? 0 : 2, R.perm_r, R.perm_c, &A2);
                    fact_redo(P, &A2, SamePattern_SameRowPerm, ws ? work : NULL, ws ? (int_t)G : 0, &R);
                    if (R.info == 0 && R.have_LU) { check_query(c, P, &R, 0, "refactorization (SamePattern_SameRowPerm) after a capacity start"); vf_tag(c, "refactor-report"); c->counters[7]++; }
                    else if (R.info > n) vf_viol(c, "capacity-start-misreported", "refactorization after initial capacities lusup=%ld ucol=%ld lsub=%ld (%s): info=%lld although memory is plentiful", cap[0], cap[1], cap[2], ws ? "generous workspace" : "library allocation", (long long)R.info);
                    mat_free(&A2);
                } }
            fact_free(&R);
        }
        free(wb); c->counters[5] += ncap; if (ncap) vf_tag(c, "capacity-walk");
    }
    c->counters[0] += compared; if (maxexp > c->counters[3]) c->counters[3] = maxexp;
    vf_tag(c, "maxexpansions=%d", maxexp > 3 ? 3 : maxexp); if (minexp == 0) vf_tag(c, "minexpansions=0");
    c->nontrivial = compared >= 4 && maxexp >= 1; vf_sig_u64(c, (uint64_t)compared);
    fact_free(&R0); free(mypc); mat_free(&A);
    vf_check_ledger(c, "after storage variants");
}
VF_REGISTER("C07", c07_run)
