/* C05 - expert driver solves op(A)X = B and mutates A, B only as documented. */
#include "fact.h"

static void c05_run(vf_case *c)
{
    const vf_api *P = c->P; vf_rng *r = &c->rng; char buf[400], why[400];
    gen_spec g; run_opts o;
    gen_spec_random(r, P, &g, 1, 48, 1);
    static const int pats[] = { PAT_RANDOM_DIAG, PAT_RANDOM_DIAG, PAT_BAND, PAT_ARROW, PAT_BLOCKDIAG, PAT_BLOCKTRI, PAT_PERMTRI, PAT_GRID, PAT_DENSE, PAT_DIAG };
    g.pattern = rng_pick(r, pats, 10);
    static const int vals[] = { VAL_UNIF, VAL_DIAGDOM, VAL_ROWSCALED, VAL_COLSCALED, VAL_BOTHSCALED, VAL_BOTHSCALED, VAL_GRADED, VAL_ROWSCALED, VAL_COLSCALED };
    g.values = rng_pick(r, vals, 9); g.explicit_zeros = 0;
    if (P->rsz == 4) g.scale_exp = rng_int(r, 1, 4); else g.scale_exp = rng_int(r, 1, 20);
    vf_mat A; gen_matrix(r, P, &g, &A);
    /* columns in wildly different units (10^+E and 10^-E with 2E beyond the exponent range): every row-scaled entry of a small
       column underflows, ?gsequ reports that column as zero and the driver must go on WITHOUT equilibration (equed = 'N') */
    int hugecol = A.n >= 2 && rng_bool(r, 0.04);
    if (hugecol) {
        int E = P->rsz == 4 ? 15 : 165; int jbig = rng_int(r, 0, A.n - 1);
        for (int j = 0; j < A.n; j++) { ld sc = powl(10.0L, (ld)((j == jbig || rng_bool(r, 0.4)) ? E : -E)); for (int_t k = A.colptr[j]; k < A.colptr[j + 1]; k++) A.v[k] = P->round(A.v[k] * sc); }
        g.values = VAL_UNIF; vf_tag(c, "columns-beyond-exponent-range");
    }
    gen_run_opts(r, &o, 1);
    o.nrhs = rng_int(r, 1, 3);
    gen_tuning(r, o.tuning_small);
    int n = A.n, nrhs = o.nrhs;
    gen_spec_str(&g, buf, sizeof buf); vf_desc(c, "%s; ", buf); run_opts_str(&o, buf, sizeof buf); vf_desc(c, "%s; ", buf); tuning_str(buf, sizeof buf); vf_desc(c, "%s", buf);
    ldc *B0 = malloc(sizeof(ldc) * (size_t)n * nrhs);
    for (int j = 0; j < nrhs; j++) { int mode = rng_int(r, 0, 5); for (int i = 0; i < n; i++) { ld re = 2 * rng_unif(r) - 1, im = P->cplx ? 2 * rng_unif(r) - 1 : 0; if (mode == 0 && j > 0) re = im = 0; if (mode == 1 && rng_bool(r, 0.4)) re = im = 0; B0[(size_t)j * n + i] = P->round(re + im * I); } }
    xdrv D; xdrv_init(&D, P, &A, o.rowmajor, nrhs, o.ldpad, rng_int(r, 0, 3), B0, 0);
    superlu_options_t xo = o.opt; xo.Fact = DOFACT; xo.PrintStat = NO;
    if (xo.ColPerm == MY_PERMC) rng_perm(r, D.perm_c, n);
    /* snapshot of A as stored (values in storage order) */
    vf_snap idx0; snap_sparse(P, &D.A, &idx0, NULL);
    const NCformat *st = D.A.Store; ldc *A0 = malloc(sizeof(ldc) * (size_t)(A.nnz + 1)); for (int_t k = 0; k < A.nnz; k++) A0[k] = P->get(st->nzval, (size_t)k);
    int use_ws = rng_bool(r, 0.25); void *work = NULL;
    if (use_ws) { D.lwork = (int_t)generous_lwork(P, n, A.nnz); work = vf_ws_alloc(c, (size_t)D.lwork); D.work = work; }

    { static const char stale[] = "NRCBNX"; D.equed[0] = stale[rng_int(r, 0, 5)]; }     /* equed is an output for a fresh factorization: whatever an earlier call left there must not survive */
    xdrv_call(&D, &xo);

    int_t info = D.info;
    vf_tag(c, "prec=%c", P->letter); vf_tag(c, "%s", o.rowmajor ? "NR" : "NC"); vf_tag(c, "trans=%d", (int)xo.Trans); vf_tag(c, "equil=%d", xo.Equil == YES);
    vf_tag(c, "refine=%d", xo.IterRefine != NOREFINE); vf_tag(c, "equed=%c", D.equed[0]); vf_tag(c, "colperm=%s", colperm_names[xo.ColPerm]); vf_tag(c, "mem=%s", use_ws ? "workspace" : "malloc");
    vf_sig_u64(c, mat_pattern_hash(&A)); vf_sig_u64(c, (uint64_t)xo.Trans * 64 + (uint64_t)o.rowmajor * 32 + (uint64_t)(xo.Equil == YES) * 16 + (uint64_t)xo.ColPerm); vf_sig_u64(c, (uint64_t)D.equed[0]);
    if (info == 0 || info == n + 1) {
        vf_tag(c, info ? "info=n+1" : "info=0");
        if (xdrv_check_A_scaling(&D, &idx0, A0, why, sizeof why)) vf_viol(c, xo.Equil == NO ? "A-modified-without-equil" : "A-scaling", "%s", why);
        if (xo.Equil == NO && D.equed[0] != 'N') vf_viol(c, "equed-without-equil", "Equil = NO but equed = %c", D.equed[0]);
        if (xdrv_check_B_scaling(&D, xo.Trans, B0, why, sizeof why)) vf_viol(c, "B-scaling", "%s", why);
        if (!dense_padding_intact(P, &D.X, D.padX)) vf_viol(c, "X-padding-written", "rows beyond n of X (ldx > n) were written");
        if (!is_perm(D.perm_r, n) || !is_perm(D.perm_c, n)) vf_viol(c, "perm-not-bijection", "perm_r/perm_c not permutations");
        else if (structure_ok(P, &D.L, &D.U, n, n, 0, why, sizeof why)) vf_viol(c, "factors-malformed", "%s", why);
        else {
            int nonfin; ld cf = P->cplx ? 16 : 8;
            /* conditioning gate for the refined solution */
            int judge = 1;
            if (xo.IterRefine != NOREFINE) {
                vf_mat F; xdrv_factored_matrix(&D, &F); ld cond = dense_cond1(&F, NULL, NULL, NULL, NULL); mat_free(&F);
                ld sigma = xdrv_skeel_sigma(&D, xo.Trans);
                ld eta = xdrv_solver_cond(&D); if (eta > cond) cond = eta;      /* the solver's own conditioning: with unstable pivoting (tiny u) one refinement step may worsen X */
                if (!(n * P->eps * cond * sigma < 1e-2L)) judge = 0;
            }
            if (info == n + 1 && xo.IterRefine != NOREFINE) judge = 0;
            if (hugecol) judge = 0;       /* products over- and underflow by construction: only the equed / A / B contract is judged on these inputs */
            if (judge) {
                ld q = xdrv_scaled_residual(&D, xo.Trans, cf, &nonfin);
                int cplx_nr_conj = P->cplx && o.rowmajor && xo.Trans == CONJ;
                if (c->verbose) { fprintf(stderr, "ratio=%Lg rcond=%Lg rpg=%Lg steps=%d\n", q, D.rcond, D.rpg, D.stat.RefineSteps); for (int j = 0; j < nrhs; j++) fprintf(stderr, " rhs %d: ferr=%Lg berr=%Lg\n", j, P->rget(D.ferr, (size_t)j), P->rget(D.berr, (size_t)j)); }
                if (nonfin) vf_viol(c, "X-nonfinite", "X has a non-finite entry with info=%lld", (long long)info);
                else if (!(q <= 1.0L)) vf_viol(c, cplx_nr_conj ? "residual-complex-NR-CONJ" : "residual", "op(A)X = B residual exceeds the factor-derived bound by a factor %.3Lg (%s, trans=%d, equed=%c, refine=%d)", q, o.rowmajor ? "NR" : "NC", (int)xo.Trans, D.equed[0], (int)xo.IterRefine);
                long pm = (long)(q > 1e6L ? 1e9L : q * 1000); c->counters[0] += pm > 1000000 ? 0 : pm; if (pm > c->counters[1] && pm < 1000000) c->counters[1] = pm;
                c->nontrivial = n >= 2;
            } else { vf_tag(c, "residual=skipped-by-conditioning-rule"); c->counters[2]++; }
        }
        /* another right-hand side with the factors, equed, R and C of the call above (Fact = FACTORED), any Trans */
        if (info == 0 && c->verdict != 1 && !hugecol && rng_bool(r, 0.4)) {
            superlu_options_t x2 = xo; x2.Fact = FACTORED; x2.Trans = (trans_t)rng_int(r, 0, 2); x2.IterRefine = rng_bool(r, 0.5) ? NOREFINE : xo.IterRefine;
            ldc *B1 = malloc(sizeof(ldc) * (size_t)n * (nrhs + 1)); DNformat *bs = D.B.Store;
            for (int j = 0; j < nrhs; j++) for (int i = 0; i < n; i++) { B1[(size_t)j * n + i] = P->round((2 * rng_unif(r) - 1) + (P->cplx ? (2 * rng_unif(r) - 1) * I : 0)); P->set(bs->nzval, (size_t)j * bs->lda + i, B1[(size_t)j * n + i]); }
            char eq0 = D.equed[0];
            xdrv_call(&D, &x2);
            vf_tag(c, "resolve-FACTORED/equed=%c", eq0);
            if (!(D.info == 0 || D.info == n + 1)) vf_viol(c, "resolve-info", "FACTORED re-solve (trans=%d, equed=%c): info=%lld", (int)x2.Trans, eq0, (long long)D.info);
            else if (D.equed[0] != eq0) vf_viol(c, "resolve-changed-equed", "FACTORED re-solve changed equed %c -> %c", eq0, D.equed[0]);
            else if (xdrv_check_B_scaling(&D, x2.Trans, B1, why, sizeof why)) vf_viol(c, "resolve-B-scaling", "FACTORED re-solve (%s, trans=%d, equed=%c): %s", o.rowmajor ? "NR" : "NC", (int)x2.Trans, eq0, why);
            else {
                int judge2 = 1, nonfin2; ld cf2 = P->cplx ? 16 : 8;
                if (x2.IterRefine != NOREFINE) { vf_mat F; xdrv_factored_matrix(&D, &F); ld cond = dense_cond1(&F, NULL, NULL, NULL, NULL); mat_free(&F); ld eta = xdrv_solver_cond(&D); if (eta > cond) cond = eta;
                    if (!(n * P->eps * cond * xdrv_skeel_sigma(&D, x2.Trans) < 1e-2L) || D.info == n + 1) judge2 = 0; }
                if (judge2) { ld q2 = xdrv_scaled_residual(&D, x2.Trans, cf2, &nonfin2);
                    if (nonfin2 || !(q2 <= 1.0L)) vf_viol(c, "resolve-residual", "FACTORED re-solve (%s, trans=%d, equed=%c, refine=%d): residual exceeds the factor-derived bound by %.3Lg", o.rowmajor ? "NR" : "NC", (int)x2.Trans, eq0, (int)x2.IterRefine, q2); }
            }
            free(B1);
        }
    } else if (info > 0 && info <= n) vf_tag(c, "info=singular");
    else if (info > n + 1 && use_ws) vf_tag(c, "info=nomem");
    else vf_viol(c, "info-unexpected", "gssvx returned info=%lld on a valid call", (long long)info);
    vf_sig_u64(c, (uint64_t)(info == 0));
    snap_free(&idx0); free(A0); free(B0);
    xdrv_free(&D); free(work); mat_free(&A);
    vf_check_ledger(c, "after gssvx lifecycle");
}
VF_REGISTER("C05", c05_run)
