/* Reference oracles, independent of the library under test; long double arithmetic. */
#include "vf.h"

int is_perm(const int *p, int n)
{
    if (n <= 0) return 1;
    unsigned char *seen = calloc((size_t)n, 1); int ok = 1;
    for (int i = 0; i < n && ok; i++) { if (p[i] < 0 || p[i] >= n || seen[p[i]]) ok = 0; else seen[p[i]] = 1; }
    free(seen); return ok;
}

#define WHY(...) do { snprintf(why, whylen, __VA_ARGS__); goto bad; } while (0)

int structure_ok(const vf_api *P, const SuperMatrix *L, const SuperMatrix *U, int m, int n, int ilu, char *why, size_t whylen)
{
    (void)P;
    unsigned char *seen = NULL; int rc = 1;
    if (L->Stype != SLU_SC) WHY("L.Stype=%d not SLU_SC", (int)L->Stype);
    if (U->Stype != SLU_NC) WHY("U.Stype=%d not SLU_NC", (int)U->Stype);
    if (L->Dtype != P->dtype || U->Dtype != P->dtype) WHY("Dtype of L/U (%d/%d) not %d", (int)L->Dtype, (int)U->Dtype, (int)P->dtype);
    if (L->Mtype != SLU_TRLU) WHY("L.Mtype=%d not SLU_TRLU", (int)L->Mtype);
    if (U->Mtype != SLU_TRU) WHY("U.Mtype=%d not SLU_TRU", (int)U->Mtype);
    if (L->nrow != m || L->ncol != n) WHY("L dims %lld x %lld, expected %d x %d", (long long)L->nrow, (long long)L->ncol, m, n);
    if (U->nrow != m && U->nrow != n) WHY("U.nrow=%lld", (long long)U->nrow);
    if (U->ncol != n) WHY("U.ncol=%lld expected %d", (long long)U->ncol, n);
    const SCformat *Ls = L->Store; const NCformat *Us = U->Store;
    if (!Ls || !Us) WHY("null store");
    long nsuper = (long)Ls->nsuper;
    if (nsuper < 0 || nsuper >= n) WHY("nsuper=%ld out of [0,%d)", nsuper, n);
    if (Ls->sup_to_col[0] != 0) WHY("sup_to_col[0]=%d", Ls->sup_to_col[0]);
    if (Ls->sup_to_col[nsuper + 1] != n) WHY("sup_to_col[nsuper+1]=%d != n=%d", Ls->sup_to_col[nsuper + 1], n);
    if (Ls->rowind_colptr[0] != 0 || Ls->nzval_colptr[0] != 0 || Us->colptr[0] != 0) WHY("a pointer array does not start at 0");
    seen = calloc((size_t)m + 1, 1);
    long long lcount = 0, ucount = 0;
    for (long s = 0; s <= nsuper; s++) {
        int f = Ls->sup_to_col[s], l = Ls->sup_to_col[s + 1];       /* columns f .. l-1 */
        if (l <= f) WHY("supernode %ld empty or decreasing: [%d,%d)", s, f, l);
        if (l > n) WHY("supernode %ld ends at %d > n", s, l);
        int_t is = Ls->rowind_colptr[f], ie = Ls->rowind_colptr[f + 1];
        long nsupr = (long)(ie - is);
        if (nsupr < l - f) WHY("supernode %ld: row list length %ld < %d columns", s, nsupr, l - f);
        if (nsupr > m) WHY("supernode %ld: row list length %ld > m", s, nsupr);
        for (int k = 0; k < l - f; k++) if (Ls->rowind[is + k] != f + k) WHY("supernode %ld: leading row %d is %lld, expected %d", s, k, (long long)Ls->rowind[is + k], f + k);
        memset(seen, 0, (size_t)m);
        for (long k = l - f; k < nsupr; k++) {
            long long r = (long long)Ls->rowind[is + k];
            if (r < l || r >= m) WHY("supernode %ld: row %lld at position %ld not below the supernode (cols [%d,%d), m=%d)", s, r, k, f, l, m);
            if (seen[r]) WHY("supernode %ld: row %lld repeated", s, r);
            seen[r] = 1;
        }
        for (int j = f; j < l; j++) {
            if (Ls->col_to_sup[j] != s) WHY("col_to_sup[%d]=%d, column lies in supernode %ld", j, Ls->col_to_sup[j], s);
            if (Ls->nzval_colptr[j + 1] - Ls->nzval_colptr[j] != nsupr) WHY("column %d of L has %lld stored values, supernode row list has %ld", j, (long long)(Ls->nzval_colptr[j + 1] - Ls->nzval_colptr[j]), nsupr);
            /* every column of a supernode shares one row list: rowind_colptr must reflect that.
               The library stores rowind_colptr only per first column for complete LU after fixupL;
               consumers read rowind_colptr[fsupc] and [fsupc+1] only. */
            lcount += nsupr - (j - f);
            ucount += (j - f + 1);
            /* U column j */
            int_t us = Us->colptr[j], ue = Us->colptr[j + 1];
            if (ue < us) WHY("U colptr decreasing at %d", j);
            memset(seen, 0, (size_t)(f > 0 ? f : 1));
            for (int_t q = us; q < ue; q++) {
                long long r = (long long)Us->rowind[q];
                if (r < 0 || r >= f) WHY("U column %d holds row %lld, not strictly above its supernode (first col %d)", j, r, f);
                if (seen[r] && !ilu) WHY("U column %d repeats row %lld", j, r);
                seen[r] = 1;
            }
            ucount += (long long)(ue - us);
        }
        if (ie < is) WHY("rowind_colptr decreasing");
    }
    for (int j = 0; j < n; j++) {
        if (Ls->nzval_colptr[j + 1] < Ls->nzval_colptr[j]) WHY("nzval_colptr decreasing at %d", j);
    }
    if ((long long)Ls->nnz != lcount) WHY("L.nnz=%lld, actual count %lld", (long long)Ls->nnz, lcount);
    if ((long long)Us->nnz != ucount) WHY("U.nnz=%lld, actual count %lld", (long long)Us->nnz, ucount);
    rc = 0;
bad:
    free(seen);
    return rc;
}

void snode_stats(const SuperMatrix *L, int *nsuper, int *maxsize, int *multi)
{
    const SCformat *Ls = L->Store; int mx = 0, mu = 0;
    for (long s = 0; s <= (long)Ls->nsuper; s++) { int w = Ls->sup_to_col[s + 1] - Ls->sup_to_col[s]; if (w > mx) mx = w; if (w > 1) mu++; }
    *nsuper = (int)Ls->nsuper + 1; *maxsize = mx; *multi = mu;
}

void expand_LU(const vf_api *P, const SuperMatrix *L, const SuperMatrix *U, int m, int n, ldc *Ld, ldc *Ud)
{
    const SCformat *Ls = L->Store; const NCformat *Us = U->Store;
    memset(Ld, 0, sizeof(ldc) * (size_t)m * (size_t)n); memset(Ud, 0, sizeof(ldc) * (size_t)n * (size_t)n);
    for (long s = 0; s <= (long)Ls->nsuper; s++) {
        int f = Ls->sup_to_col[s], l = Ls->sup_to_col[s + 1]; int nsupc = l - f;
        int_t is = Ls->rowind_colptr[f]; long nsupr = (long)(Ls->rowind_colptr[f + 1] - is);
        for (int j = f; j < l; j++) {
            int_t vs = Ls->nzval_colptr[j];
            for (long k = 0; k < nsupr; k++) {
                ldc v = P->get(Ls->nzval, (size_t)(vs + k));
                long r = k < nsupc ? f + k : (long)Ls->rowind[is + k];   /* consumers address the diagonal block by position */
                if (r < j) Ud[(size_t)j * n + r] += v;
                else if (r == j) { Ud[(size_t)j * n + j] += v; Ld[(size_t)j * m + j] = 1; }
                else Ld[(size_t)j * m + r] += v;
            }
            for (int_t q = Us->colptr[j]; q < Us->colptr[j + 1]; q++) Ud[(size_t)j * n + Us->rowind[q]] += P->get(Us->nzval, (size_t)q);
        }
    }
}

uint64_t hash_factors(const vf_api *P, const SuperMatrix *L, const SuperMatrix *U, const int *perm_r, const int *perm_c, int m, int n)
{
    const SCformat *Ls = L->Store; const NCformat *Us = U->Store; uint64_t h = FNV0;
    if (perm_r) h = fnv64(h, perm_r, sizeof(int) * (size_t)m);
    if (perm_c) h = fnv64(h, perm_c, sizeof(int) * (size_t)n);
    long long ns = (long long)Ls->nsuper; h = fnv64(h, &ns, sizeof ns);
    h = fnv64(h, Ls->sup_to_col, sizeof(int) * (size_t)(ns + 2));
    h = fnv64(h, Ls->col_to_sup, sizeof(int) * (size_t)n);
    for (long s = 0; s <= ns; s++) {
        int f = Ls->sup_to_col[s], l = Ls->sup_to_col[s + 1];
        int_t is = Ls->rowind_colptr[f]; long nsupr = (long)(Ls->rowind_colptr[f + 1] - is);
        h = fnv64(h, &Ls->rowind[is], sizeof(int_t) * (size_t)nsupr);
        for (int j = f; j < l; j++) h = fnv64(h, (const char *)Ls->nzval + P->ssz * (size_t)Ls->nzval_colptr[j], P->ssz * (size_t)nsupr);
    }
    h = fnv64(h, Us->colptr, sizeof(int_t) * (size_t)(n + 1));
    h = fnv64(h, Us->rowind, sizeof(int_t) * (size_t)Us->colptr[n]);
    h = fnv64(h, Us->nzval, P->ssz * (size_t)Us->colptr[n]);
    return h;
}

ld factor_identity_ratio(const vf_api *P, const vf_mat *A, const int *perm_r, const int *perm_c,
                         const ldc *Ld, const ldc *Ud, int ncols, ld cfac)
{
    int m = A->m, n = A->n; ld worst = 0;
    ldc *col = malloc(sizeof(ldc) * (size_t)m); ld *bnd = malloc(sizeof(ld) * (size_t)m); ldc *pa = malloc(sizeof(ldc) * (size_t)m);
    int *ipc = malloc(sizeof(int) * (size_t)n); for (int j = 0; j < n; j++) ipc[perm_c[j]] = j;
    int kmax = m < n ? m : n;
    for (int jp = 0; jp < ncols; jp++) {            /* column of the permuted matrix */
        for (int i = 0; i < m; i++) { col[i] = 0; bnd[i] = 0; pa[i] = 0; }
        for (int k = 0; k <= jp && k < kmax; k++) {
            ldc u = Ud[(size_t)jp * n + k]; if (u == 0) continue; ld au = cabsl(u);
            const ldc *lk = &Ld[(size_t)k * m];
            for (int i = k; i < m; i++) if (lk[i] != 0) { col[i] += lk[i] * u; bnd[i] += cabsl(lk[i]) * au; }
        }
        int jo = ipc[jp];
        for (int_t q = A->colptr[jo]; q < A->colptr[jo + 1]; q++) pa[perm_r[A->rowind[q]]] += A->v[q];
        for (int i = 0; i < m; i++) {
            ld e = cabsl(pa[i] - col[i]);
            ld b = cfac * (ld)n * P->eps * bnd[i] + (ld)n * P->tiny;
            ld r = e / b; if (!(r <= worst)) worst = r;   /* NaN propagates as violation */
        }
    }
    free(col); free(bnd); free(pa); free(ipc);
    return worst;
}

void absLU_orig(const vf_api *P, const int *perm_r, const int *perm_c, const ldc *Ld, const ldc *Ud, int n, ld *E)
{
    (void)P;
    /* F = |L||U| in permuted coordinates, then E(i,j) = F(perm_r[i], perm_c[j]) */
    ld *F = calloc((size_t)n * (size_t)n, sizeof(ld));
    for (int j = 0; j < n; j++) for (int k = 0; k <= j; k++) {
        ld au = cabsl(Ud[(size_t)j * n + k]); if (au == 0) continue;
        const ldc *lk = &Ld[(size_t)k * n];
        for (int i = k; i < n; i++) if (lk[i] != 0) F[(size_t)j * n + i] += cabsl(lk[i]) * au;
    }
    for (int j = 0; j < n; j++) for (int i = 0; i < n; i++) E[(size_t)j * n + i] = F[(size_t)perm_c[j] * n + perm_r[i]];
    free(F);
}

ld solve_residual_ratio(const vf_api *P, const vf_mat *M, int trans, const ldc *x, const ldc *b, const ld *E, ld cfac)
{
    int n = M->n; ldc *r = malloc(sizeof(ldc) * (size_t)n); ld *bd = calloc((size_t)n, sizeof(ld));
    for (int i = 0; i < n; i++) r[i] = b[i];
    for (int j = 0; j < n; j++) for (int_t q = M->colptr[j]; q < M->colptr[j + 1]; q++) {
        int i = (int)M->rowind[q]; ldc a = M->v[q];
        if (trans == 3) a = conjl(a);
        if (trans == 0 || trans == 3) { r[i] -= a * x[j]; if (!E) bd[i] += cabsl(a) * cabsl(x[j]); }
        else { if (trans == 2) a = conjl(a); r[j] -= a * x[i]; if (!E) bd[j] += cabsl(a) * cabsl(x[i]); }
    }
    if (E) for (int j = 0; j < n; j++) for (int i = 0; i < n; i++) {
        ld e = E[(size_t)j * n + i]; if (e == 0) continue;
        if (trans == 0 || trans == 3) bd[i] += e * cabsl(x[j]); else bd[j] += e * cabsl(x[i]);
    }
    ld worst = 0;
    for (int i = 0; i < n; i++) {
        ld bound = cfac * (ld)n * P->eps * bd[i] + (ld)n * P->eps * cabsl(b[i]) + (ld)n * P->tiny;
        ld q = cabsl(r[i]) / bound; if (!(q <= worst)) worst = q;
    }
    free(r); free(bd); return worst;
}

int dense_inverse(int n, const ldc *A, ldc *X)
{
    ldc *W = malloc(sizeof(ldc) * (size_t)n * (size_t)n); memcpy(W, A, sizeof(ldc) * (size_t)n * (size_t)n);
    for (int j = 0; j < n; j++) for (int i = 0; i < n; i++) X[(size_t)j * n + i] = (i == j);
    for (int k = 0; k < n; k++) {
        int p = k; ld best = cabsl(W[(size_t)k * n + k]);
        for (int i = k + 1; i < n; i++) { ld a = cabsl(W[(size_t)k * n + i]); if (a > best) { best = a; p = i; } }
        if (best == 0 || !isfinite((double)best)) { free(W); return 1; }
        if (p != k) for (int j = 0; j < n; j++) { ldc t = W[(size_t)j * n + k]; W[(size_t)j * n + k] = W[(size_t)j * n + p]; W[(size_t)j * n + p] = t; t = X[(size_t)j * n + k]; X[(size_t)j * n + k] = X[(size_t)j * n + p]; X[(size_t)j * n + p] = t; }
        ldc piv = W[(size_t)k * n + k];
        for (int j = 0; j < n; j++) { W[(size_t)j * n + k] /= piv; X[(size_t)j * n + k] /= piv; }
        for (int i = 0; i < n; i++) if (i != k) {
            ldc f = W[(size_t)k * n + i]; if (f == 0) continue;
            for (int j = 0; j < n; j++) { W[(size_t)j * n + i] -= f * W[(size_t)j * n + k]; X[(size_t)j * n + i] -= f * X[(size_t)j * n + k]; }
        }
    }
    free(W); return 0;
}
ld dense_norm1(int n, const ldc *A) { ld w = 0; for (int j = 0; j < n; j++) { ld s = 0; for (int i = 0; i < n; i++) s += cabsl(A[(size_t)j * n + i]); if (s > w) w = s; } return w; }
ld dense_norminf(int n, const ldc *A) { ld w = 0; for (int i = 0; i < n; i++) { ld s = 0; for (int j = 0; j < n; j++) s += cabsl(A[(size_t)j * n + i]); if (s > w) w = s; } return w; }

/* ---- maximum bipartite matching (columns to rows), augmenting paths */
static int aug(const vf_mat *A, int j, int *rowmatch, unsigned char *vis)
{
    for (int_t q = A->colptr[j]; q < A->colptr[j + 1]; q++) {
        int i = (int)A->rowind[q]; if (vis[i]) continue; vis[i] = 1;
        if (rowmatch[i] < 0 || aug(A, rowmatch[i], rowmatch, vis)) { rowmatch[i] = j; return 1; }
    }
    return 0;
}
int sprank(const vf_mat *A)
{
    int *rm = malloc(sizeof(int) * (size_t)(A->m + 1)); unsigned char *vis = malloc((size_t)A->m + 1); int r = 0;
    for (int i = 0; i < A->m; i++) rm[i] = -1;
    for (int j = 0; j < A->n; j++) { memset(vis, 0, (size_t)A->m); if (aug(A, j, rm, vis)) r++; }
    free(rm); free(vis); return r;
}

int exact_rank_int(int n, const long long *Ain)
{
    /* Bareiss fraction-free elimination with full (row+column) pivot search, __int128 with overflow guard */
    __int128 *a = malloc(sizeof(__int128) * (size_t)n * (size_t)n);
    for (size_t k = 0; k < (size_t)n * n; k++) a[k] = Ain[k];
    __int128 prev = 1; int rank = 0; const __int128 LIM = ((__int128)1) << 62;
    int *rows = malloc(sizeof(int) * (size_t)n), *cols = malloc(sizeof(int) * (size_t)n);
    for (int i = 0; i < n; i++) rows[i] = cols[i] = i;
#define AT(i, j) a[(size_t)cols[j] * n + rows[i]]
    for (int k = 0; k < n; k++) {
        int pi = -1, pj = -1;
        for (int j = k; j < n && pi < 0; j++) for (int i = k; i < n; i++) if (AT(i, j) != 0) { pi = i; pj = j; break; }
        if (pi < 0) break;
        int t = rows[k]; rows[k] = rows[pi]; rows[pi] = t; t = cols[k]; cols[k] = cols[pj]; cols[pj] = t;
        rank++;
        for (int i = k + 1; i < n; i++) for (int j = k + 1; j < n; j++) {
            __int128 x = AT(i, j), y = AT(k, k), z = AT(i, k), w = AT(k, j);
            if (x > LIM || x < -LIM || y > LIM || y < -LIM || z > LIM || z < -LIM || w > LIM || w < -LIM) { free(a); free(rows); free(cols); return -1; }
            AT(i, j) = (x * y - z * w) / prev;
        }
        prev = AT(k, k);
    }
#undef AT
    free(a); free(rows); free(cols); return rank;
}

void coletree_def(const vf_mat *A, const int *perm_c, int *parent)
{
    /* B = A*Pc (column perm_c[j] of B is column j of A); pattern of B^T B; naive symbolic Cholesky */
    int m = A->m, n = A->n;
    unsigned char *G = calloc((size_t)n * (size_t)n + 1, 1);
    int *ipc = malloc(sizeof(int) * (size_t)n); for (int j = 0; j < n; j++) ipc[perm_c[j]] = j;
    /* rows -> list of permuted columns */
    int *cnt = calloc((size_t)m + 1, sizeof(int));
    for (int_t q = 0; q < A->nnz; q++) cnt[A->rowind[q] + 1]++;
    for (int i = 0; i < m; i++) cnt[i + 1] += cnt[i];
    int *rc = malloc(sizeof(int) * (size_t)(A->nnz + 1)); int *nx = malloc(sizeof(int) * (size_t)(m + 1)); memcpy(nx, cnt, sizeof(int) * (size_t)(m + 1));
    for (int j = 0; j < n; j++) for (int_t q = A->colptr[j]; q < A->colptr[j + 1]; q++) rc[nx[A->rowind[q]]++] = perm_c[j];
    for (int i = 0; i < m; i++) for (int a = cnt[i]; a < cnt[i + 1]; a++) for (int b = cnt[i]; b < cnt[i + 1]; b++) G[(size_t)rc[a] * n + rc[b]] = 1;
    /* symbolic Cholesky on G (lower part) */
    for (int k = 0; k < n; k++) {
        int p = n;
        for (int i = k + 1; i < n; i++) if (G[(size_t)k * n + i]) { p = i; break; }
        parent[k] = p;
        if (p < n) for (int i = p + 1; i < n; i++) if (G[(size_t)k * n + i]) { G[(size_t)p * n + i] = 1; G[(size_t)i * n + p] = 1; }
    }
    free(G); free(ipc); free(cnt); free(rc); free(nx);
}
int tree_is_topological(const int *parent, int n) { for (int j = 0; j < n; j++) if (parent[j] <= j || parent[j] > n) return 0; return 1; }
int tree_is_postorder(const int *parent, int n)
{
    if (!tree_is_topological(parent, n)) return 0;
    /* every subtree is a contiguous range ending at its root: size[j] counts descendants; first[j] = j - size[j] + 1 must equal min descendant */
    int *size = malloc(sizeof(int) * (size_t)(n + 1)), *mn = malloc(sizeof(int) * (size_t)(n + 1)); int ok = 1;
    for (int j = 0; j < n; j++) { size[j] = 1; mn[j] = j; }
    for (int j = 0; j < n; j++) { int p = parent[j]; if (p < n) { size[p] += size[j]; if (mn[j] < mn[p]) mn[p] = mn[j]; } }
    for (int j = 0; j < n && ok; j++) if (mn[j] != j - size[j] + 1) ok = 0;
    free(size); free(mn); return ok;
}

int hungarian_max(int n, const ld *w, int *rowofcol, ld *value)
{
    /* minimise cost = -w over perfect matchings; classic O(n^3) potentials; absent edges have cost BIG */
    const ld BIG = 1e30L;
    ld *u = calloc((size_t)n + 1, sizeof(ld)), *v = calloc((size_t)n + 1, sizeof(ld)), *minv = malloc(sizeof(ld) * (size_t)(n + 1));
    int *p = calloc((size_t)n + 1, sizeof(int)), *way = calloc((size_t)n + 1, sizeof(int)); unsigned char *used = malloc((size_t)n + 1);
#define COST(i, j) (isinf((double)w[(size_t)((j) - 1) * n + ((i) - 1)]) ? BIG : -w[(size_t)((j) - 1) * n + ((i) - 1)])
    for (int i = 1; i <= n; i++) {
        p[0] = i; int j0 = 0; for (int j = 0; j <= n; j++) { minv[j] = INFINITY; used[j] = 0; }
        do {
            used[j0] = 1; int i0 = p[j0], j1 = 0; ld delta = INFINITY;
            for (int j = 1; j <= n; j++) if (!used[j]) {
                ld cur = COST(i0, j) - u[i0] - v[j];
                if (cur < minv[j]) { minv[j] = cur; way[j] = j0; }
                if (minv[j] < delta) { delta = minv[j]; j1 = j; }
            }
            for (int j = 0; j <= n; j++) if (used[j]) { u[p[j]] += delta; v[j] -= delta; } else minv[j] -= delta;
            j0 = j1;
        } while (p[j0] != 0);
        do { int j1 = way[j0]; p[j0] = p[j1]; j0 = j1; } while (j0);
    }
    ld tot = 0; int ok = 1;
    for (int j = 1; j <= n; j++) { int i = p[j]; rowofcol[j - 1] = i - 1; ld ww = w[(size_t)(j - 1) * n + (i - 1)]; if (isinf((double)ww)) ok = 0; else tot += ww; }
#undef COST
    *value = tot; free(u); free(v); free(minv); free(p); free(way); free(used); return ok;
}
