/* C09 - calls are reentrant, thread-safe and deterministic.
 *
 * One case = one list of independent jobs (routine family x precision x generated input x options).
 *   phase 1  every job alone, twice, under two different junk-fill patterns of the heap / caller workspace
 *            -> reference output hash; the two must agree                         (nondeterministic-alone@<family>)
 *   phase 2  T in {2,4,8(,16)} pthreads over shuffled job queues with yield/sleep perturbation at allocation points,
 *            every queue set run twice with different perturbation seeds; every finished job's output hash must
 *            equal its reference                                                  (output-differs-under-concurrency@<family>)
 *   phase 3  one thread: job X, k random other jobs, X again                      (output-depends-on-history@<family>)
 * The data-race clause is decided by ThreadSanitizer in the tsan variant; its reports are parsed by the plan's post hook.
 * Worker threads only write into their own records; the main thread evaluates and reports after pthread_join. */
#include "fact.h"
#include <pthread.h>
#include <stdarg.h>

enum { FAM_GSSV, FAM_GSSVX, FAM_TRF, FAM_ILU, FAM_PERMC, FAM_ETREE, FAM__N };
static const char *fam_names[FAM__N] = { "gssv", "gssvx", "gstrf+gstrs", "gsisx", "get_perm_c", "sp_preorder" };

#define NCOMP 8
static const char *comp_names[NCOMP] = { "info/equed", "perm_c/etree", "perm_r", "L/U", "B/X", "R/C/A", "rcond/rpg/ferr/berr", "stat/mem_usage" };
typedef struct { uint64_t comp[NCOMP]; uint64_t h; long long info; } jout;

typedef struct {
    int fam; const vf_api *P; vf_mat A; gen_spec g;
    int rowmajor, nrhs, ldpadb, ldpadx, use_ws; trans_t trans;
    superlu_options_t opt; int *permc_in; ldc *B0; int ienv[8];
    jout ref;
} job;

/* ------------------------------------------------------------------ canonical output hashes */
static void jout_init(jout *o) { for (int i = 0; i < NCOMP; i++) o->comp[i] = FNV0; o->h = 0; o->info = -999; }
static void jout_finish(jout *o) { o->h = fnv64(FNV0, o->comp, sizeof o->comp); }
#define HB(k, p, n) (o->comp[k] = fnv64(o->comp[k], (p), (n)))
static void h_ll(jout *o, int k, long long v) { HB(k, &v, sizeof v); }
static void h_stat(jout *o, const SuperLUStat_t *st)
{
    h_ll(o, 7, st->expansions); h_ll(o, 7, st->RefineSteps);
    HB(7, &st->ops[FACT], sizeof(flops_t)); HB(7, &st->ops[SOLVE], sizeof(flops_t)); HB(7, &st->ops[REFINE], sizeof(flops_t));
}
static void h_sparse(jout *o, int k, const vf_api *P, const SuperMatrix *S)
{
    const NCformat *s = S->Store; int nc = S->Stype == SLU_NR ? (int)S->nrow : (int)S->ncol; int_t nnz = s->colptr[nc];
    HB(k, s->colptr, sizeof(int_t) * (size_t)(nc + 1)); HB(k, s->rowind, sizeof(int_t) * (size_t)nnz); HB(k, s->nzval, P->ssz * (size_t)nnz);
}
static void h_dense(jout *o, int k, const vf_api *P, const SuperMatrix *D)
{
    const DNformat *d = D->Store; HB(k, d->nzval, P->ssz * (size_t)d->lda * (size_t)(D->ncol > 0 ? D->ncol : 0));
}
static void diff_names(const jout *a, const jout *b, char *buf, size_t n)
{
    buf[0] = 0;
    for (int i = 0; i < NCOMP; i++) if (a->comp[i] != b->comp[i]) { size_t l = strlen(buf); snprintf(buf + l, n - l, "%s%s", l ? ", " : "", comp_names[i]); }
}

/* ------------------------------------------------------------------ one execution of a job (any thread) */
static void install_tuning(const job *J) { for (int i = 1; i <= 7; i++) vf_ienv_set(i, J->ienv[i]); }

static void run_gssv(const job *J, jout *o)
{
    const vf_api *P = J->P; int n = J->A.n, nrhs = J->nrhs, ldb = n + J->ldpadb; if (ldb < 1) ldb = 1;
    SuperMatrix SA, SB, L, U; memset(&L, 0, sizeof L); memset(&U, 0, sizeof U);
    mk_sparse(P, &J->A, J->rowmajor, &SA); mk_dense(P, n, nrhs, ldb, J->B0, &SB, 777.0L);
    int *pc = malloc(sizeof(int) * (size_t)(n + 1)), *pr = malloc(sizeof(int) * (size_t)(n + 1));
    for (int i = 0; i <= n; i++) pc[i] = pr[i] = -12345;
    if (J->opt.ColPerm == MY_PERMC) memcpy(pc, J->permc_in, sizeof(int) * (size_t)n);
    SuperLUStat_t stat; StatInit(&stat); int_t info = -999; superlu_options_t opt = J->opt;
    P->gssv(&opt, &SA, pc, pr, &L, &U, &SB, &stat, &info);
    o->info = (long long)info; h_ll(o, 0, info);
    HB(1, pc, sizeof(int) * (size_t)n); h_sparse(o, 5, P, &SA);
    if (info == 0) {
        HB(2, pr, sizeof(int) * (size_t)n);
        o->comp[3] = hash_factors(P, &L, &U, NULL, NULL, n, n);
        h_dense(o, 4, P, &SB); h_stat(o, &stat);
    }
    if (info >= 0 && info <= n) { Destroy_SuperNode_Matrix(&L); Destroy_CompCol_Matrix(&U); }
    StatFree(&stat); free_sparse(&SA); free_dense(&SB); free(pc); free(pr);
}

static void run_expert(const job *J, int wsfill, jout *o)
{
    const vf_api *P = J->P; int n = J->A.n, nrhs = J->nrhs, ilu = J->fam == FAM_ILU;
    xdrv D; xdrv_init(&D, P, &J->A, J->rowmajor, nrhs, J->ldpadb, J->ldpadx, J->B0, ilu);
    void *work = NULL;
    if (J->use_ws) { size_t G = generous_lwork(P, n, J->A.nnz); work = malloc(G + 16); memset(work, wsfill, G + 16); D.work = work; D.lwork = (int_t)G; }
    superlu_options_t opt = J->opt;
    if (opt.ColPerm == MY_PERMC) memcpy(D.perm_c, J->permc_in, sizeof(int) * (size_t)n);
    if (!ilu && opt.IterRefine != NOREFINE && nrhs > 0 && wsfill) { StatInit(&D.stat); D.stat_on = 1; D.stat.RefineSteps = 1 + wsfill % 9; }   /* stale step count of an earlier call: output only */
    /* ferr / berr / rcond / rpg are outputs: what an earlier call left in them (1.0 after a solve without refinement, a large bound) must not matter */
    if (!ilu) for (int j = 0; j < nrhs; j++) { P->rset(D.ferr, (size_t)j, wsfill ? (wsfill & 1 ? 1.0L : 1e6L * (1 + wsfill % 7)) : 0.0L); P->rset(D.berr, (size_t)j, wsfill ? 1.0L : 0.0L); }
    if (opt.ConditionNumber == YES) P->rset(D.rcond_p, 0, wsfill ? 0.25L * (1 + wsfill % 3) : 0.0L);
    if (opt.PivotGrowth == YES) P->rset(D.rpg_p, 0, wsfill ? 2.0L : 0.0L);
    xdrv_call(&D, &opt);
    int_t info = D.info; o->info = (long long)info; h_ll(o, 0, info); HB(0, D.equed, 1);
    int full = info >= 0 && (info == 0 || info == n + 1 || (ilu && info <= n));
    if (info >= 0 && info <= n + 1) {
        HB(1, D.perm_c, sizeof(int) * (size_t)n); HB(1, D.etree, sizeof(int) * (size_t)n);
        HB(5, D.R, P->rsz * (size_t)n); HB(5, D.C, P->rsz * (size_t)n); h_sparse(o, 5, P, &D.A);
    }
    if (full) {
        HB(2, D.perm_r, sizeof(int) * (size_t)n);
        o->comp[3] = hash_factors(P, &D.L, &D.U, NULL, NULL, n, n);
        h_dense(o, 4, P, &D.B); h_dense(o, 4, P, &D.X);
        HB(6, D.rpg_p, P->rsz); HB(6, D.rcond_p, P->rsz);
        if (!ilu) { HB(6, D.ferr, P->rsz * (size_t)nrhs); HB(6, D.berr, P->rsz * (size_t)nrhs); }
        HB(7, &D.mem.for_lu, sizeof D.mem.for_lu); HB(7, &D.mem.total_needed, sizeof D.mem.total_needed);
        h_stat(o, &D.stat);
    }
    xdrv_free(&D); free(work);
}

static void run_trf(const job *J, int wsfill, jout *o)
{
    const vf_api *P = J->P; int m = J->A.m, n = J->A.n, nrhs = J->nrhs;
    void *work = NULL; int_t lwork = 0;
    if (J->use_ws) { size_t G = generous_lwork(P, m, J->A.nnz); work = malloc(G + 16); memset(work, wsfill, G + 16); lwork = (int_t)G; }
    superlu_options_t opt = J->opt;
    fact_run R; fact_do(P, &J->A, &opt, J->permc_in, work, lwork, 0, &R);
    o->info = (long long)R.info; h_ll(o, 0, R.info);
    HB(1, R.perm_c, sizeof(int) * (size_t)n); HB(1, R.etree, sizeof(int) * (size_t)n);
    if (R.info == 0) {
        HB(2, R.perm_r, sizeof(int) * (size_t)m);
        o->comp[3] = hash_factors(P, &R.L, &R.U, NULL, NULL, m, n);
        if (m == n) {
            SuperMatrix SB, SX; int info2 = -999, info3 = -999;
            mk_dense(P, n, nrhs, n + J->ldpadb, J->B0, &SB, 555.0L); mk_dense(P, n, nrhs, n + J->ldpadx, J->B0, &SX, 555.0L);
            P->gstrs(J->trans, &R.L, &R.U, R.perm_c, R.perm_r, &SX, &R.stat, &info2);
            h_ll(o, 0, info2); h_dense(o, 4, P, &SX);
            /* condition estimate and growth factor as the expert driver forms them */
            double rc[2], fe[8], be[8]; memset(rc, 0, sizeof rc); memset(fe, 0, sizeof fe); memset(be, 0, sizeof be);   /* storage for float or double */
            if (wsfill) { for (int j = 0; j < 4 && j < nrhs; j++) { P->rset(fe, (size_t)j, wsfill & 1 ? 1.0L : 1e6L * (1 + wsfill % 7)); P->rset(be, (size_t)j, 1.0L); } P->rset(rc, 0, 0.5L); }   /* left-overs of an earlier call in output-only arrays */
            char nrm[2] = { J->trans == NOTRANS ? '1' : 'I', 0 };
            ld anorm = P->langs(nrm, &R.A); P->gscon(nrm, &R.L, &R.U, anorm, rc, &R.stat, &info3);
            h_ll(o, 0, info3); HB(6, rc, P->rsz);
            ld rpg = P->PivotGrowth(n, &R.A, R.perm_c, &R.L, &R.U); { double g = (double)rpg; HB(6, &g, sizeof g); }
            if (nrhs > 0) {
                char eq[2] = "N"; int info4 = -999;
                /* a statistics object that has been through earlier refinements (one StatInit per run is the common use): its old step count is output only */
                if (wsfill) R.stat.RefineSteps = 1 + wsfill % 9;
                P->gsrfs(J->trans, &R.A, &R.L, &R.U, R.perm_c, R.perm_r, eq, NULL, NULL, &SB, &SX, fe, be, &R.stat, &info4);
                h_ll(o, 0, info4); h_dense(o, 4, P, &SX); h_dense(o, 4, P, &SB); HB(6, fe, P->rsz * (size_t)nrhs); HB(6, be, P->rsz * (size_t)nrhs);
            }
            free_dense(&SB); free_dense(&SX);
        }
        h_stat(o, &R.stat);
    }
    fact_free(&R); free(work);
}

static void run_permc(const job *J, jout *o)
{
    const vf_api *P = J->P; int m = J->A.m, n = J->A.n;
    SuperMatrix SA; mk_sparse(P, &J->A, 0, &SA);
    int *pc = malloc(sizeof(int) * (size_t)(n + 1));
    static const int meth[4] = { NATURAL, MMD_ATA, MMD_AT_PLUS_A, COLAMD };
    for (int k = 0; k < 4; k++) {
        if (meth[k] == MMD_AT_PLUS_A && m != n) continue;
        for (int i = 0; i <= n; i++) pc[i] = -4321;
        get_perm_c(meth[k], &SA, pc);
        HB(k, pc, sizeof(int) * (size_t)n);
    }
    h_sparse(o, 5, P, &SA); o->info = 0;
    free(pc); free_sparse(&SA);
}

static void run_etree(const job *J, jout *o)
{
    const vf_api *P = J->P; int m = J->A.m, n = J->A.n;
    SuperMatrix SA, AC; mk_sparse(P, &J->A, 0, &SA);
    int *pc = malloc(sizeof(int) * (size_t)(n + 1)), *et = malloc(sizeof(int) * (size_t)(n + 1)), *par = malloc(sizeof(int) * (size_t)(n + 1));
    for (int i = 0; i <= n; i++) pc[i] = et[i] = par[i] = -4321;
    superlu_options_t opt = J->opt;
    if (opt.ColPerm == MY_PERMC) memcpy(pc, J->permc_in, sizeof(int) * (size_t)n); else get_perm_c(opt.ColPerm, &SA, pc);
    sp_preorder(&opt, &SA, pc, et, &AC);
    const NCPformat *ac = AC.Store;
    HB(1, pc, sizeof(int) * (size_t)n); HB(1, et, sizeof(int) * (size_t)n);
    HB(2, ac->colbeg, sizeof(int_t) * (size_t)n); HB(2, ac->colend, sizeof(int_t) * (size_t)n);
    Destroy_CompCol_Permuted(&AC);
    /* the tree routine itself on the unpermuted pattern */
    const NCformat *as = SA.Store;
    sp_coletree(as->colptr, as->colptr + 1, as->rowind, m, n, par);
    HB(3, par, sizeof(int) * (size_t)n);
    h_sparse(o, 5, P, &SA); o->info = 0;
    free(pc); free(et); free(par); free_sparse(&SA);
}

static void job_str(const job *J, char *buf, size_t n);
static int c09_verbose;       /* replay: announce every job execution on stderr (a crash then names its job) */
static void job_run(const job *J, int wsfill, jout *o)
{
    jout_init(o); install_tuning(J);
    if (c09_verbose) { char js[160]; job_str(J, js, sizeof js); fprintf(stderr, "  run %s ienv=[%d,%d,%d,%d,%d,%d,%d] nrhs=%d trans=%d\n", js,
                       J->ienv[1], J->ienv[2], J->ienv[3], J->ienv[4], J->ienv[5], J->ienv[6], J->ienv[7], J->nrhs, (int)J->trans);
                       if (J->fam == FAM_ILU) { char ob[300]; ilu_options_str(&J->opt, ob, sizeof ob); fprintf(stderr, "      %s\n", ob); } }
    switch (J->fam) {
    case FAM_GSSV: run_gssv(J, o); break;
    case FAM_GSSVX: case FAM_ILU: run_expert(J, wsfill, o); break;
    case FAM_TRF: run_trf(J, wsfill, o); break;
    case FAM_PERMC: run_permc(J, o); break;
    default: run_etree(J, o); break;
    }
    jout_finish(o);
}

/* ------------------------------------------------------------------ job generator (main thread, from c->rng only) */
static void gen_job(vf_case *c, job *J, int fam)
{
    vf_rng *r = &c->rng; memset(J, 0, sizeof *J);
    J->fam = fam;
    J->P = rng_bool(r, 0.7) ? c->P : &vf_apis[rng_int(r, 0, 3)];
    const vf_api *P = J->P;
    int heavy = c->variant_san == 2;
    int factor = fam <= FAM_ILU;
    int nmax = factor ? (heavy ? 30 : (c->tier && rng_bool(r, 0.1) ? 90 : 45)) : (heavy ? 60 : 120);
    gen_spec_random(r, P, &J->g, factor ? 2 : 1, nmax, factor ? 1 : 0);
    if (factor) {
        /* structurally nonsingular, no exact-singular value classes: singularity is not this property's subject */
        static const int pats[] = { PAT_RANDOM_DIAG, PAT_RANDOM_DIAG, PAT_BAND, PAT_ARROW, PAT_BLOCKDIAG, PAT_BLOCKTRI, PAT_PERMTRI, PAT_GRID, PAT_DENSE, PAT_STAIR };
        J->g.pattern = rng_pick(r, pats, 10);
        if (J->g.pattern == PAT_DENSE && J->g.n > 24) J->g.n = J->g.m = rng_int(r, 2, 24);
        if (J->g.values == VAL_SMALLINT || J->g.values == VAL_POW2) J->g.values = VAL_UNIF;
        if (fam == FAM_ILU) { static const int vs[] = { VAL_UNIF, VAL_DIAGDOM, VAL_ROWSCALED }; J->g.values = rng_pick(r, vs, 3); if (J->g.scale_exp > 3) J->g.scale_exp = 3;
                              if (J->g.pattern == PAT_PERMTRI) J->g.pattern = PAT_RANDOM_DIAG; }
        J->g.explicit_zeros = 0; J->g.drop_diag = 0;
        if (fam == FAM_TRF && rng_bool(r, 0.2)) J->g.m = J->g.n + rng_int(r, 1, 1 + J->g.n / 2);   /* tall: factor only */
    } else if (fam == FAM_ETREE && rng_bool(r, 0.5)) J->g.m = J->g.n;
    gen_matrix(r, P, &J->g, &J->A);
    int n = J->A.n;
    run_opts o; gen_run_opts(r, &o, 1);
    gen_tuning(r, o.tuning_small || heavy);
    for (int i = 1; i <= 7; i++) J->ienv[i] = vf_ienv_get(i);
    J->rowmajor = (fam == FAM_GSSV || fam == FAM_GSSVX || fam == FAM_ILU) ? o.rowmajor : 0;
    J->nrhs = o.nrhs; J->ldpadb = o.ldpad; J->ldpadx = rng_bool(r, 0.3) ? rng_int(r, 1, 4) : 0; J->trans = o.opt.Trans;
    J->use_ws = (fam == FAM_GSSVX || fam == FAM_ILU || fam == FAM_TRF) && rng_bool(r, 0.25);
    J->opt = o.opt; J->opt.PrintStat = NO;
    if (fam == FAM_GSSVX) {
        if (rng_bool(r, 0.7)) { J->opt.ConditionNumber = YES; J->opt.PivotGrowth = YES; J->opt.IterRefine = (IterRefine_t)rng_int(r, 1, 3); if (J->nrhs == 0) J->nrhs = 1; }
    } else if (fam == FAM_ILU) {
        gen_ilu_options(r, &J->opt);
    } else if (fam == FAM_GSSV || fam == FAM_TRF) {
        superlu_options_t d; set_default_options(&d); d.ColPerm = o.opt.ColPerm; d.DiagPivotThresh = o.opt.DiagPivotThresh; d.SymmetricMode = o.opt.SymmetricMode; d.PrintStat = NO; J->opt = d;
    } else if (fam == FAM_ETREE) {
        superlu_options_t d; set_default_options(&d); d.ColPerm = rng_bool(r, 0.5) ? MY_PERMC : COLAMD; d.Fact = DOFACT;
        d.SymmetricMode = (J->A.m == n && rng_bool(r, 0.3)) ? YES : NO; d.PrintStat = NO; J->opt = d;
    }
    if (J->A.m != n && J->opt.ColPerm == MMD_AT_PLUS_A) J->opt.ColPerm = MMD_ATA;     /* documented: A'+A needs a square matrix */
    if (J->A.m != n) J->opt.SymmetricMode = NO;
    J->permc_in = malloc(sizeof(int) * (size_t)(n + 1)); rng_perm(r, J->permc_in, n);
    int nb = J->nrhs > 0 ? J->nrhs : 1;
    J->B0 = malloc(sizeof(ldc) * (size_t)(n + 1) * (size_t)nb);
    for (int j = 0; j < nb; j++) for (int i = 0; i < n; i++) {
        ld re = 2 * rng_unif(r) - 1, im = P->cplx ? 2 * rng_unif(r) - 1 : 0;
        J->B0[(size_t)j * n + i] = P->round(re + im * I);
    }
}
static void job_free(job *J) { mat_free(&J->A); free(J->permc_in); free(J->B0); }
static void job_str(const job *J, char *buf, size_t n)
{
    snprintf(buf, n, "%s:%c:%dx%d:%s:%s%s%s", fam_names[J->fam], J->P->letter, J->A.m, J->A.n, pat_names[J->g.pattern],
             J->fam == FAM_PERMC ? "all" : colperm_names[J->opt.ColPerm], J->rowmajor ? ":NR" : "", J->use_ws ? ":ws" : "");
}

/* ------------------------------------------------------------------ thread pool */
typedef struct { long seq; short tid, jb; char kind; } evrec;
typedef struct {
    const job *jobs; pthread_barrier_t bar; pthread_mutex_t mu;
    long seq; int inflight, maxinflight; long overlap_starts; int permille; int wsfill;
} pool;
typedef struct { pool *pl; int tid; const int *queue; int qlen; jout *res; evrec *ev; int nev; uint64_t yseed; } wctx;

/* In the tsan variant the allocation ledger's mutex (taken at every SUPERLU_MALLOC/SUPERLU_FREE of every thread) would
 * order almost all accesses of different threads for ThreadSanitizer's happens-before analysis and so hide races
 * on library state that real malloc/free would not hide (a lazily initialised static, for instance).  Each worker
 * therefore tells ThreadSanitizer to ignore the synchronisation operations it performs while it runs jobs; thread
 * creation and join still order the main thread's accesses.  The ledger's own memory then looks unprotected to
 * ThreadSanitizer: reports located in its functions are suppressed here (and, should one slip through, are classified
 * as "outside the library" by the post hook because the racing access is in vf_rt.c). */
#if defined(__SANITIZE_THREAD__)
extern void AnnotateIgnoreSyncBegin(const char *file, int line);
extern void AnnotateIgnoreSyncEnd(const char *file, int line);
const char *__tsan_default_suppressions(void);
const char *__tsan_default_suppressions(void) { return "race:ledger_add\nrace:ledger_del\nrace:ledger_grow\n"; }
#define C09_IGNORE_SYNC_BEGIN() AnnotateIgnoreSyncBegin(__FILE__, __LINE__)
#define C09_IGNORE_SYNC_END()   AnnotateIgnoreSyncEnd(__FILE__, __LINE__)
#else
#define C09_IGNORE_SYNC_BEGIN() ((void)0)
#define C09_IGNORE_SYNC_END()   ((void)0)
#endif

static void *worker(void *arg)
{
    wctx *w = arg; pool *pl = w->pl;
    /* the perturbation PRNG is per thread, the rate is a process global: set both under the pool mutex, before the barrier */
    pthread_mutex_lock(&pl->mu); vf_set_yield(pl->permille, w->yseed); pthread_mutex_unlock(&pl->mu);
    pthread_barrier_wait(&pl->bar);
    C09_IGNORE_SYNC_BEGIN();
    for (int q = 0; q < w->qlen; q++) {
        int j = w->queue[q];
        long s = __atomic_fetch_add(&pl->seq, 1, __ATOMIC_SEQ_CST);
        w->ev[w->nev++] = (evrec){ s, (short)w->tid, (short)j, 0 };
        int f = __atomic_add_fetch(&pl->inflight, 1, __ATOMIC_SEQ_CST);
        if (f >= 2) __atomic_fetch_add(&pl->overlap_starts, 1, __ATOMIC_RELAXED);
        int mx = __atomic_load_n(&pl->maxinflight, __ATOMIC_RELAXED);
        while (f > mx && !__atomic_compare_exchange_n(&pl->maxinflight, &mx, f, 0, __ATOMIC_RELAXED, __ATOMIC_RELAXED)) { }
        job_run(&pl->jobs[j], pl->wsfill, &w->res[q]);
        __atomic_sub_fetch(&pl->inflight, 1, __ATOMIC_SEQ_CST);
        s = __atomic_fetch_add(&pl->seq, 1, __ATOMIC_SEQ_CST);
        w->ev[w->nev++] = (evrec){ s, (short)w->tid, (short)j, 1 };
    }
    C09_IGNORE_SYNC_END();
    return NULL;
}

typedef struct { int maxinflight; long overlap_starts, runs, mismatches; uint64_t ilsig; } poolstat;

/* wall-clock guard of a pool: the runtime's watchdog counts CPU time and would never fire if every thread blocked */
#include <signal.h>
#include <unistd.h>
static void c09_wall(int sig)
{
    (void)sig; static const char m[] = "VF-HANG C09 wall-clock watchdog: a thread pool did not finish within 150 s (all threads blocked?)\n";
    ssize_t w = write(2, m, sizeof m - 1); (void)w; _exit(VF_EXIT_HANG);
}

/* runs T threads over the queues; returns their records (results + event logs) or NULL if threads could not be created */
static wctx *pool_exec(const job *jobs, int T, int *const *queues, const int *qlens, int permille, uint64_t yseed, int wsfill, poolstat *st)
{
    pool pl; memset(&pl, 0, sizeof pl); pl.jobs = jobs; pl.permille = permille; pl.wsfill = wsfill;
    pthread_barrier_init(&pl.bar, NULL, (unsigned)T); pthread_mutex_init(&pl.mu, NULL);
    wctx *w = calloc((size_t)T, sizeof *w); pthread_t *th = calloc((size_t)T, sizeof *th);
    long nev = 0;
    for (int t = 0; t < T; t++) {
        w[t].pl = &pl; w[t].tid = t; w[t].queue = queues[t]; w[t].qlen = qlens[t]; w[t].yseed = yseed * 1000003ULL + (uint64_t)t * 0x9E3779B97F4A7C15ULL + 1;
        w[t].res = calloc((size_t)qlens[t] + 1, sizeof(jout)); w[t].ev = calloc(2 * (size_t)qlens[t] + 2, sizeof(evrec)); nev += 2 * qlens[t];
    }
    { struct sigaction sa; memset(&sa, 0, sizeof sa); sa.sa_handler = c09_wall; sigaction(SIGALRM, &sa, NULL); alarm(150); }
    int started = 0;
    for (int t = 0; t < T; t++) { if (pthread_create(&th[t], NULL, worker, &w[t])) break; started++; }
    if (started < T) {      /* resource exhaustion: nothing can be concluded; the waiting threads are cancelled at the barrier */
        for (int t = 0; t < started; t++) pthread_cancel(th[t]);
        for (int t = 0; t < started; t++) pthread_join(th[t], NULL);
        alarm(0);
        for (int t = 0; t < T; t++) { free(w[t].res); free(w[t].ev); } free(w); free(th);
        pthread_barrier_destroy(&pl.bar); pthread_mutex_destroy(&pl.mu); return NULL;
    }
    for (int t = 0; t < T; t++) pthread_join(th[t], NULL);
    alarm(0);
    vf_set_yield(0, 0);
    /* interleaving signature: hash of the global order of (thread, job, start/finish) events */
    evrec *ord = calloc((size_t)nev + 1, sizeof(evrec));
    for (int t = 0; t < T; t++) for (int e = 0; e < w[t].nev; e++) { long q = w[t].ev[e].seq; if (q >= 0 && q < nev) ord[q] = w[t].ev[e]; }
    uint64_t sg = FNV0; for (long e = 0; e < nev; e++) { int v[3] = { ord[e].tid, ord[e].jb, ord[e].kind }; sg = fnv64(sg, v, sizeof v); }
    free(ord); free(th);
    st->ilsig = sg; st->maxinflight = pl.maxinflight; st->overlap_starts = pl.overlap_starts; st->runs = 0; st->mismatches = 0;
    for (int t = 0; t < T; t++) w[t].pl = NULL;
    pthread_barrier_destroy(&pl.bar); pthread_mutex_destroy(&pl.mu);
    return w;
}
/* evaluation of a finished pool against the references: main thread only; releases the records */
static void pool_eval(vf_case *c, const job *jobs, int T, int *const *queues, const int *qlens, wctx *w, poolstat *st, const char *mode)
{
    for (int t = 0; t < T; t++) for (int q = 0; q < qlens[t]; q++) {
        const job *J = &jobs[queues[t][q]]; const jout *o = &w[t].res[q]; st->runs++;
        if (o->h != J->ref.h) {
            st->mismatches++;
            char key[120], js[160], df[200]; snprintf(key, sizeof key, "output-differs-under-concurrency@%s", fam_names[J->fam]);
            job_str(J, js, sizeof js); diff_names(o, &J->ref, df, sizeof df);
            vf_viol(c, key, "job %d (%s) run by thread %d of %d%s (queue position %d, max %d jobs in flight): output differs from the same call executed alone in: %s (info %lld, alone %lld)",
                    queues[t][q], js, t, T, mode, q, st->maxinflight, df, o->info, J->ref.info);
        }
    }
    for (int t = 0; t < T; t++) { free(w[t].res); free(w[t].ev); } free(w);
}

/* ------------------------------------------------------------------ bookkeeping */
static void tag_once(vf_case *c, const char *fmt, ...)
{
    char b[100], pat[104]; va_list ap; va_start(ap, fmt); vsnprintf(b, sizeof b, fmt, ap); va_end(ap);
    snprintf(pat, sizeof pat, " %s ", b);
    size_t l = strlen(c->tags); char *tmp = malloc(l + 3); snprintf(tmp, l + 3, " %s ", c->tags);
    int have = strstr(tmp, pat) != NULL; free(tmp);
    if (!have) vf_tag(c, "%s", b);
}
static int pick_junk(vf_rng *r, int notthis)
{
    static const int pats[4] = { 0x00, 0xFF, 0xA5, 256 }; int j;
    do { j = rng_pick(r, pats, 4); } while (j == notthis);
    return j;
}

static int c09_cold = 1;      /* no C09 case has run in this process yet */

static void c09_run(vf_case *c)
{
    vf_rng *r = &c->rng; char buf[200];
    int tsan = c->variant_san == 2; c09_verbose = c->verbose;
    if (tsan) fprintf(stderr, "VF-C09-CASE %ld BEGIN\n", c->index);
    /* ---- job list: every family at least once */
    int nj = c->tier ? rng_int(r, 8, 16) : rng_int(r, 8, 12);
    job *jobs = calloc((size_t)nj, sizeof *jobs);
    int *fams = malloc(sizeof(int) * (size_t)nj);
    for (int j = 0; j < nj; j++) {
        static const int mix[] = { FAM_GSSV, FAM_GSSVX, FAM_GSSVX, FAM_TRF, FAM_TRF, FAM_ILU, FAM_ILU, FAM_PERMC, FAM_ETREE };
        fams[j] = j < FAM__N ? j : rng_pick(r, mix, 9);
    }
    vf_desc(c, "%d jobs:", nj);
    int nprec[4] = { 0, 0, 0, 0 };
    for (int j = 0; j < nj; j++) {
        gen_job(c, &jobs[j], fams[j]); job_str(&jobs[j], buf, sizeof buf); vf_desc(c, " %s", buf);
        nprec[jobs[j].P->prec]++;
        tag_once(c, "fam=%s", fam_names[jobs[j].fam]); tag_once(c, "prec=%c", jobs[j].P->letter);
        if (jobs[j].fam != FAM_PERMC) tag_once(c, "colperm=%s", colperm_names[jobs[j].opt.ColPerm]);
        if (jobs[j].use_ws) tag_once(c, "mem=workspace");
        if (jobs[j].rowmajor) tag_once(c, "NR");
        if (jobs[j].fam == FAM_GSSVX && jobs[j].opt.ConditionNumber == YES && jobs[j].opt.IterRefine != NOREFINE && jobs[j].opt.PivotGrowth == YES) tag_once(c, "gssvx+refine+cond+growth");
        if (jobs[j].fam == FAM_GSSVX && jobs[j].opt.Equil == YES) tag_once(c, "gssvx+equil");
        if (jobs[j].fam == FAM_ILU) {
            int dr = jobs[j].opt.ILU_DropRule;
            if (jobs[j].opt.RowPerm == LargeDiag_MC64) tag_once(c, "ilu+mc64");
            if (dr == NODROP) tag_once(c, "drop=none");
            if (dr & DROP_BASIC) tag_once(c, "drop=basic"); if (dr & DROP_PROWS) tag_once(c, "drop=prows"); if (dr & DROP_COLUMN) tag_once(c, "drop=column");
            if (dr & DROP_AREA) tag_once(c, "drop=area"); if (dr & DROP_DYNAMIC) tag_once(c, "drop=dynamic"); if (dr & DROP_INTERP) tag_once(c, "drop=interp");
            tag_once(c, "milu=%d", (int)jobs[j].opt.ILU_MILU);
        }
        if (jobs[j].fam == FAM_ETREE && jobs[j].opt.SymmetricMode == YES) tag_once(c, "symetree");
    }
    free(fams);
    { int k = 0; for (int p = 0; p < 4; p++) k += nprec[p] > 0; if (k >= 2) tag_once(c, "mixed-precision"); }

    /* ---- phase 0 (first case of a worker process only): the same jobs concurrently BEFORE any library routine ran
       single-threaded in this process, so that first-use initialisation (cached machine parameters and the like)
       happens inside the thread pool; evaluated after phase 1.  Its randomness does not come from c->rng: whether a
       case is the first of its process depends on the chunking, and the other phases must not. */
    int cold = c09_cold; c09_cold = 0;
    int coldT = 4, *coldq[4] = { NULL, NULL, NULL, NULL }, coldlen[4]; wctx *coldw = NULL; poolstat coldst; memset(&coldst, 0, sizeof coldst);
    if (cold) {
        /* let the runtime write this case's description record now, from the main thread (it does so at the first
           allocation whose site lies in /SRC/), not from inside the pool */
        { void *p0 = vf_malloc(8, "/SRC/(c09 cold start)", 0, "c09_run"); vf_free(p0); }
        vf_rng r2; rng_seed(&r2, c->seed, 0xC09C01DULL, (uint64_t)c->index);
        for (int t = 0; t < coldT; t++) { coldq[t] = malloc(sizeof(int) * (size_t)nj); rng_perm(&r2, coldq[t], nj); coldlen[t] = nj; }
        int junk = pick_junk(&r2, -2); vf_set_junk(junk);
        coldw = pool_exec(jobs, coldT, coldq, coldlen, rng_int(&r2, 30, 300), rng_u64(&r2), junk == 256 ? 0x5A : junk, &coldst);
        if (coldw) tag_once(c, "coldstart");
    }

    /* ---- phase 1: alone, twice, two junk patterns */
    int j1 = pick_junk(r, -2), j2 = pick_junk(r, j1); long alone_ok = 0, ok_info0 = 0;
    for (int j = 0; j < nj; j++) {
        jout a, b;
        vf_set_junk(j1); job_run(&jobs[j], j1 & 0xFF, &a);
        vf_set_junk(j2); job_run(&jobs[j], j2 == 256 ? 0x3C : j2, &b);
        jobs[j].ref = a;
        if (a.h != b.h) {
            char key[100], js[160], df[200]; snprintf(key, sizeof key, "nondeterministic-alone@%s", fam_names[jobs[j].fam]);
            job_str(&jobs[j], js, sizeof js); diff_names(&a, &b, df, sizeof df);
            vf_viol(c, key, "job %d (%s) executed twice in one thread with identical arguments, fresh-heap fill 0x%x then 0x%x: outputs differ in: %s (info %lld / %lld)",
                    j, js, j1, j2, df, a.info, b.info);
        } else alone_ok++;
        if (a.info == 0 && jobs[j].fam <= FAM_ILU) ok_info0++;
        vf_log(c, "job %d %s info=%lld hash=%016llx", j, (job_str(&jobs[j], buf, sizeof buf), buf), a.info, (unsigned long long)a.h);
        if (jobs[j].fam <= FAM_ILU) tag_once(c, a.info == 0 ? "info=0" : a.info > 0 ? "info=positive" : "info=negative");
    }
    c->counters[6] += alone_ok;
    long runs2 = 0, overlaps = 0, mism = 0; int maxinfl = 0;
    if (coldw) {
        pool_eval(c, jobs, coldT, coldq, coldlen, coldw, &coldst, " at process start");
        runs2 += coldst.runs; overlaps += coldst.overlap_starts; mism += coldst.mismatches; if (coldst.maxinflight > maxinfl) maxinfl = coldst.maxinflight;
        vf_sig_u64(c, coldst.ilsig);
        vf_log(c, "cold start T=%d: %ld job runs, max in flight %d, mismatches %ld", coldT, coldst.runs, coldst.maxinflight, coldst.mismatches);
    }
    for (int t = 0; t < coldT; t++) free(coldq[t]);
    vf_check_ledger(c, "after phase 1 (jobs alone)");

    /* ---- phase 2: concurrent */
    static const int Ts_q[3] = { 2, 4, 8 };
    int nT = 3, Ts[4] = { Ts_q[0], Ts_q[1], Ts_q[2], 16 };
    if (c->tier && rng_bool(r, 0.15)) nT = 4;
    int groups = 0, groups_distinct = 0, maxT = 0; int pool_fail = 0;
    for (int ti = 0; ti < nT && !pool_fail; ti++) {
        int T = Ts[ti];
        int **queues = malloc(sizeof(int *) * (size_t)T); int *qlens = malloc(sizeof(int) * (size_t)T);
        for (int t = 0; t < T; t++) {
            queues[t] = malloc(sizeof(int) * (size_t)nj); rng_perm(r, queues[t], nj);
            qlens[t] = T <= 4 ? nj : rng_int(r, (nj + 1) / 2, nj);
            if (T >= 16) qlens[t] = rng_int(r, (nj + 3) / 4, (nj + 1) / 2);
        }
        uint64_t sigs[2] = { 0, 0 };
        for (int rep = 0; rep < 2 && !pool_fail; rep++) {
            poolstat st; int pm = rng_int(r, 30, 300); int junk = pick_junk(r, -2); uint64_t ys = rng_u64(r);
            vf_set_junk(junk);
            wctx *w = pool_exec(jobs, T, queues, qlens, pm, ys, junk == 256 ? 0x5A : junk, &st);
            if (!w) { pool_fail = 1; break; }
            pool_eval(c, jobs, T, queues, qlens, w, &st, "");
            sigs[rep] = st.ilsig; vf_sig_u64(c, st.ilsig);
            runs2 += st.runs; overlaps += st.overlap_starts; mism += st.mismatches;
            if (st.maxinflight > maxinfl) maxinfl = st.maxinflight;
            if (st.maxinflight >= 2) { if (T > maxT) maxT = T; tag_once(c, "T=%d", T); }
            vf_log(c, "T=%d rep=%d permille=%d: %ld job runs, max in flight %d, overlapping starts %ld, interleaving %016llx, mismatches %ld",
                   T, rep, pm, st.runs, st.maxinflight, st.overlap_starts, (unsigned long long)st.ilsig, st.mismatches);
        }
        if (!pool_fail) { groups++; if (sigs[0] != sigs[1]) groups_distinct++; }
        for (int t = 0; t < T; t++) free(queues[t]); free(queues); free(qlens);
        vf_check_ledger(c, "after phase 2 (concurrent jobs)");
    }
    if (pool_fail) vf_skip(c, "pthread_create failed");
    c->counters[0] += runs2; if (maxT > c->counters[1]) c->counters[1] = maxT; if (maxinfl > c->counters[2]) c->counters[2] = maxinfl;
    c->counters[3] += groups_distinct; c->counters[4] += groups; c->counters[7] += overlaps;
    tag_once(c, "inflight=%d", maxinfl > 8 ? 9 : maxinfl);
    tag_once(c, groups && groups_distinct == groups ? "interleavings=all-distinct" : groups_distinct ? "interleavings=some-distinct" : "interleavings=same");

    /* ---- phase 3: histories in one thread */
    long hist = 0; int nX = tsan ? 1 : 3;
    for (int x = 0; x < nX; x++) {
        int X = rng_int(r, 0, nj - 1), k = rng_int(r, 1, 4); jout o;
        for (int pass = 0; pass < 2; pass++) {
            int junk = pick_junk(r, -2); vf_set_junk(junk);
            job_run(&jobs[X], junk & 0xFF, &o); hist++;
            if (o.h != jobs[X].ref.h) {
                char key[100], js[160], df[200]; snprintf(key, sizeof key, "output-depends-on-history@%s", fam_names[jobs[X].fam]);
                job_str(&jobs[X], js, sizeof js); diff_names(&o, &jobs[X].ref, df, sizeof df);
                vf_viol(c, key, "job %d (%s) %s: output differs from its first execution in: %s (info %lld, first %lld)", X, js,
                        pass ? "repeated after unrelated calls in the same thread" : "repeated after the concurrent phase", df, o.info, jobs[X].ref.info);
            }
            if (pass == 0) for (int t = 0; t < k; t++) {
                int Y = rng_int(r, 0, nj - 1); jout oy; job_run(&jobs[Y], junk & 0xFF, &oy); hist++;
                if (oy.h != jobs[Y].ref.h) {
                    char key[100], js[160], df[200]; snprintf(key, sizeof key, "output-depends-on-history@%s", fam_names[jobs[Y].fam]);
                    job_str(&jobs[Y], js, sizeof js); diff_names(&oy, &jobs[Y].ref, df, sizeof df);
                    vf_viol(c, key, "job %d (%s) repeated between unrelated calls: output differs from its first execution in: %s", Y, js, df);
                }
            }
        }
    }
    c->counters[5] += hist;
    tag_once(c, "jobs=%d", nj >= 12 ? 12 : 8);
    /* non-trivial: jobs really overlapped, every queue entry was compared, at least two factor/solve jobs succeeded */
    c->nontrivial = !pool_fail && maxinfl >= 2 && runs2 >= 4L * nj && ok_info0 >= 2;
    for (int j = 0; j < nj; j++) job_free(&jobs[j]);
    free(jobs);
    vf_check_ledger(c, "after phase 3 (histories)");
    if (tsan) fprintf(stderr, "VF-C09-CASE %ld END\n", c->index);
}
VF_REGISTER("C09", c09_run)
