/* Direct factorization route: [get_perm_c |] sp_preorder + ?gstrf / ?gsitrf on a generated matrix. */
#ifndef FACT_H
#define FACT_H
#include "vf.h"
typedef struct {
    int m, n;
    int *perm_c, *perm_r, *etree;
    SuperMatrix A, AC, L, U;
    GlobalLU_t Glu;
    SuperLUStat_t stat;
    int_t info;
    int have_A, have_AC, have_LU, user_work, stat_on;
    long growths;        /* growths in flight the monitor observed during the last ?gstrf/?gsitrf call (-1: not countable, e.g. injected failures) */
    int fp_inexact;      /* FE_INEXACT was raised between entry to and return from ?gstrf/?gsitrf */
    superlu_options_t opt;
} fact_run;
/* my_permc: NULL or a permutation (used when opt->ColPerm == MY_PERMC). work/lwork as for ?gstrf. */
void fact_do(const vf_api *P, const vf_mat *A, const superlu_options_t *opt, const int *my_permc,
             void *work, int_t lwork, int ilu, fact_run *R);
/* refactorization of the pair held in R on a matrix with the same pattern (mode SamePattern_SameRowPerm or SamePattern) */
void fact_redo(const vf_api *P, const vf_mat *A2, fact_t mode, void *work, int_t lwork, fact_run *R);
/* same pattern, new values: kind 0 tiny relative perturbation, 1 unrelated values, 2 the entries that were pivots (rows perm_r^-1) shrunk so that
   remembered pivots fail the threshold test, 3 row rescaling */
void mat_revalue(vf_rng *r, const vf_api *P, const vf_mat *A, int kind, const int *perm_r, const int *perm_c, vf_mat *A2);
void fact_free(fact_run *R);
/* shared oracle pieces over a factor pair; each returns 0 when fine and otherwise fills why */
int  check_multipliers(const vf_api *P, const ldc *Ld, int m, int n, double u, char *why, size_t wl, ld *worst);
int  check_udiag(const vf_api *P, const ldc *Ud, int n, char *why, size_t wl);
/* diagonal preference; returns number of decisive columns seen via *decisive; 0 ok / 1 violation */
int  check_diag_preference(const vf_api *P, const int *perm_r, const int *perm_c, const ldc *Ld, const ldc *Ud,
                           const SuperMatrix *L, int m, int n, double u, int *decisive, int *undecided, char *why, size_t wl);
int  check_diag_preference_reuse(const vf_api *P, const int *perm_r, const int *perm_c, const ldc *Ld, const ldc *Ud,
                           const SuperMatrix *L, int m, int n, double u, const int *reuse_perm_r, int *decisive, int *undecided, char *why, size_t wl);
#endif

/* ------------------------------------------------------------------ expert drivers ?gssvx / ?gsisx */
#ifndef XDRV_H
#define XDRV_H
typedef struct {
    const vf_api *P;
    int n, nrhs, ldb, ldx, rowmajor, ilu;
    SuperMatrix A, B, X, L, U;
    int *perm_c, *perm_r, *etree;
    char equed[4];
    void *R, *C, *ferr, *berr, *rpg_p, *rcond_p;   /* arrays of the precision's real type */
    ld rpg, rcond;
    GlobalLU_t Glu; mem_usage_t mem; SuperLUStat_t stat; int_t info;
    void *work; int_t lwork;
    int have_LU, lu_in_work, stat_on;
    ldc padB, padX;
} xdrv;
/* creates A (from vf_mat), B (from B0 n x nrhs, may be NULL if nrhs = 0), X (junk), arrays; perm_* set to a poison value */
void xdrv_init(xdrv *D, const vf_api *P, const vf_mat *A, int rowmajor, int nrhs, int ldpadb, int ldpadx, const ldc *B0, int ilu);
/* calls ?gssvx (or ?gsisx when D->ilu) with D->work / D->lwork; StatInit is done on first call (tuning must be installed before) */
void xdrv_call(xdrv *D, superlu_options_t *opt);
/* destroys L and U according to the memory model they were created under */
void xdrv_free_factors(xdrv *D);
void xdrv_free(xdrv *D);
#define PERM_POISON (-7777)
#endif
#ifndef ILUOPT_H
#define ILUOPT_H
void gen_ilu_options(vf_rng *r, superlu_options_t *opt);
void ilu_options_str(const superlu_options_t *opt, char *buf, size_t n);
/* generous caller workspace for an n x n problem (bytes) */
size_t generous_lwork(const vf_api *P, int n, int_t nnz);
#endif
#ifndef XDRV2_H
#define XDRV2_H
/* the operator the driver must apply to the factored matrix F (A, or A^T for row storage):
   0 F, 1 F^T, 2 F^H, 3 conj(F) */
int  effective_op(int rowmajor, trans_t t);
/* F = the (possibly scaled) matrix as it stands in the caller's arrays now, in the orientation that was factored */
void xdrv_factored_matrix(const xdrv *D, vf_mat *F);
/* working-precision product a*f exactly as the library computes it (component-wise for complex) */
ldc  mul_native(const vf_api *P, ldc a, ld f);
ld   rmul_native(const vf_api *P, ld a, ld b);
/* after a successful call: returns the worst componentwise residual ratio of the returned X in the scaled system
   op(F) (X/t) = B_after against the factor-derived bound (cfac as in solve_residual_ratio) */
ld   xdrv_scaled_residual(const xdrv *D, trans_t trans, ld cfac, int *nonfinite);
ld   xdrv_skeel_sigma(const xdrv *D, trans_t trans);
/* || |F^-1| |L||U| ||: conditioning of the solve as the factorization actually performs it (>= ~cond(F); large for unstable pivoting) */
ld   xdrv_solver_cond(const xdrv *D);
/* checks A_after == diag(R) A0 diag(C) per equed (A0vals: original values in storage order) and index arrays; returns 0 ok */
int  xdrv_check_A_scaling(const xdrv *D, const vf_snap *idx0, const ldc *A0vals, char *why, size_t wl);
/* checks B_after against B0 (n x nrhs) per the documented table; returns 0 ok */
int  xdrv_check_B_scaling(const xdrv *D, trans_t trans, const ldc *B0, char *why, size_t wl);
#endif
#ifndef XDRV3_H
#define XDRV3_H
/* 1-norm condition number of a sparse square matrix via long double dense inverse; INFINITY when singular */
ld dense_cond1(const vf_mat *F, ld *norm1_out, ld *inv_norm1_out, ld *norminf_out, ld *inv_norminf_out);
#endif

#ifndef SINGRET_H
#define SINGRET_H
/* oracle for a return info = i in [1, n] (C04 clause a): stored candidates of the reported column exactly zero, earlier pivots
   nonzero, leading-block factor identity; F is the matrix that was factored */
void judge_singular(vf_case *c, const vf_api *P, const vf_mat *F, const int *perm_r, const int *perm_c,
                    const SuperMatrix *L, const SuperMatrix *U, int_t info, const char *route);
#endif
