/* C10 - column orderings are permutations that depend on the pattern only; the elimination tree returned by
 * sp_preorder is exactly the column elimination tree of A*Pc, topologically numbered and (unless SymmetricMode)
 * postordered; a supplied ordering is respected up to a postorder of its own tree; AC lists exactly A's columns.
 * The routines are precision independent: the plan runs one precision letter; the metamorphic twin of every case
 * is built in a randomly chosen precision (different Dtype, different values, explicit zeros). All clauses are
 * discrete: no tolerances. */
#include "vf.h"

/* ------------------------------------------------------------------ boolean patterns */
typedef struct { int m, n; unsigned char *b; } bpat;
#define BP(B, i, j) ((B)->b[(size_t)(j) * (size_t)(B)->m + (size_t)(i)])

static void bp_alloc(bpat *B, int m, int n) { B->m = m; B->n = n; B->b = calloc((size_t)m * (size_t)n + 1, 1); }
static void bp_free(bpat *B) { free(B->b); B->b = NULL; }
static void bp_from_mat(bpat *B, const vf_mat *A)
{
    bp_alloc(B, A->m, A->n);
    for (int j = 0; j < A->n; j++) for (int_t q = A->colptr[j]; q < A->colptr[j + 1]; q++) BP(B, (int)A->rowind[q], j) = 1;
}
static void bp_scramble(vf_rng *r, bpat *B, int rows, int cols)
{
    int m = B->m, n = B->n; int *pr = malloc(sizeof(int) * (size_t)m), *pc = malloc(sizeof(int) * (size_t)n);
    rng_perm(r, pr, m); rng_perm(r, pc, n);
    if (!rows) for (int i = 0; i < m; i++) pr[i] = i;
    if (!cols) for (int j = 0; j < n; j++) pc[j] = j;
    unsigned char *nb = calloc((size_t)m * (size_t)n + 1, 1);
    for (int j = 0; j < n; j++) for (int i = 0; i < m; i++) if (BP(B, i, j)) nb[(size_t)pc[j] * (size_t)m + (size_t)pr[i]] = 1;
    free(B->b); B->b = nb; free(pr); free(pc);
}
/* CSC from a boolean pattern; values are irrelevant for the routines under test but must exist */
static void bp_to_mat(vf_rng *r, const vf_api *P, const bpat *B, int shuffle, double pzero, vf_mat *A)
{
    int m = B->m, n = B->n; int_t nnz = 0;
    for (size_t k = 0; k < (size_t)m * (size_t)n; k++) nnz += B->b[k];
    A->m = m; A->n = n; A->nnz = nnz;
    A->colptr = malloc(sizeof(int_t) * (size_t)(n + 1)); A->rowind = malloc(sizeof(int_t) * (size_t)(nnz + 1)); A->v = malloc(sizeof(ldc) * (size_t)(nnz + 1));
    int *tmp = malloc(sizeof(int) * (size_t)(m + 1)); int_t q = 0;
    for (int j = 0; j < n; j++) {
        A->colptr[j] = q; int cnt = 0;
        for (int i = 0; i < m; i++) if (BP(B, i, j)) tmp[cnt++] = i;
        if (shuffle) for (int a = cnt - 1; a > 0; a--) { int b = rng_int(r, 0, a); int t = tmp[a]; tmp[a] = tmp[b]; tmp[b] = t; }
        for (int a = 0; a < cnt; a++) {
            ld re = (ld)(2.0 * rng_unif(r) - 1.0), im = P->cplx ? (ld)(2.0 * rng_unif(r) - 1.0) : 0;
            if (re == 0) re = 0.5L;
            if (rng_bool(r, pzero)) re = im = 0;
            A->rowind[q] = tmp[a]; A->v[q] = P->round(re + im * I); q++;
        }
    }
    A->colptr[n] = q; free(tmp);
}
/* same index arrays, fresh values (possibly explicit zeros), exactly representable in precision P2 */
static void mat_twin(vf_rng *r, const vf_api *P2, const vf_mat *A, double pzero, vf_mat *T)
{
    mat_copy(T, A);
    for (int_t q = 0; q < T->nnz; q++) {
        ld re = (ld)(200.0 * rng_unif(r) - 100.0), im = P2->cplx ? (ld)(2.0 * rng_unif(r) - 1.0) : 0;
        if (rng_bool(r, pzero)) re = im = 0;
        T->v[q] = P2->round(re + im * I);
    }
}

static int size_pick(vf_rng *r, int nmax)
{
    double u = rng_unif(r);
    if (u < 0.10) return rng_int(r, 1, 4 < nmax ? 4 : nmax);
    if (u < 0.75) return rng_int(r, 1, (1 + nmax) / 2);
    return rng_int(r, 1, nmax);
}

static const char *c10_cls[] = { "lib", "edges", "forest", "empty" };
static const char *c10_meth[] = { "NATURAL", "MMD_ATA", "MMD_AT_PLUS_A", "COLAMD", "MY_PERMC" };
static const char *c10_fact[] = { "DOFACT", "SamePattern", "SamePattern_SameRowPerm", "FACTORED" };

/* AC = A*Pc as a column view: column perm[j] of AC must list exactly column j of A (indices and value bytes) */
static int ac_check(const vf_api *P, const SuperMatrix *SA, const SuperMatrix *AC, const int *perm, char *why, size_t wl)
{
    const NCformat *As = SA->Store; const NCPformat *Cs = AC->Store; int n = (int)SA->ncol;
    if (AC->Stype != SLU_NCP || AC->Dtype != SA->Dtype || AC->Mtype != SA->Mtype || AC->nrow != SA->nrow || AC->ncol != SA->ncol) {
        snprintf(why, wl, "header: Stype=%d Dtype=%d Mtype=%d dims %dx%d (A: Dtype=%d Mtype=%d %dx%d)", (int)AC->Stype, (int)AC->Dtype, (int)AC->Mtype,
                 (int)AC->nrow, (int)AC->ncol, (int)SA->Dtype, (int)SA->Mtype, (int)SA->nrow, (int)SA->ncol); return 1; }
    if (!Cs || !Cs->colbeg || !Cs->colend || !Cs->rowind || !Cs->nzval) { snprintf(why, wl, "null store array"); return 1; }
    if (Cs->nnz != As->nnz) { snprintf(why, wl, "nnz=%lld, A has %lld", (long long)Cs->nnz, (long long)As->nnz); return 1; }
    /* the view's index/value arrays: the library aliases A's; if it ever copied them we could not bound a read, so require the alias
       before dereferencing (a copy would also be leaked by Destroy_CompCol_Permuted) */
    if (Cs->rowind != As->rowind || Cs->nzval != As->nzval) { snprintf(why, wl, "rowind/nzval do not alias A's arrays"); return 1; }
    int_t nnz = As->colptr[n];
    for (int j = 0; j < n; j++) {
        int p = perm[j]; int_t b = Cs->colbeg[p], e = Cs->colend[p];
        if (b < 0 || e < b || e > nnz) { snprintf(why, wl, "column %d of AC (= column %d of A): range [%lld,%lld) outside [0,%lld]", p, j, (long long)b, (long long)e, (long long)nnz); return 1; }
        int_t len = As->colptr[j + 1] - As->colptr[j];
        if (e - b != len) { snprintf(why, wl, "column %d of AC has %lld entries, column %d of A has %lld", p, (long long)(e - b), j, (long long)len); return 1; }
        for (int_t k = 0; k < len; k++) {
            if (Cs->rowind[b + k] != As->rowind[As->colptr[j] + k]) { snprintf(why, wl, "column %d of AC, entry %lld: row %lld, column %d of A has row %lld", p, (long long)k, (long long)Cs->rowind[b + k], j, (long long)As->rowind[As->colptr[j] + k]); return 1; }
            if (memcmp((const char *)Cs->nzval + P->ssz * (size_t)(b + k), (const char *)As->nzval + P->ssz * (size_t)(As->colptr[j] + k), P->ssz)) { snprintf(why, wl, "column %d of AC, entry %lld: value differs from column %d of A", p, (long long)k, j); return 1; }
        }
    }
    return 0;
}

static void perm_str(const int *p, int n, char *buf, size_t bl)
{
    size_t l = 0; buf[0] = 0;
    for (int i = 0; i < n && l + 12 < bl; i++) l += (size_t)snprintf(buf + l, bl - l, "%s%d", i ? " " : "", p[i]);
}
static void log_perm(vf_case *c, const char *name, const int *p, int n)
{
    if (!c->verbose) return; char *b = malloc((size_t)n * 12 + 16); perm_str(p, n, b, (size_t)n * 12 + 16); vf_log(c, "%s = [%s]", name, b); free(b);
}
static int first_diff(const int *a, const int *b, int n) { for (int i = 0; i < n; i++) if (a[i] != b[i]) return i; return -1; }

static void c10_run(vf_case *c)
{
    const vf_api *P = c->P; vf_rng *r = &c->rng;
    /* ------------------------------------------------------------ workload */
    int big = rng_bool(r, c->tier ? 0.05 : 0.04);          /* reach COLAMD's dense row (n > 100) / dense column (tall) handling */
    int want_square = rng_bool(r, 0.45);
    int cls; { double u = rng_unif(r); cls = u < 0.62 ? 0 : u < 0.80 ? 1 : u < 0.97 ? 2 : 3; }
    bpat B; char gdesc[200] = "";
    if (cls == 0) {
        gen_spec g; gen_spec_random(r, P, &g, 1, 80, want_square);
        if (want_square) g.m = g.n;
        vf_mat G; gen_matrix(r, P, &g, &G); bp_from_mat(&B, &G); mat_free(&G);
        snprintf(gdesc, sizeof gdesc, "%s dens=%d", pat_names[g.pattern], g.density);
    } else {
        int n = size_pick(r, 80), m;
        if (cls == 1) {          /* incidence rows: A'A is an arbitrary sparse graph */
            m = want_square ? n : rng_int(r, 1, 2 * n > 120 ? 120 : 2 * n);
            bp_alloc(&B, m, n);
            for (int i = 0; i < m; i++) { double u = rng_unif(r); int k = u < 0.1 ? 1 : u < 0.9 ? 2 : 3; for (int t = 0; t < k; t++) BP(&B, i, rng_int(r, 0, n - 1)) = 1; }
            snprintf(gdesc, sizeof gdesc, "incidence rows");
        } else if (cls == 2) {   /* A'A is a random recursive forest with many roots, then relabelled */
            double q = 0.6 + 0.38 * rng_unif(r); int span = rng_bool(r, 0.5) ? n : rng_int(r, 1, 6);
            int extra = rng_int(r, 0, 3); m = want_square ? n : n + extra;
            bp_alloc(&B, m, n); int row = 0;
            for (int j = 1; j < n && row < m; j++) if (rng_bool(r, q)) { int lo = j - span < 0 ? 0 : j - span; BP(&B, row, j) = 1; BP(&B, row, rng_int(r, lo, j - 1)) = 1; row++; }
            for (int j = 0; j < n && row < m; j++) if (rng_bool(r, 0.3)) { BP(&B, row, j) = 1; row++; }   /* singleton rows */
            snprintf(gdesc, sizeof gdesc, "forest q=%.2f span=%d", q, span);
        } else {
            m = want_square ? n : size_pick(r, 80);
            bp_alloc(&B, m, n); snprintf(gdesc, sizeof gdesc, "all-empty");
        }
    }
    if (big) {       /* enlarge: embed into a bigger pattern with dense rows / columns */
        int tall = rng_bool(r, 0.5);
        int n2 = tall ? rng_int(r, 20, 60) : rng_int(r, 101, 150), m2 = want_square ? n2 : tall ? rng_int(r, 100, 200) : rng_int(r, 40, 160);
        if (want_square && tall) { n2 = m2 = rng_int(r, 101, 150); }
        bpat C; bp_alloc(&C, m2, n2);
        for (int j = 0; j < n2; j++) { int k = rng_int(r, 1, 3); for (int t = 0; t < k; t++) BP(&C, rng_int(r, 0, m2 - 1), j) = 1; }
        for (int j = 0; j < B.n && j < n2; j++) for (int i = 0; i < B.m && i < m2; i++) if (BP(&B, i, j)) BP(&C, i, j) = 1;
        bp_free(&B); B = C;
    }
    int m = B.m, n = B.n; char xf[120] = ""; size_t xl = 0;
#define XF(s) do { if (xl + strlen(s) + 2 < sizeof xf) { strcpy(xf + xl, s); xl += strlen(s); } } while (0)
    if (rng_bool(r, big ? 0.8 : 0.15)) { int k = rng_int(r, 1, 2); for (int t = 0; t < k; t++) { int i = rng_int(r, 0, m - 1); double f = rng_bool(r, 0.5) ? 1.0 : 0.9; for (int j = 0; j < n; j++) if (rng_bool(r, f)) BP(&B, i, j) = 1; } XF("+denserow"); }
    if (rng_bool(r, big ? 0.5 : 0.10)) { int k = rng_int(r, 1, 2); for (int t = 0; t < k; t++) { int j = rng_int(r, 0, n - 1); double f = rng_bool(r, 0.5) ? 1.0 : 0.9; for (int i = 0; i < m; i++) if (rng_bool(r, f)) BP(&B, i, j) = 1; } XF("+densecol"); }
    if (rng_bool(r, 0.10) && m > 1) { int k = rng_int(r, 1, 3); for (int t = 0; t < k; t++) { int a = rng_int(r, 0, m - 1), b = rng_int(r, 0, m - 1); for (int j = 0; j < n; j++) BP(&B, b, j) = BP(&B, a, j); } XF("+duprows"); }
    if (rng_bool(r, 0.25)) { int k = rng_int(r, 1, 1 + n / 4); for (int t = 0; t < k; t++) { int j = rng_int(r, 0, n - 1); for (int i = 0; i < m; i++) BP(&B, i, j) = 0; } XF("+emptycols"); }
    if (rng_bool(r, 0.25)) { int k = rng_int(r, 1, 1 + m / 4); for (int t = 0; t < k; t++) { int i = rng_int(r, 0, m - 1); for (int j = 0; j < n; j++) BP(&B, i, j) = 0; } XF("+emptyrows"); }
    { double u = rng_unif(r); if (u < 0.35) { bp_scramble(r, &B, 1, 1); XF("+scramble"); } else if (u < 0.5) { bp_scramble(r, &B, 0, 1); XF("+colscramble"); } }
#undef XF
    int shuffle = rng_bool(r, 0.3);
    vf_mat A; bp_to_mat(r, P, &B, shuffle, rng_bool(r, 0.15) ? 0.2 : 0.0, &A);
    /* pattern statistics for the evidence */
    int ecols = 0, erows = 0, maxrow = 0, maxcol = 0;
    { int *rc = calloc((size_t)m + 1, sizeof(int));
      for (int j = 0; j < n; j++) { int cnt = (int)(A.colptr[j + 1] - A.colptr[j]); if (!cnt) ecols++; if (cnt > maxcol) maxcol = cnt; for (int_t q = A.colptr[j]; q < A.colptr[j + 1]; q++) rc[A.rowind[q]]++; }
      for (int i = 0; i < m; i++) { if (!rc[i]) erows++; if (rc[i] > maxrow) maxrow = rc[i]; }
      free(rc); }
    bp_free(&B);
    /* COLAMD's documented dense thresholds (colamd.c: max(16, 10*sqrt(.))): only to record that the branch was reachable */
    int cd_row = (int)fmax(16.0, 10.0 * sqrt((double)n)), cd_col = (int)fmax(16.0, 10.0 * sqrt((double)(m < n ? m : n)));
    int colamd_denserow = maxrow > cd_row, colamd_densecol = maxcol > cd_col;

    int method; { int allowed[5] = { 0, 1, 3, 4, 2 }; method = allowed[rng_int(r, 0, m == n ? 4 : 3)]; }
    int sym = rng_bool(r, 0.3);
    int refact = rng_int(r, 1, 3), refact_reuse = rng_bool(r, 0.5);
    int permkind = rng_int(r, 0, 9);     /* MY_PERMC: 0 identity, 1 reverse, else random */
    const vf_api *P2 = &vf_apis[rng_int(r, 0, 3)];
    int junk1 = rng_int(r, 0, 256), junk2 = (junk1 + 1 + rng_int(r, 0, 254)) % 257;

    vf_desc(c, "%dx%d nnz=%lld class=%s(%s)%s%s%s; method=%s sym=%d refact=%s(%s) twin=%c", m, n, (long long)A.nnz, c10_cls[cls], gdesc, big ? "+big" : "", xf,
            shuffle ? "+unsorted" : "", c10_meth[method], sym, c10_fact[refact], refact_reuse ? "reuse" : "fresh", P2->letter);
    vf_tag(c, "method=%s", c10_meth[method]); vf_tag(c, "sym=%d", sym); vf_tag(c, "class=%s", c10_cls[cls]);
    vf_tag(c, "shape=%s", m == n ? "square" : m > n ? "tall" : "wide"); vf_tag(c, "emptycols=%d", ecols > 0); vf_tag(c, "emptyrows=%d", erows > 0);
    vf_tag(c, "colamd_denserow=%d", colamd_denserow); vf_tag(c, "colamd_densecol=%d", colamd_densecol); vf_tag(c, "refact=%s", c10_fact[refact]);
    vf_tag(c, "n=%s", n <= 2 ? "1-2" : n <= 10 ? "3-10" : n <= 40 ? "11-40" : n <= 80 ? "41-80" : "81+");
    if (method == 3 && colamd_denserow) vf_tag(c, "COLAMD+denserow"); if (method == 3 && colamd_densecol) vf_tag(c, "COLAMD+densecol");
    if (c->verbose) for (int j = 0; j < n; j++) { char b[2000]; size_t l = 0; b[0] = 0; for (int_t q = A.colptr[j]; q < A.colptr[j + 1] && l + 12 < sizeof b; q++) l += (size_t)snprintf(b + l, sizeof b - l, " %d", (int)A.rowind[q]); vf_log(c, "col %d:%s", j, b); }

    /* ------------------------------------------------------------ library objects */
    vf_mat A2; mat_twin(r, P2, &A, rng_bool(r, 0.1) ? 1.0 : 0.25, &A2);
    SuperMatrix SA, SA2, AC, AC2, AC3; memset(&AC, 0, sizeof AC); memset(&AC2, 0, sizeof AC2); memset(&AC3, 0, sizeof AC3);
    mk_sparse(P, &A, 0, &SA); mk_sparse(P2, &A2, 0, &SA2);
    vf_snap a_idx, a_val; snap_sparse(P, &SA, &a_idx, &a_val);
    size_t ib = sizeof(int) * (size_t)n;    /* exact sizes: ASan sees any write past n entries */
    int *pc_in = malloc(ib), *pc_out = malloc(ib), *etree = malloc(ib), *pc2 = malloc(ib), *et2 = malloc(ib), *pc3 = malloc(ib), *et3 = malloc(ib);
    int *Tin = malloc(ib), *Tout = malloc(ib), *post = malloc(ib + sizeof(int)), *Trel = malloc(ib);
    for (int i = 0; i < n; i++) pc_in[i] = pc_out[i] = etree[i] = pc2[i] = et2[i] = -7777;
    int have_ac = 0, have_ac2 = 0, have_ac3 = 0;
    char why[300];

    /* ------------------------------------------------------------ ordering */
    vf_set_junk(junk1);
    if (method < 4) get_perm_c(method, &SA, pc_in);
    else if (permkind == 0) for (int i = 0; i < n; i++) pc_in[i] = i;
    else if (permkind == 1) for (int i = 0; i < n; i++) pc_in[i] = n - 1 - i;
    else rng_perm(r, pc_in, n);
    log_perm(c, "perm_c(in)", pc_in, n);
    if (!is_perm(pc_in, n)) { char b[400]; perm_str(pc_in, n, b, sizeof b); vf_viol(c, "perm_c-not-bijection", "get_perm_c(%s) on a %dx%d pattern returned [%s], not a permutation of 0..%d", c10_meth[method], m, n, b, n - 1); goto done; }
    if (method < 4) {
        vf_set_junk(junk2);
        get_perm_c(method, &SA2, pc2);
        int d = first_diff(pc_in, pc2, n);
        if (d >= 0) { vf_viol(c, "perm_c-not-function-of-pattern", "get_perm_c(%s): same index arrays, different values/Dtype/heap junk: perm_c[%d] = %d vs %d", c10_meth[method], d, pc_in[d], pc2[d]); goto done; }
    }
    {   vf_snap i2, v2; snap_sparse(P, &SA, &i2, &v2); int same = snap_same(&a_idx, &i2) && snap_same(&a_val, &v2); snap_free(&i2); snap_free(&v2);
        if (!same) { vf_viol(c, "A-modified", "get_perm_c(%s) changed the arrays of its input matrix", c10_meth[method]); goto done; } }

    /* ------------------------------------------------------------ sp_preorder, first factorization */
    superlu_options_t opt; set_default_options(&opt);
    opt.Fact = DOFACT; opt.SymmetricMode = sym ? YES : NO; opt.ColPerm = method == 4 ? MY_PERMC : (colperm_t)method; opt.PrintStat = NO;
    memcpy(pc_out, pc_in, ib);
    vf_set_junk(junk1);
    sp_preorder(&opt, &SA, pc_out, etree, &AC); have_ac = 1;
    log_perm(c, "perm_c(out)", pc_out, n); log_perm(c, "etree", etree, n);
    if (!is_perm(pc_out, n)) { char b[400]; perm_str(pc_out, n, b, sizeof b); vf_viol(c, "perm_c-out-not-bijection", "sp_preorder (%s, sym=%d) left perm_c = [%s]", c10_meth[method], sym, b); goto done; }
    coletree_def(&A, pc_in, Tin); coletree_def(&A, pc_out, Tout);
    log_perm(c, "tree of A*Pc_in (definition)", Tin, n); log_perm(c, "tree of A*Pc_out (definition)", Tout, n);
    for (int j = 0; j < n; j++) if (etree[j] <= j || etree[j] > n) { vf_viol(c, "etree-parent-not-greater", "etree[%d] = %d is not in (%d, %d] (%s, sym=%d)", j, etree[j], j, n, c10_meth[method], sym); goto done; }
    {   int d = first_diff(etree, Tout, n);
        if (d >= 0) { vf_viol(c, "etree-not-coletree", "etree[%d] = %d but the column elimination tree of A*Pc (by definition) has parent %d (%s, sym=%d, %dx%d)", d, etree[d], Tout[d], c10_meth[method], sym, m, n); goto done; } }
    if (!sym && !tree_is_postorder(etree, n)) { vf_viol(c, "etree-not-postordered", "SymmetricMode=NO but some subtree of the returned etree is not a contiguous index range (%s, %dx%d)", c10_meth[method], m, n); goto done; }
    /* the supplied ordering is respected up to post = Pc_out o Pc_in^-1, which must relabel the tree of A*Pc_in into the returned
       (postordered unless sym) tree, i.e. be a postorder of that tree */
    for (int i = 0; i < n; i++) post[pc_in[i]] = pc_out[i];
    post[n] = n;
    for (int j = 0; j < n; j++) Trel[post[j]] = post[Tin[j]];
    {   int d = first_diff(Trel, etree, n);
        if (d >= 0) { vf_viol(c, "post-not-tree-relabeling", "Pc_out o Pc_in^-1 does not map the elimination tree of A*Pc_in onto the returned etree: node %d gets parent %d, etree says %d (%s, sym=%d)", d, Trel[d], etree[d], c10_meth[method], sym); goto done; } }
    int moved = 0; for (int j = 0; j < n; j++) if (post[j] != j) moved++;
    if (ac_check(P, &SA, &AC, pc_out, why, sizeof why)) { vf_viol(c, "AC-columns", "AC after sp_preorder(DOFACT, %s, sym=%d): %s", c10_meth[method], sym, why); goto done; }
    {   vf_snap i2, v2; snap_sparse(P, &SA, &i2, &v2); int same = snap_same(&a_idx, &i2) && snap_same(&a_val, &v2); snap_free(&i2); snap_free(&v2);
        if (!same) { vf_viol(c, "A-modified", "sp_preorder changed the arrays of its input matrix"); goto done; } }

    /* ------------------------------------------------------------ metamorphic twin through sp_preorder */
    memcpy(pc2, pc_in, ib);
    vf_set_junk(junk2);
    sp_preorder(&opt, &SA2, pc2, et2, &AC2); have_ac2 = 1;
    {   int d = first_diff(pc2, pc_out, n), e = first_diff(et2, etree, n);
        if (d >= 0 || e >= 0) { vf_viol(c, "preorder-not-function-of-pattern", "sp_preorder on the same index arrays with other values/Dtype/heap junk: %s[%d] = %d vs %d", d >= 0 ? "perm_c" : "etree", d >= 0 ? d : e, d >= 0 ? pc2[d] : et2[e], d >= 0 ? pc_out[d] : etree[e]); goto done; } }
    if (ac_check(P2, &SA2, &AC2, pc2, why, sizeof why)) { vf_viol(c, "AC-columns", "AC of the twin (Dtype %c): %s", P2->letter, why); goto done; }

    /* ------------------------------------------------------------ refactorization: perm_c and etree are inputs only */
    if (refact_reuse) { memcpy(pc3, pc_out, ib); memcpy(et3, etree, ib); }
    else { rng_perm(r, pc3, n); for (int i = 0; i < n; i++) et3[i] = -4242 - i; }
    {   int *pc3s = malloc(ib), *et3s = malloc(ib); memcpy(pc3s, pc3, ib); memcpy(et3s, et3, ib);
        opt.Fact = (fact_t)refact;
        vf_set_junk(junk1);
        sp_preorder(&opt, &SA, pc3, et3, &AC3); have_ac3 = 1;
        int d = first_diff(pc3, pc3s, n), e = first_diff(et3, et3s, n);
        if (d >= 0) vf_viol(c, "refact-perm_c-changed", "sp_preorder with Fact=%s changed perm_c[%d] from %d to %d", c10_fact[refact], d, pc3s[d], pc3[d]);
        else if (e >= 0) vf_viol(c, "refact-etree-changed", "sp_preorder with Fact=%s changed etree[%d] from %d to %d", c10_fact[refact], e, et3s[e], et3[e]);
        else if (ac_check(P, &SA, &AC3, pc3s, why, sizeof why)) vf_viol(c, "refact-AC-columns", "AC after sp_preorder(Fact=%s): %s", c10_fact[refact], why);
        free(pc3s); free(et3s);
        if (c->verdict == 1) goto done; }

    /* ------------------------------------------------------------ bookkeeping */
    {   int roots = 0, edges = 0; for (int j = 0; j < n; j++) { if (etree[j] == n) roots++; else edges++; }
        int chain = 1; for (int j = 0; j + 1 < n; j++) if (etree[j] != j + 1) chain = 0;
        vf_tag(c, "post=%s", sym ? "suppressed" : moved ? "moved" : "identity"); vf_tag(c, "roots=%s", roots == 1 ? "1" : roots <= 3 ? "2-3" : roots <= 10 ? "4-10" : "11+");
        vf_tag(c, "tree=%s", edges == 0 ? "noedges" : chain ? "chain" : "branching");
        if (method == 4) vf_tag(c, "MY_PERMC+post=%s", sym ? "suppressed" : moved ? "moved" : "identity");
        c->counters[0] += moved > 0; c->counters[1] = n; c->counters[2] += edges; c->counters[3] = roots; c->counters[4] += colamd_denserow && method == 3; c->counters[5] += colamd_densecol && method == 3;
        c->counters[6] += moved;
        c->nontrivial = n >= 3 && edges >= 1;
        vf_sig_u64(c, mat_pattern_hash(&A)); vf_sig_u64(c, (uint64_t)method * 16 + (uint64_t)sym * 8 + (uint64_t)refact); vf_sig(c, pc_in, ib); }

done:
    vf_set_junk(junk1);
    if (have_ac) Destroy_CompCol_Permuted(&AC);
    if (have_ac2) Destroy_CompCol_Permuted(&AC2);
    if (have_ac3) Destroy_CompCol_Permuted(&AC3);
    free_sparse(&SA); free_sparse(&SA2);
    free(pc_in); free(pc_out); free(etree); free(pc2); free(et2); free(pc3); free(et3); free(Tin); free(Tout); free(post); free(Trel);
    snap_free(&a_idx); snap_free(&a_val); mat_free(&A); mat_free(&A2);
    vf_check_ledger(c, "after get_perm_c / sp_preorder / Destroy_CompCol_Permuted");
}

VF_REGISTER("C10", c10_run)
