/* C04 - exact singularity is reported, never silently solved. */
#include "fact.h"

/* ---- generators of exactly singular / exactly nonsingular matrices -------------------------------- */
enum { K_EMPTY_COL, K_EMPTY_ROW, K_HALL, K_DUP_ROW, K_DUP_COL, K_NONSING, K__N };
static const char *kind_names[] = { "empty-col", "empty-row", "hall", "dup-row", "dup-col", "nonsingular" };

static ldc pow2val(vf_rng *r, const vf_api *P)
{
    ld re = ldexpl(rng_bool(r, 0.5) ? 1.0L : -1.0L, rng_int(r, -2, 2)), im = 0;
    if (P->cplx && rng_bool(r, 0.5)) im = ldexpl(rng_bool(r, 0.5) ? 1.0L : -1.0L, rng_int(r, -2, 2));
    if (P->cplx && rng_bool(r, 0.15)) { im = re; re = 0; }
    return re + im * I;
}
static ldc intval(vf_rng *r, const vf_api *P)
{
    ld re, im = 0; do { re = rng_int(r, -3, 3); im = P->cplx ? rng_int(r, -2, 2) : 0; } while (re == 0 && im == 0);
    return re + im * I;
}

/* dense n x n builder, then compressed */
static void build(vf_rng *r, const vf_api *P, int n, int kind, int valclass, int *ndef, vf_mat *A, char *note, size_t nl)
{
    ldc *D = calloc((size_t)n * n, sizeof(ldc)); unsigned char *S = calloc((size_t)n * n, 1);
#define SET(i, j) do { S[(size_t)(j) * n + (i)] = 1; D[(size_t)(j) * n + (i)] = valclass ? intval(r, P) : pow2val(r, P); } while (0)
    /* base: a structurally nonsingular pattern (random permuted diagonal + random extra entries) */
    int *pr = malloc(sizeof(int) * (size_t)n); rng_perm(r, pr, n);
    int tri = kind == K_NONSING;     /* exactly nonsingular: permuted triangular, det = product of diagonal */
    int *pc = malloc(sizeof(int) * (size_t)n); rng_perm(r, pc, n);
    for (int j = 0; j < n; j++) { SET(pr[j], pc[j]); }
    int extra = rng_int(r, 0, 3 * n);
    for (int t = 0; t < extra; t++) { int a = rng_int(r, 0, n - 1), b = rng_int(r, 0, n - 1); if (tri && a < b) { int q = a; a = b; b = q; } if (a != b || !tri) { if (!S[(size_t)pc[b] * n + pr[a]]) SET(pr[a], pc[b]); } }
    *ndef = 0; note[0] = 0;
    int k = n >= 3 ? rng_int(r, 1, n >= 6 ? 3 : 1) : 1;       /* number of deficiencies */
    if (kind == K_EMPTY_COL || kind == K_EMPTY_ROW) {
        for (int t = 0; t < k; t++) { int x = rng_bool(r, 0.3) ? (rng_bool(r, 0.5) ? 0 : n - 1) : rng_int(r, 0, n - 1);
            for (int i = 0; i < n; i++) { if (kind == K_EMPTY_COL) { S[(size_t)x * n + i] = 0; D[(size_t)x * n + i] = 0; } else { S[(size_t)i * n + x] = 0; D[(size_t)i * n + x] = 0; } } }
        *ndef = k; snprintf(note, nl, "%d empty %s", k, kind == K_EMPTY_COL ? "column(s)" : "row(s)");
    } else if (kind == K_HALL && n >= 3) {
        /* q columns confined to q-1 rows, no empty line */
        int q = rng_int(r, 2, n < 5 ? n - 1 : 4); int *cols = malloc(sizeof(int) * (size_t)n), *rows = malloc(sizeof(int) * (size_t)n); rng_perm(r, cols, n); rng_perm(r, rows, n);
        for (int a = 0; a < q; a++) { for (int i = 0; i < n; i++) { S[(size_t)cols[a] * n + i] = 0; D[(size_t)cols[a] * n + i] = 0; }
            int cnt = 0; for (int b = 0; b < q - 1; b++) if (rng_bool(r, 0.7) || b == a % (q - 1)) { SET(rows[b], cols[a]); cnt++; } (void)cnt; }
        free(cols); free(rows); *ndef = 1; snprintf(note, nl, "%d columns confined to %d rows", q, q - 1);
    } else if (kind == K_DUP_ROW || kind == K_DUP_COL) {
        if (n < 2) { for (int i = 0; i < n; i++) { S[i] = 0; D[i] = 0; } *ndef = 1; snprintf(note, nl, "1x1 zero"); }
        else for (int t = 0; t < k; t++) {
            int a = rng_int(r, 0, n - 1), b; do b = rng_int(r, 0, n - 1); while (b == a);
            ld f = ldexpl(rng_bool(r, 0.5) ? 1.0L : -1.0L, rng_int(r, -1, 1));   /* exact scaling by +-2^k */
            for (int i = 0; i < n; i++) {
                if (kind == K_DUP_ROW) { S[(size_t)i * n + b] = S[(size_t)i * n + a]; D[(size_t)i * n + b] = D[(size_t)i * n + a] * f; }
                else { S[(size_t)b * n + i] = S[(size_t)a * n + i]; D[(size_t)b * n + i] = D[(size_t)a * n + i] * f; }
            }
            *ndef = k; snprintf(note, nl, "%d %s pair(s) proportional (factor +-2^k)", k, kind == K_DUP_ROW ? "row" : "column");
        }
    } else { snprintf(note, nl, "permuted triangular, nonzero diagonal"); }
#undef SET
    int_t nnz = 0; for (size_t q = 0; q < (size_t)n * n; q++) nnz += S[q];
    A->m = A->n = n; A->nnz = nnz; A->colptr = malloc(sizeof(int_t) * (size_t)(n + 1)); A->rowind = malloc(sizeof(int_t) * (size_t)(nnz + 1)); A->v = malloc(sizeof(ldc) * (size_t)(nnz + 1));
    int_t q = 0; for (int j = 0; j < n; j++) { A->colptr[j] = q; for (int i = 0; i < n; i++) if (S[(size_t)j * n + i]) { A->rowind[q] = i; A->v[q] = P->round(D[(size_t)j * n + i]); q++; } } A->colptr[n] = q;
    free(D); free(S); free(pr); free(pc);
}

static int has_empty_line(const vf_mat *A)
{
    unsigned char *rows = calloc((size_t)A->m + 1, 1); int e = 0;
    for (int j = 0; j < A->n; j++) { if (A->colptr[j + 1] == A->colptr[j]) e = 1; for (int_t q = A->colptr[j]; q < A->colptr[j + 1]; q++) rows[A->rowind[q]] = 1; }
    for (int i = 0; i < A->m; i++) if (!rows[i]) e = 1;
    free(rows); return e;
}

static void c04_run(vf_case *c)
{
    const vf_api *P = c->P; vf_rng *r = &c->rng; char note[120], buf[300];
    int kind = rng_int(r, 0, K__N - 1); if (kind == K_NONSING && rng_bool(r, 0.3)) kind = rng_int(r, 0, K__N - 2);
    int valclass = rng_bool(r, 0.35);            /* 0: +-2^k, 1: small integers */
    int n = rng_bool(r, 0.15) ? rng_int(r, 1, 3) : rng_int(r, 2, rng_bool(r, 0.8) ? 14 : 40);
    if (kind == K_HALL && n < 3) kind = K_EMPTY_COL;
    int ndef; vf_mat A; build(r, P, n, kind, valclass, &ndef, &A, note, sizeof note);
    int route = rng_int(r, 0, 11);              /* 0-4 gstrf (exactness witness), 5-6 gssv, 7-9 gssvx, 10-11 gssvx refactorization with remembered pivots */
    const char *rn = route <= 4 ? "gstrf" : route <= 6 ? "gssv" : route <= 9 ? "gssvx" : "gssvx-refactor";
    run_opts o; gen_run_opts(r, &o, route >= 5);
    static const double us[] = { 1.0, 1.0, 0.5, 0.25, 0.1, 1e-3, 0.0 }; o.opt.DiagPivotThresh = us[rng_int(r, 0, route >= 10 ? 6 : 5)];   /* 1, .5, .25 keep the threshold product exact; 0 is legal (documented range [0,1]) */
    gen_tuning(r, rng_bool(r, 0.85));
    int sr = sprank(&A); int immune = has_empty_line(&A); int structsing = sr < n;
    vf_desc(c, "route=%s %dx%d %s/%s (%s) sprank=%d; ", rn, n, n, kind_names[kind], valclass ? "smallint" : "pow2", note, sr);
    run_opts_str(&o, buf, sizeof buf); vf_desc(c, "%s; ", buf); tuning_str(buf, sizeof buf); vf_desc(c, "%s", buf);
    vf_tag(c, "prec=%c", P->letter); vf_tag(c, "route=%s", rn); vf_tag(c, "kind=%s", kind_names[kind]); vf_tag(c, "colperm=%s", colperm_names[o.opt.ColPerm]);
    vf_sig_u64(c, mat_pattern_hash(&A)); vf_sig_u64(c, (uint64_t)route * 64 + (uint64_t)o.opt.ColPerm * 4 + (uint64_t)o.rowmajor);
    superlu_options_t opt; set_default_options(&opt);
    opt.ColPerm = o.opt.ColPerm; opt.DiagPivotThresh = o.opt.DiagPivotThresh; opt.SymmetricMode = o.opt.SymmetricMode; opt.PrintStat = NO;
    int *mypc = malloc(sizeof(int) * (size_t)(n + 1)); rng_perm(r, mypc, n);
    /* expected verdict by construction */
    int exactly_singular = kind != K_NONSING;    /* by construction; kind NONSING is exactly nonsingular (triangular) */
    int_t info = -999; int exact_run = 0;
    if (route <= 4) {
        fact_run R; fact_do(P, &A, &opt, mypc, NULL, 0, 0, &R); info = R.info; exact_run = !R.fp_inexact;
        if (info > 0 && info <= n) judge_singular(c, P, &A, R.perm_r, R.perm_c, &R.L, &R.U, info, rn);
        else if (info == 0) { ldc *Ld = malloc(sizeof(ldc) * (size_t)n * n), *Ud = malloc(sizeof(ldc) * (size_t)n * n); char why[200];
            if (!structure_ok(P, &R.L, &R.U, n, n, 0, why, sizeof why)) { expand_LU(P, &R.L, &R.U, n, n, Ld, Ud); if (check_udiag(P, Ud, n, why, sizeof why)) vf_viol(c, "success-with-zero-pivot", "%s: %s", rn, why); }
            free(Ld); free(Ud); }
        fact_free(&R);
    } else if (route <= 6) {
        int nrhs = rng_int(r, 1, 3), ldb = n + o.ldpad;
        ldc *B0 = malloc(sizeof(ldc) * (size_t)n * nrhs); for (int k = 0; k < n * nrhs; k++) B0[k] = P->round((2 * rng_unif(r) - 1) + (P->cplx ? (2 * rng_unif(r) - 1) * I : 0));
        SuperMatrix SA, SB, L, U; memset(&L, 0, sizeof L); memset(&U, 0, sizeof U);
        mk_sparse(P, &A, o.rowmajor, &SA); mk_dense(P, n, nrhs, ldb, B0, &SB, 55.0L);
        vf_snap b0; snap_dense(P, &SB, &b0);
        int *pc = malloc(sizeof(int) * (size_t)(n + 1)), *pr = malloc(sizeof(int) * (size_t)(n + 1)); memcpy(pc, mypc, sizeof(int) * (size_t)n);
        SuperLUStat_t stat; StatInit(&stat);
        P->gssv(&opt, &SA, pc, pr, &L, &U, &SB, &stat, &info);
        if (info > 0 && info <= n) {
            vf_snap b1; snap_dense(P, &SB, &b1);
            if (!snap_same(&b0, &b1)) vf_viol(c, "B-modified-on-singular", "gssv: info=%lld but the right-hand side was modified", (long long)info);
            snap_free(&b1);
            if (stat.ops[SOLVE] != 0 || vf_alloc_count_matching("gstrs") > 0) vf_viol(c, "solve-attempted", "gssv: info=%lld but a triangular solve was performed (ops[SOLVE]=%g)", (long long)info, (double)stat.ops[SOLVE]);
            vf_mat AT; const vf_mat *F = &A; if (o.rowmajor) { mat_transpose(&AT, &A); F = &AT; }
            judge_singular(c, P, F, pr, pc, &L, &U, info, o.rowmajor ? "gssv/NR" : "gssv/NC");
            if (o.rowmajor) mat_free(&AT);
        }
        if (info >= 0 && info <= n) { Destroy_SuperNode_Matrix(&L); Destroy_CompCol_Matrix(&U); }
        StatFree(&stat); free_sparse(&SA); free_dense(&SB); free(pc); free(pr); free(B0); snap_free(&b0);
    } else if (route >= 10) {
        /* factor a companion matrix with the same pattern first, then refactor THIS matrix reusing ordering, row pivots and storage */
        int nrhs = rng_int(r, 1, 2);
        ldc *B0 = malloc(sizeof(ldc) * (size_t)n * nrhs); for (int k = 0; k < n * nrhs; k++) B0[k] = P->round((2 * rng_unif(r) - 1) + (P->cplx ? (2 * rng_unif(r) - 1) * I : 0));
        vf_mat A1; mat_copy(&A1, &A); for (int_t k = 0; k < A1.nnz; k++) A1.v[k] = P->round(valclass ? intval(r, P) : pow2val(r, P));
        xdrv D; xdrv_init(&D, P, &A1, o.rowmajor, nrhs, o.ldpad, 0, B0, 0);
        superlu_options_t xo = o.opt; xo.Fact = DOFACT; xo.PrintStat = NO; xo.Equil = NO; xo.IterRefine = NOREFINE;
        if (xo.ColPerm == MY_PERMC) memcpy(D.perm_c, mypc, sizeof(int) * (size_t)n);
        xdrv_call(&D, &xo);
        if (D.info == 0 || D.info == n + 1) {
            vf_tag(c, "refactor=done");
            NCformat *st = D.A.Store; vf_mat S; if (o.rowmajor) mat_transpose(&S, &A); else S = A;
            for (int_t k = 0; k < A.nnz; k++) P->set(st->nzval, (size_t)k, S.v[k]);     /* same pattern, this case's values (storage order of the object) */
            if (o.rowmajor) mat_free(&S);
            DNformat *bs = D.B.Store; for (int j = 0; j < nrhs; j++) for (int i = 0; i < n; i++) P->set(bs->nzval, (size_t)j * bs->lda + i, B0[(size_t)j * n + i]);
            vf_snap b0, x0; snap_dense(P, &D.B, &b0); snap_dense(P, &D.X, &x0);
            xo.Fact = SamePattern_SameRowPerm;
            xdrv_call(&D, &xo); info = D.info;
            vf_mat AT; const vf_mat *F = &A; if (o.rowmajor) { mat_transpose(&AT, &A); F = &AT; }
            if (info > 0 && info <= n) {
                vf_snap b1, x1; snap_dense(P, &D.B, &b1); snap_dense(P, &D.X, &x1);
                if (!snap_same(&b0, &b1)) vf_viol(c, "B-modified-on-singular", "gssvx refactorization: info=%lld (Equil=NO) but B was modified", (long long)info);
                if (!snap_same(&x0, &x1)) vf_viol(c, "solve-attempted", "gssvx refactorization: info=%lld but X was written", (long long)info);
                snap_free(&b1); snap_free(&x1);
                judge_singular(c, P, F, D.perm_r, D.perm_c, &D.L, &D.U, info, "gssvx/SameRowPerm");
            } else if (info == 0 || info == n + 1) {
                ldc *Ld = malloc(sizeof(ldc) * (size_t)n * n), *Ud = malloc(sizeof(ldc) * (size_t)n * n); char why[200];
                if (!structure_ok(P, &D.L, &D.U, n, n, 0, why, sizeof why)) { expand_LU(P, &D.L, &D.U, n, n, Ld, Ud); if (check_udiag(P, Ud, n, why, sizeof why)) vf_viol(c, "success-with-zero-pivot", "gssvx/SameRowPerm (u=%g): %s", xo.DiagPivotThresh, why); }
                free(Ld); free(Ud);
            }
            if (o.rowmajor) mat_free(&AT);
            snap_free(&b0); snap_free(&x0);
        } else { vf_tag(c, "refactor=companion-singular"); info = D.info > 0 && D.info <= n ? -12345 : D.info; }
        xdrv_free(&D); free(B0); mat_free(&A1);
    } else {
        int nrhs = rng_int(r, 1, 3);
        ldc *B0 = malloc(sizeof(ldc) * (size_t)n * nrhs); for (int k = 0; k < n * nrhs; k++) B0[k] = P->round((2 * rng_unif(r) - 1) + (P->cplx ? (2 * rng_unif(r) - 1) * I : 0));
        /* a share with equilibration really happening: rows and columns scaled by powers of two (singularity and exactness are
           unaffected), Equil = YES. The driver then factors diag(R) A diag(C), so only the 'right-hand side untouched, no solve'
           clauses are judged on a singular return (and the verdict below keeps to the rounding-immune inputs). */
        int eqv = rng_bool(r, 0.35); vf_mat A2; const vf_mat *Ause = &A;
        if (eqv) {
            mat_copy(&A2, &A); int *re = malloc(sizeof(int) * (size_t)n), *ce = malloc(sizeof(int) * (size_t)n);
            for (int i = 0; i < n; i++) { re[i] = rng_bool(r, 0.5) ? rng_int(r, -10, 10) : 0; ce[i] = rng_bool(r, 0.5) ? rng_int(r, -10, 10) : 0; }
            for (int j = 0; j < n; j++) for (int_t k = A2.colptr[j]; k < A2.colptr[j + 1]; k++) A2.v[k] = A2.v[k] * ldexpl(1.0L, re[A2.rowind[k]] + ce[j]);
            free(re); free(ce); Ause = &A2; vf_tag(c, "gssvx-equil=YES");
        }
        xdrv D; xdrv_init(&D, P, Ause, o.rowmajor, nrhs, o.ldpad, 0, B0, 0);
        superlu_options_t xo = o.opt; xo.Fact = DOFACT; xo.PrintStat = NO; xo.Equil = eqv ? YES : NO;
        if (xo.ColPerm == MY_PERMC) memcpy(D.perm_c, mypc, sizeof(int) * (size_t)n);
        vf_snap b0, x0; snap_dense(P, &D.B, &b0); snap_dense(P, &D.X, &x0);
        xdrv_call(&D, &xo); info = D.info;
        if (info > 0 && info <= n) {
            vf_snap b1, x1; snap_dense(P, &D.B, &b1); snap_dense(P, &D.X, &x1);
            if (!snap_same(&b0, &b1)) vf_viol(c, "B-modified-on-singular", "gssvx: info=%lld (Equil=%s, equed=%c) but B was modified", (long long)info, eqv ? "YES" : "NO", D.equed[0]);
            if (!snap_same(&x0, &x1) || D.stat.ops[SOLVE] != 0) vf_viol(c, "solve-attempted", "gssvx: info=%lld but X was written / a solve was performed", (long long)info);
            snap_free(&b1); snap_free(&x1);
            if (eqv) { vf_tag(c, "equil-singular-return/equed=%c", D.equed[0]); c->nontrivial = 1; }
            else {
                vf_mat AT; const vf_mat *F = &A; if (o.rowmajor) { mat_transpose(&AT, &A); F = &AT; }
                judge_singular(c, P, F, D.perm_r, D.perm_c, &D.L, &D.U, info, o.rowmajor ? "gssvx/NR" : "gssvx/NC");
                if (o.rowmajor) mat_free(&AT);
            }
        }
        snap_free(&b0); snap_free(&x0); xdrv_free(&D); free(B0); if (eqv) mat_free(&A2);
    }
    /* clauses (c)/(d): the verdict itself */
    int reported = info > 0 && info <= n;
    if (info == -12345) { vf_tag(c, "decided-by=none"); goto finish; }     /* the companion factorization was itself singular: nothing to refactor */
    if (info < 0 || info > n + 1) vf_viol(c, "info-unexpected", "%s returned info=%lld on a valid call", rn, (long long)info);
    const char *basis = "none";
    if (exactly_singular && immune) basis = "immune";           /* empty row/column: no rounding can create a candidate */
    else if (route <= 4 && exact_run) basis = "exact-run";      /* FE_INEXACT stayed clear: the computed elimination is the exact one */
    if (strcmp(basis, "none")) {
        if (exactly_singular && !reported) vf_viol(c, "singular-not-reported", "%s: exactly singular matrix (%s; basis %s) returned info=%lld", rn, note, basis, (long long)info);
        if (!exactly_singular && reported) vf_viol(c, "nonsingular-reported-singular", "%s: exactly nonsingular matrix (exact run) returned info=%lld", rn, (long long)info);
        c->nontrivial = 1;
    }
    if (structsing) vf_tag(c, "structsing");
    vf_tag(c, "decided-by=%s", basis); vf_tag(c, "info=%s", reported ? "singular" : info == 0 ? "0" : "other");
    if (reported) { c->counters[0]++; c->nontrivial = 1; } if (exact_run) c->counters[1]++;
    vf_sig_u64(c, (uint64_t)reported);
finish:
    free(mypc); mat_free(&A);
    vf_check_ledger(c, "after singular lifecycle");
}
VF_REGISTER("C04", c04_run)
