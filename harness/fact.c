#include "fact.h"
#include <fenv.h>

/* quiescent-point invariant of the caller-workspace stack: when a factorization has returned, its temporaries at the tail are released
   (top2 back at size) and the bytes accounted as used are exactly the head (every allocation adds to used and to one of the two ends) */
static void ws_accounting_check(const GlobalLU_t *Glu, int_t info, int n, const char *who)
{
    if (Glu->MemModel != USER || info < 0 || info > n + 1) return;
    if (Glu->stack.top2 != Glu->stack.size || Glu->stack.used != Glu->stack.top1)
        vf_sticky_storage_viol("workspace-accounting-broken", "%s returned info=%lld with the workspace stack in the state used=%lld top1=%lld top2=%lld size=%lld: after the work arrays are released used must equal the head and the tail must be empty (a later refactorization in this workspace starts from these numbers)",
                               who, (long long)info, (long long)Glu->stack.used, (long long)Glu->stack.top1, (long long)Glu->stack.top2, (long long)Glu->stack.size);
}
void fact_do(const vf_api *P, const vf_mat *A, const superlu_options_t *opt, const int *my_permc,
             void *work, int_t lwork, int ilu, fact_run *R)
{
    memset(R, 0, sizeof *R);
    R->m = A->m; R->n = A->n; R->opt = *opt;
    R->perm_c = malloc(sizeof(int) * (size_t)(A->n + 1)); R->perm_r = malloc(sizeof(int) * (size_t)(A->m + 1)); R->etree = malloc(sizeof(int) * (size_t)(A->n + 1));
    for (int i = 0; i < A->m; i++) R->perm_r[i] = -7777;
    for (int j = 0; j < A->n; j++) { R->perm_c[j] = -7777; R->etree[j] = -7777; }
    mk_sparse(P, A, 0, &R->A); R->have_A = 1;
    if (R->opt.ColPerm == MY_PERMC) memcpy(R->perm_c, my_permc, sizeof(int) * (size_t)A->n);
    else get_perm_c(R->opt.ColPerm, &R->A, R->perm_c);
    sp_preorder(&R->opt, &R->A, R->perm_c, R->etree, &R->AC); R->have_AC = 1;
    StatInit(&R->stat); R->stat_on = 1;
    R->info = -999; R->user_work = lwork > 0;
    long gw0 = vf_growth_ws(), gs0 = vf_growth_sys();
    feclearexcept(FE_ALL_EXCEPT);
    if (ilu) P->gsitrf(&R->opt, &R->AC, sp_ienv(2), sp_ienv(1), R->etree, work, lwork, R->perm_c, R->perm_r, &R->L, &R->U, &R->Glu, &R->stat, &R->info);
    else P->gstrf(&R->opt, &R->AC, sp_ienv(2), sp_ienv(1), R->etree, work, lwork, R->perm_c, R->perm_r, &R->L, &R->U, &R->Glu, &R->stat, &R->info);
    R->fp_inexact = fetestexcept(FE_INEXACT) != 0;
    int mn = A->m < A->n ? A->m : A->n;
    R->have_LU = (R->info >= 0 && R->info <= mn && lwork != -1);
    if (lwork > 0 && R->have_LU) ws_accounting_check(&R->Glu, R->info, mn, ilu ? "?gsitrf" : "?gstrf");
    /* the four initial requests of ?LUMemInit are not growths in flight */
    R->growths = lwork > 0 ? vf_growth_ws() - gw0 : lwork == 0 ? vf_growth_sys() - gs0 - 4 : -1;
    if (R->growths < 0 || !R->have_LU) R->growths = -1;
}
/* refactorization through the factor routine itself: same pattern, new values, Fact = SamePattern_SameRowPerm (ordering, row pivots and
   storage of the factorization held in R are reused; perm_r is an input). Documented for ?gstrf for square and tall matrices alike.
   Mode: SamePattern_SameRowPerm, or SamePattern (fresh pivots and storage, ordering reused). */
void fact_redo(const vf_api *P, const vf_mat *A2, fact_t mode, void *work, int_t lwork, fact_run *R)
{
    if (!R->have_LU) return;
    if (mode == SamePattern) {      /* fresh L/U: release the old pair first, as the drivers' callers do */
        if (R->user_work) { Destroy_SuperMatrix_Store(&R->L); Destroy_SuperMatrix_Store(&R->U); }
        else { Destroy_SuperNode_Matrix(&R->L); Destroy_CompCol_Matrix(&R->U); }
        R->have_LU = 0; for (int i = 0; i < R->m; i++) R->perm_r[i] = -7777;
    }
    Destroy_CompCol_Permuted(&R->AC); R->have_AC = 0;
    free_sparse(&R->A); mk_sparse(P, A2, 0, &R->A);
    R->opt.Fact = mode;
    sp_preorder(&R->opt, &R->A, R->perm_c, R->etree, &R->AC); R->have_AC = 1;
    R->info = -999;
    long gw0 = vf_growth_ws(), gs0 = vf_growth_sys();
    feclearexcept(FE_ALL_EXCEPT);
    P->gstrf(&R->opt, &R->AC, sp_ienv(2), sp_ienv(1), R->etree, work, lwork, R->perm_c, R->perm_r, &R->L, &R->U, &R->Glu, &R->stat, &R->info);
    R->fp_inexact = fetestexcept(FE_INEXACT) != 0;
    int mn = R->m < R->n ? R->m : R->n;
    R->have_LU = (R->info >= 0 && R->info <= mn);
    if (lwork > 0 && R->have_LU) ws_accounting_check(&R->Glu, R->info, mn, "?gstrf (refactorization)");
    long init = mode == SamePattern_SameRowPerm ? 0 : 4;     /* storage of the earlier factorization is reused: no initial requests */
    R->growths = lwork > 0 ? vf_growth_ws() - gw0 : vf_growth_sys() - gs0 - init;
    if (R->growths < 0 || !R->have_LU) R->growths = -1;
}
void fact_free(fact_run *R)
{
    if (R->have_LU) {
        if (R->user_work) { Destroy_SuperMatrix_Store(&R->L); Destroy_SuperMatrix_Store(&R->U); }
        else { Destroy_SuperNode_Matrix(&R->L); Destroy_CompCol_Matrix(&R->U); }
    }
    if (R->stat_on) StatFree(&R->stat);
    if (R->have_AC) Destroy_CompCol_Permuted(&R->AC);
    if (R->have_A) free_sparse(&R->A);
    free(R->perm_c); free(R->perm_r); free(R->etree);
    memset(R, 0, sizeof *R);
}

int check_multipliers(const vf_api *P, const ldc *Ld, int m, int n, double u, char *why, size_t wl, ld *worst)
{
    /* |l_ij| <= 1/u for real; for complex the library compares |re|+|im| so the modulus bound is sqrt(2)/u */
    ld lim = (P->cplx ? sqrtl(2.0L) : 1.0L) / (ld)u * (1 + 8 * P->eps); ld w = 0; int bad = 0;
    for (int j = 0; j < n && j < m; j++) for (int i = j + 1; i < m; i++) {
        ld a = cabsl(Ld[(size_t)j * m + i]);
        if (!(a <= w)) w = a;
        if (!(a <= lim) && !bad) { bad = 1; snprintf(why, wl, "|L(%d,%d)| = %.6Lg exceeds %s1/u = %.6Lg", i, j, a, P->cplx ? "sqrt(2)*" : "", lim); }
    }
    if (worst) *worst = w;
    return bad;
}
int check_udiag(const vf_api *P, const ldc *Ud, int n, char *why, size_t wl)
{
    (void)P;
    for (int j = 0; j < n; j++) {
        ldc d = Ud[(size_t)j * n + j];
        if (d == 0) { snprintf(why, wl, "U(%d,%d) is exactly zero although info = 0", j, j); return 1; }
        if (!isfinite((double)creall(d)) || !isfinite((double)cimagl(d))) { snprintf(why, wl, "U(%d,%d) is not finite", j, j); return 1; }
    }
    return 0;
}
int check_diag_preference(const vf_api *P, const int *perm_r, const int *perm_c, const ldc *Ld, const ldc *Ud,
                          const SuperMatrix *L, int m, int n, double u, int *decisive, int *undecided, char *why, size_t wl)
{ return check_diag_preference_reuse(P, perm_r, perm_c, Ld, Ud, L, m, n, u, NULL, decisive, undecided, why, wl); }
/* reuse_perm_r (may be NULL): the row permutation handed to a SamePattern_SameRowPerm refactorization; a column whose pivot is the
   remembered row is exempt (pivots of an earlier factorization are being reused), every other column follows the fresh policy */
int check_diag_preference_reuse(const vf_api *P, const int *perm_r, const int *perm_c, const ldc *Ld, const ldc *Ud,
                          const SuperMatrix *L, int m, int n, double u, const int *reuse_perm_r, int *decisive, int *undecided, char *why, size_t wl)
{
    /* For column j (permuted numbering) the library's "diagonal" is the original row whose index equals the
       original index of that column.  Candidates at step j are the rows of L(:,j)'s structure; their
       pre-division values are c_i = l_ij * u_jj (pivot row: u_jj).  If the diagonal row was still unpivoted,
       is a stored candidate, is nonzero and passes |c_d| >= u * max|c_i| *clearly*, it must be the pivot. */
    const SCformat *Ls = L->Store; int bad = 0; *decisive = 0; *undecided = 0;
    int *ipc = malloc(sizeof(int) * (size_t)n), *ipr = malloc(sizeof(int) * (size_t)m);
    for (int j = 0; j < n; j++) ipc[perm_c[j]] = j;
    for (int i = 0; i < m; i++) ipr[perm_r[i]] = i;
    for (int j = 0; j < n && j < m && !bad; j++) {
        int d = ipc[j];                      /* original row index of the diagonal */
        if (d >= m) continue;
        int pd = perm_r[d];
        if (pd < j) continue;                /* already used as an earlier pivot */
        /* structure of column j: rows of its supernode at positions >= (j - fsupc) */
        int s = Ls->col_to_sup[j], f = Ls->sup_to_col[s];
        int_t is = Ls->rowind_colptr[f]; long nsupr = (long)(Ls->rowind_colptr[f + 1] - is);
        ldc piv = Ud[(size_t)j * n + j]; ld pivmax = abs1(piv); int d_in = (pd == j);
        ld cd = pd == j ? abs1(piv) : 0;
        for (long k = j - f + 1; k < nsupr; k++) {
            long r = (long)Ls->rowind[is + k];
            ldc cv = Ld[(size_t)j * m + r] * piv; ld a = abs1(cv);
            if (a > pivmax) pivmax = a;
            if (r == pd) { d_in = 1; cd = a; }
        }
        if (!d_in) continue;
        if (pd == j) { if (cd < pivmax * (1 - 64 * P->eps)) (*decisive)++; continue; }   /* diagonal chosen although not the maximum */
        /* diagonal was a candidate and was NOT chosen: it must have failed the test */
        if (cd == 0) continue;
        if (reuse_perm_r && reuse_perm_r[ipr[j]] == j) continue;      /* the remembered pivot row was kept for this column */
        ld thr = (ld)u * pivmax;
        if (cd >= thr * (1 + 64 * P->eps)) {
            bad = 1; snprintf(why, wl, "column %d: diagonal candidate (orig row %d) has |c_d| = %.6Lg >= u*max = %.6Lg (u=%g) but row %d was chosen as pivot", j, d, cd, thr, u, ipr[j]);
        } else if (cd >= thr * (1 - 64 * P->eps)) (*undecided)++;
    }
    free(ipc); free(ipr);
    return bad;
}

/* ------------------------------------------------------------------ expert drivers */
void xdrv_init(xdrv *D, const vf_api *P, const vf_mat *A, int rowmajor, int nrhs, int ldpadb, int ldpadx, const ldc *B0, int ilu)
{
    memset(D, 0, sizeof *D); D->P = P; D->n = A->n; D->nrhs = nrhs; D->rowmajor = rowmajor; D->ilu = ilu;
    int n = A->n; D->ldb = n + ldpadb; if (D->ldb < 1) D->ldb = 1; D->ldx = n + ldpadx; if (D->ldx < 1) D->ldx = 1;
    D->padB = 4242.0L; D->padX = -3131.0L;
    mk_sparse(P, A, rowmajor, &D->A);
    mk_dense(P, n, nrhs, D->ldb, B0, &D->B, D->padB);
    mk_dense(P, n, nrhs, D->ldx, NULL, &D->X, D->padX);
    D->perm_c = malloc(sizeof(int) * (size_t)(n + 1)); D->perm_r = malloc(sizeof(int) * (size_t)(n + 1)); D->etree = malloc(sizeof(int) * (size_t)(n + 1));
    for (int i = 0; i <= n; i++) D->perm_c[i] = D->perm_r[i] = D->etree[i] = PERM_POISON;
    size_t rs = P->rsz;
    D->R = malloc(rs * (size_t)(n + 1)); D->C = malloc(rs * (size_t)(n + 1)); D->ferr = malloc(rs * (size_t)(nrhs + 1)); D->berr = malloc(rs * (size_t)(nrhs + 1));
    D->rpg_p = malloc(rs); D->rcond_p = malloc(rs);
    for (int i = 0; i <= n; i++) { P->rset(D->R, (size_t)i, -5.0L); P->rset(D->C, (size_t)i, -5.0L); }
    for (int i = 0; i <= nrhs; i++) { P->rset(D->ferr, (size_t)i, -5.0L); P->rset(D->berr, (size_t)i, -5.0L); }
    P->rset(D->rpg_p, 0, -5.0L); P->rset(D->rcond_p, 0, -5.0L);
    D->equed[0] = 'N'; D->info = -999;
}
void xdrv_call(xdrv *D, superlu_options_t *opt)
{
    const vf_api *P = D->P;
    if (!D->stat_on) { StatInit(&D->stat); D->stat_on = 1; }
    D->info = -999;
    if (D->ilu) P->gsisx(opt, &D->A, D->perm_c, D->perm_r, D->etree, D->equed, D->R, D->C, &D->L, &D->U, D->work, D->lwork, &D->B, &D->X,
                         D->rpg_p, D->rcond_p, &D->Glu, &D->mem, &D->stat, &D->info);
    else P->gssvx(opt, &D->A, D->perm_c, D->perm_r, D->etree, D->equed, D->R, D->C, &D->L, &D->U, D->work, D->lwork, &D->B, &D->X,
                  D->rpg_p, D->rcond_p, D->ferr, D->berr, &D->Glu, &D->mem, &D->stat, &D->info);
    D->rpg = P->rget(D->rpg_p, 0); D->rcond = P->rget(D->rcond_p, 0);
    if (opt->Fact != FACTORED && D->lwork != -1) {
        D->have_LU = (D->info >= 0 && D->info <= D->n + 1);
        D->lu_in_work = D->lwork > 0;
        if (D->lwork > 0 && D->have_LU) ws_accounting_check(&D->Glu, D->info, D->n, D->ilu ? "?gsisx" : "?gssvx");
    }
}
void xdrv_free_factors(xdrv *D)
{
    if (!D->have_LU) return;
    if (D->lu_in_work) { Destroy_SuperMatrix_Store(&D->L); Destroy_SuperMatrix_Store(&D->U); }
    else { Destroy_SuperNode_Matrix(&D->L); Destroy_CompCol_Matrix(&D->U); }
    D->have_LU = 0;
}
void xdrv_free(xdrv *D)
{
    xdrv_free_factors(D);
    if (D->stat_on) StatFree(&D->stat);
    free_sparse(&D->A); free_dense(&D->B); free_dense(&D->X);
    free(D->perm_c); free(D->perm_r); free(D->etree); free(D->R); free(D->C); free(D->ferr); free(D->berr); free(D->rpg_p); free(D->rcond_p);
    memset(D, 0, sizeof *D);
}

void gen_ilu_options(vf_rng *r, superlu_options_t *opt)
{
    ilu_set_default_options(opt);
    int rule = 0;
    if (rng_bool(r, 0.12)) rule = NODROP;
    else {
        if (rng_bool(r, 0.85)) rule |= DROP_BASIC;
        switch (rng_int(r, 0, 3)) { case 1: rule |= DROP_PROWS; break; case 2: rule |= DROP_COLUMN; break; case 3: rule |= DROP_AREA; break; default: break; }
        if (rng_bool(r, 0.3)) rule |= DROP_DYNAMIC;
        if (rng_bool(r, 0.5)) rule |= DROP_INTERP;
    }
    opt->ILU_DropRule = rule;
    static const double tols[] = { 0.0, 1e-8, 1e-4, 1e-2, 0.1, 1.0 };
    opt->ILU_DropTol = tols[rng_int(r, 0, 5)];
    opt->ILU_FillFactor = rng_bool(r, 0.3) ? 1.0 + rng_int(r, 0, 3) * 0.5 : (double)rng_int(r, 1, 20);
    opt->ILU_Norm = (norm_t)rng_int(r, 0, 2);
    opt->ILU_MILU = (milu_t)rng_int(r, 0, 3);
    static const double ft[] = { 1e-2, 1e-2, 1e-6, 1e-1 };
    opt->ILU_FillTol = ft[rng_int(r, 0, 3)];
    opt->RowPerm = rng_bool(r, 0.5) ? LargeDiag_MC64 : NOROWPERM;
    static const int cps[] = { NATURAL, MMD_ATA, MMD_AT_PLUS_A, COLAMD, MY_PERMC };
    opt->ColPerm = (colperm_t)rng_pick(r, cps, 5);
    static const double us[] = { 1.0, 0.5, 0.1, 0.1, 0.01, 1e-3, 0.0 };   /* documented range [0, 1] */
    opt->DiagPivotThresh = us[rng_int(r, 0, 6)];
    opt->Equil = rng_bool(r, 0.6) ? YES : NO;
    opt->Trans = (trans_t)rng_int(r, 0, 2);
    opt->SymmetricMode = rng_bool(r, 0.15) ? YES : NO;
    opt->PivotGrowth = rng_bool(r, 0.5) ? YES : NO;
    opt->ConditionNumber = rng_bool(r, 0.5) ? YES : NO;
    opt->PrintStat = NO;
}
void ilu_options_str(const superlu_options_t *o, char *buf, size_t n)
{
    snprintf(buf, n, "ILU rule=0x%x tol=%g fill=%g norm=%d milu=%d filltol=%g rowperm=%d colperm=%s u=%g equil=%d trans=%d sym=%d",
             o->ILU_DropRule, o->ILU_DropTol, o->ILU_FillFactor, (int)o->ILU_Norm, (int)o->ILU_MILU, o->ILU_FillTol, (int)o->RowPerm,
             colperm_names[o->ColPerm], o->DiagPivotThresh, o->Equil == YES, (int)o->Trans, o->SymmetricMode == YES);
}
size_t generous_lwork(const vf_api *P, int n, int_t nnz)
{
    size_t N = (size_t)(n > 4 ? n : 4);
    return 3 * N * N * (P->ssz + 2 * sizeof(int_t)) + 64 * (size_t)nnz * (P->ssz + sizeof(int_t)) + 400 * N * (P->ssz + 8) + 100000;
}

int effective_op(int rowmajor, trans_t t) { if (!rowmajor) return (int)t; return t == NOTRANS ? 1 : t == TRANS ? 0 : 3; }
void xdrv_factored_matrix(const xdrv *D, vf_mat *F)
{
    /* NRformat and NCformat share their layout: reading the row-major arrays as CSC yields A^T, the matrix that was factored */
    const NCformat *s = D->A.Store; int n = D->n; F->m = F->n = n; F->nnz = s->colptr[n];
    F->colptr = malloc(sizeof(int_t) * (size_t)(n + 1)); memcpy(F->colptr, s->colptr, sizeof(int_t) * (size_t)(n + 1));
    F->rowind = malloc(sizeof(int_t) * (size_t)(F->nnz + 1)); memcpy(F->rowind, s->rowind, sizeof(int_t) * (size_t)F->nnz);
    F->v = malloc(sizeof(ldc) * (size_t)(F->nnz + 1)); for (int_t k = 0; k < F->nnz; k++) F->v[k] = D->P->get(s->nzval, (size_t)k);
}
ld rmul_native(const vf_api *P, ld a, ld b)
{
    if (P->rsz == 4) { volatile float x = (float)a, y = (float)b; volatile float z = x * y; return (ld)z; }
    volatile double x = (double)a, y = (double)b; volatile double z = x * y; return (ld)z;
}
ldc mul_native(const vf_api *P, ldc a, ld f) { return rmul_native(P, creall(a), f) + rmul_native(P, cimagl(a), f) * I; }

ld xdrv_solver_cond(const xdrv *D)
{
    /* eta = || |F^-1| W || with W = |L||U| permuted back to F's coordinates (largest of the 1- and inf-norms of both products):
       the quantity that governs one step of working-precision refinement with a solver whose backward error is bounded by
       eps*W (Higham, Accuracy and Stability, Thm 12.3/12.4). For a stable factorization W ~ |F| and eta ~ cond(F); with a tiny
       pivot threshold W >> |F| and refinement may return a worse X than it was given. INFINITY when F is singular to working accuracy. */
    const vf_api *P = D->P; int n = D->n; vf_mat F; xdrv_factored_matrix(D, &F);
    ldc *Fd = malloc(sizeof(ldc) * (size_t)n * n), *Fi = malloc(sizeof(ldc) * (size_t)n * n), *Ld = malloc(sizeof(ldc) * (size_t)n * n), *Ud = malloc(sizeof(ldc) * (size_t)n * n);
    ld *W = malloc(sizeof(ld) * (size_t)n * n), eta = INFINITY;
    mat_to_dense(&F, Fd);
    if (dense_inverse(n, Fd, Fi) == 0) {
        expand_LU(P, &D->L, &D->U, n, n, Ld, Ud); absLU_orig(P, D->perm_r, D->perm_c, Ld, Ud, n, W);
        ld *r1 = calloc((size_t)n, sizeof(ld)), *c1 = calloc((size_t)n, sizeof(ld)), *r2 = calloc((size_t)n, sizeof(ld)), *c2 = calloc((size_t)n, sizeof(ld));
        for (int j = 0; j < n; j++) for (int k = 0; k < n; k++) {
            ld wkj = W[(size_t)j * n + k], ikj = cabsl(Fi[(size_t)j * n + k]);
            for (int i = 0; i < n; i++) {
                ld a = cabsl(Fi[(size_t)k * n + i]) * wkj;      /* (|Fi| W)(i,j) += |Fi(i,k)| W(k,j) */
                r1[i] += a; c1[j] += a;
                ld b = W[(size_t)k * n + i] * ikj;               /* (W |Fi|)(i,j) += W(i,k) |Fi(k,j)| */
                r2[i] += b; c2[j] += b;
            }
        }
        eta = 0; for (int i = 0; i < n; i++) { if (r1[i] > eta) eta = r1[i]; if (c1[i] > eta) eta = c1[i]; if (r2[i] > eta) eta = r2[i]; if (c2[i] > eta) eta = c2[i]; }
        if (!(eta == eta)) eta = INFINITY;
        free(r1); free(c1); free(r2); free(c2);
    }
    free(Fd); free(Fi); free(Ld); free(Ud); free(W); mat_free(&F); return eta;
}
ld xdrv_skeel_sigma(const xdrv *D, trans_t trans)
{
    /* sigma = max_i w_i / min_i w_i with w = |op(F)||y| + |b| over all right-hand sides (INFINITY if some w_i = 0):
       working-precision refinement only guarantees a small componentwise backward error when cond * sigma * eps is small (Skeel) */
    const vf_api *P = D->P; int n = D->n, nrhs = D->nrhs; vf_mat F; xdrv_factored_matrix(D, &F);
    int op = effective_op(D->rowmajor, trans); int notranF = (op == 0 || op == 3);
    int rowequ = D->equed[0] == 'R' || D->equed[0] == 'B', colequ = D->equed[0] == 'C' || D->equed[0] == 'B';
    ldc *X = malloc(sizeof(ldc) * (size_t)n * (nrhs + 1)), *B = malloc(sizeof(ldc) * (size_t)n * (nrhs + 1)); dense_read(P, &D->X, X); dense_read(P, &D->B, B);
    ld worst = 1; ld *w = malloc(sizeof(ld) * (size_t)(n + 1));
    for (int j = 0; j < nrhs; j++) {
        for (int i = 0; i < n; i++) w[i] = cabsl(B[(size_t)j * n + i]);
        for (int cc = 0; cc < n; cc++) for (int_t q = F.colptr[cc]; q < F.colptr[cc + 1]; q++) {
            int rr = (int)F.rowind[q]; int xi = notranF ? cc : rr, wi = notranF ? rr : cc;
            ld t = 1; if (notranF && colequ) t = P->rget(D->C, (size_t)xi); else if (!notranF && rowequ) t = P->rget(D->R, (size_t)xi);
            w[wi] += cabsl(F.v[q]) * cabsl(X[(size_t)j * n + xi] / t);
        }
        ld mx = 0, mn = INFINITY; for (int i = 0; i < n; i++) { if (w[i] > mx) mx = w[i]; if (w[i] < mn) mn = w[i]; }
        ld sg = mn > 0 ? mx / mn : INFINITY; if (mx == 0) sg = 1; if (sg > worst) worst = sg;
    }
    free(w); free(X); free(B); mat_free(&F); return worst;
}
ld xdrv_scaled_residual(const xdrv *D, trans_t trans, ld cfac, int *nonfinite)
{
    const vf_api *P = D->P; int n = D->n, nrhs = D->nrhs; *nonfinite = 0;
    vf_mat F; xdrv_factored_matrix(D, &F);
    int op = effective_op(D->rowmajor, trans); int notranF = (op == 0 || op == 3);
    int rowequ = D->equed[0] == 'R' || D->equed[0] == 'B', colequ = D->equed[0] == 'C' || D->equed[0] == 'B';
    ldc *Ld = malloc(sizeof(ldc) * (size_t)n * n), *Ud = malloc(sizeof(ldc) * (size_t)n * n); ld *E = malloc(sizeof(ld) * (size_t)n * n);
    expand_LU(P, &D->L, &D->U, n, n, Ld, Ud); absLU_orig(P, D->perm_r, D->perm_c, Ld, Ud, n, E);
    ldc *X = malloc(sizeof(ldc) * (size_t)n * (nrhs + 1)), *B = malloc(sizeof(ldc) * (size_t)n * (nrhs + 1));
    dense_read(P, &D->X, X); dense_read(P, &D->B, B);
    ld worst = 0;
    for (int j = 0; j < nrhs; j++) {
        ldc *x = &X[(size_t)j * n];
        for (int i = 0; i < n; i++) {
            if (!isfinite((double)creall(x[i])) || !isfinite((double)cimagl(x[i]))) *nonfinite = 1;
            ld t = 1; if (notranF && colequ) t = P->rget(D->C, (size_t)i); else if (!notranF && rowequ) t = P->rget(D->R, (size_t)i);
            x[i] = x[i] / t;
        }
        ld q = solve_residual_ratio(P, &F, op, x, &B[(size_t)j * n], E, cfac);
        if (getenv("VF_DEBUG")) { ld xm = 0, bm = 0; for (int i = 0; i < n; i++) { if (cabsl(x[i]) > xm) xm = cabsl(x[i]); if (cabsl(B[(size_t)j * n + i]) > bm) bm = cabsl(B[(size_t)j * n + i]); } fprintf(stderr, "  rhs %d: ratio %Lg  max|y|=%Lg max|b|=%Lg\n", j, q, xm, bm); }
        if (!(q <= worst)) worst = q;
    }
    free(Ld); free(Ud); free(E); free(X); free(B); mat_free(&F);
    return worst;
}
static int same_ldc(ldc a, ldc b) { return creall(a) == creall(b) && cimagl(a) == cimagl(b); }
int xdrv_check_A_scaling(const xdrv *D, const vf_snap *idx0, const ldc *A0, char *why, size_t wl)
{
    const vf_api *P = D->P; const NCformat *s = D->A.Store; int n = D->n;
    vf_snap idx1; snap_sparse(P, &D->A, &idx1, NULL);
    int same = snap_same(idx0, &idx1); snap_free(&idx1);
    if (!same) { snprintf(why, wl, "index arrays (or nnz) of A changed"); return 1; }
    char e = D->equed[0];
    if (e != 'N' && e != 'R' && e != 'C' && e != 'B') { snprintf(why, wl, "equed = 0x%02x is not one of N R C B", (unsigned char)e); return 1; }
    int rowequ = e == 'R' || e == 'B', colequ = e == 'C' || e == 'B';
    for (int j = 0; j < n; j++) for (int_t k = s->colptr[j]; k < s->colptr[j + 1]; k++) {
        int i = (int)s->rowind[k]; ldc now = P->get(s->nzval, (size_t)k), a = A0[k];
        ld r = rowequ ? P->rget(D->R, (size_t)i) : 1, cj = colequ ? P->rget(D->C, (size_t)j) : 1;
        int ok;
        if (!rowequ && !colequ) ok = same_ldc(now, a);
        else if (rowequ && !colequ) ok = same_ldc(now, mul_native(P, a, r));
        else if (!rowequ && colequ) ok = same_ldc(now, mul_native(P, a, cj));
        else {
            ok = same_ldc(now, mul_native(P, a, rmul_native(P, cj, r))) || same_ldc(now, mul_native(P, mul_native(P, a, r), cj)) || same_ldc(now, mul_native(P, mul_native(P, a, cj), r));
            if (!ok) { ldc ex = a * r * cj; ld d = cabsl(now - ex), m_ = cabsl(ex);
                if (m_ > P->tiny * 4 && m_ < P->huge / 4 && fabsl(r * cj) > P->tiny * 4 && d <= 3 * P->eps * m_) ok = 1; }
        }
        if (!ok) { snprintf(why, wl, "stored entry %lld (row %d, col %d of the factored orientation): %.17Lg%+.17Lgi, original %.17Lg%+.17Lgi, R=%.17Lg C=%.17Lg, equed=%c",
                            (long long)k, i, j, creall(now), cimagl(now), creall(a), cimagl(a), r, cj, e); return 1; }
    }
    return 0;
}
int xdrv_check_B_scaling(const xdrv *D, trans_t trans, const ldc *B0, char *why, size_t wl)
{
    const vf_api *P = D->P; int n = D->n, nrhs = D->nrhs; char e = D->equed[0];
    int rowequ = e == 'R' || e == 'B', colequ = e == 'C' || e == 'B';
    int notran = trans == NOTRANS; if (D->rowmajor) notran = !notran;      /* documented table for SLU_NR */
    const void *sc = NULL; if (notran && rowequ) sc = D->R; else if (!notran && colequ) sc = D->C;
    if (!dense_padding_intact(P, &D->B, D->padB)) { snprintf(why, wl, "padding rows of B (ldb > n) were written"); return 1; }
    ldc *B = malloc(sizeof(ldc) * (size_t)n * (nrhs + 1)); dense_read(P, &D->B, B); int bad = 0;
    for (int j = 0; j < nrhs && !bad; j++) for (int i = 0; i < n; i++) {
        ldc b0 = B0[(size_t)j * n + i], ex = sc ? mul_native(P, b0, P->rget(sc, (size_t)i)) : b0;
        if (!same_ldc(B[(size_t)j * n + i], ex)) { bad = 1; snprintf(why, wl, "B(%d,%d) = %.17Lg%+.17Lgi, expected %.17Lg%+.17Lgi (%s, equed=%c, trans=%d, %s)", i, j,
            creall(B[(size_t)j * n + i]), cimagl(B[(size_t)j * n + i]), creall(ex), cimagl(ex), sc ? (sc == D->R ? "scaled by R" : "scaled by C") : "unscaled", e, (int)trans, D->rowmajor ? "NR" : "NC"); break; }
    }
    free(B); return bad;
}

ld dense_cond1(const vf_mat *F, ld *n1, ld *in1, ld *ni, ld *ini)
{
    int n = F->n; ldc *D = malloc(sizeof(ldc) * (size_t)n * n), *X = malloc(sizeof(ldc) * (size_t)n * n);
    mat_to_dense(F, D); ld a1 = dense_norm1(n, D), ai = dense_norminf(n, D), r;
    if (dense_inverse(n, D, X)) { r = INFINITY; if (n1) *n1 = a1; if (in1) *in1 = INFINITY; if (ni) *ni = ai; if (ini) *ini = INFINITY; }
    else { ld b1 = dense_norm1(n, X), bi = dense_norminf(n, X); r = a1 * b1; if (n1) *n1 = a1; if (in1) *in1 = b1; if (ni) *ni = ai; if (ini) *ini = bi; }
    free(D); free(X); return r;
}

/* clause (a): checks on a return info = i in [1, n]; F is the matrix that was factored (A, or A^T for row storage) */
void judge_singular(vf_case *c, const vf_api *P, const vf_mat *F, const int *perm_r, const int *perm_c,
                           const SuperMatrix *L, const SuperMatrix *U, int_t info, const char *route)
{
    int n = F->n, jz = (int)info - 1;            /* the column reported as having no pivot */
    const SCformat *Ls = L->Store; const NCformat *Us = U->Store;
    if (!Ls || !Us || !Ls->sup_to_col || !Ls->col_to_sup) { vf_viol(c, "singular-factors-missing", "%s: info=%lld but L/U stores are absent", route, (long long)info); return; }
    int s = Ls->col_to_sup[jz];
    if (s < 0 || s > (int)Ls->nsuper) { vf_viol(c, "singular-col_to_sup", "%s: col_to_sup[%d]=%d outside [0,%lld]", route, jz, s, (long long)Ls->nsuper); return; }
    int f = Ls->sup_to_col[s]; if (f < 0 || f > jz) { vf_viol(c, "singular-sup_to_col", "%s: supernode %d of column %d starts at %d", route, s, jz, f); return; }
    int_t is = Ls->rowind_colptr[f]; long nsupr = (long)(Ls->rowind_colptr[f + 1] - is); int_t vs = Ls->nzval_colptr[jz];
    if (nsupr < 0 || nsupr > n) { vf_viol(c, "singular-rowlist", "%s: supernode row list length %ld", route, nsupr); return; }
    /* every stored candidate of column jz (diagonal position and below) must be exactly zero */
    for (long k = jz - f; k < nsupr; k++) {
        ldc v = P->get(Ls->nzval, (size_t)(vs + k));
        if (v != 0) { vf_viol(c, "candidate-nonzero", "%s: info=%lld but candidate at position %ld of column %d is %.6Lg%+.6Lgi, not exactly zero", route, (long long)info, k, jz, creall(v), cimagl(v)); return; }
    }
    /* leading jz x jz block: nonzero pivots and factor identity (rows and columns < jz of the permuted matrix) */
    if (jz == 0) return;
    ldc *Ld = calloc((size_t)jz * jz, sizeof(ldc)), *Ud = calloc((size_t)jz * jz, sizeof(ldc));
    for (int j = 0; j < jz; j++) {
        int sj = Ls->col_to_sup[j]; if (sj < 0 || sj > (int)Ls->nsuper) goto malformed;
        int fj = Ls->sup_to_col[sj]; if (fj < 0 || fj > j) goto malformed;
        int_t isj = Ls->rowind_colptr[fj]; long nr = (long)(Ls->rowind_colptr[fj + 1] - isj); if (nr < j - fj + 1 || nr > n) goto malformed;
        int_t v0 = Ls->nzval_colptr[j];
        int nsupc_total = Ls->sup_to_col[sj + 1] - fj;
        for (long k = 0; k < nr; k++) {
            ldc v = P->get(Ls->nzval, (size_t)(v0 + k));
            long row = k < nsupc_total ? fj + k : (long)Ls->rowind[isj + k];
            if (row < 0 || row >= n) { if (v != 0) goto malformed; continue; }
            if (row >= jz) continue;
            if (row < j) Ud[(size_t)j * jz + row] += v; else if (row == j) { Ud[(size_t)j * jz + j] += v; Ld[(size_t)j * jz + j] = 1; } else Ld[(size_t)j * jz + row] += v;
        }
        for (int_t q = Us->colptr[j]; q < Us->colptr[j + 1]; q++) { long row = (long)Us->rowind[q]; if (row < 0 || row >= fj) goto malformed; Ud[(size_t)j * jz + row] += P->get(Us->nzval, (size_t)q); }
    }
    for (int j = 0; j < jz; j++) if (Ud[(size_t)j * jz + j] == 0) { vf_viol(c, "earlier-zero-pivot", "%s: info=%lld but U(%d,%d) is already exactly zero: an earlier column without pivot was not the one reported", route, (long long)info, j, j); goto done; }
    {   /* leading block of Pr*A*Pc */
        int *ipc = malloc(sizeof(int) * (size_t)n); for (int j = 0; j < n; j++) ipc[j] = -1;
        for (int j = 0; j < n; j++) if (perm_c[j] >= 0 && perm_c[j] < n) ipc[perm_c[j]] = j;
        ld cf = P->cplx ? 16 : 8, worst = 0;
        ldc *col = malloc(sizeof(ldc) * (size_t)jz); ld *bnd = malloc(sizeof(ld) * (size_t)jz); ldc *pa = malloc(sizeof(ldc) * (size_t)jz);
        for (int jp = 0; jp < jz; jp++) {
            for (int i = 0; i < jz; i++) { col[i] = 0; bnd[i] = 0; pa[i] = 0; }
            for (int k = 0; k <= jp; k++) { ldc u = Ud[(size_t)jp * jz + k]; if (u == 0) continue; for (int i = k; i < jz; i++) { ldc l = Ld[(size_t)k * jz + i]; if (l != 0) { col[i] += l * u; bnd[i] += cabsl(l) * cabsl(u); } } }
            int jo = ipc[jp]; if (jo < 0) { free(ipc); free(col); free(bnd); free(pa); goto malformed; }
            for (int_t q = F->colptr[jo]; q < F->colptr[jo + 1]; q++) { int pr_ = perm_r[F->rowind[q]]; if (pr_ >= 0 && pr_ < jz) pa[pr_] += F->v[q]; }
            for (int i = 0; i < jz; i++) { ld e = cabsl(pa[i] - col[i]); ld b = cf * n * P->eps * bnd[i] + n * P->tiny; ld q = e / b; if (!(q <= worst)) worst = q; }
        }
        free(ipc); free(col); free(bnd); free(pa);
        if (!(worst <= 1.0L)) vf_viol(c, "leading-block-identity", "%s: info=%lld but the leading %dx%d block of Pr*A*Pc differs from L*U by %.3Lg times the bound", route, (long long)info, jz, jz, worst);
    }
done:
    free(Ld); free(Ud); return;
malformed:
    vf_viol(c, "leading-block-malformed", "%s: info=%lld: structure of the leading %d columns cannot be read consistently", route, (long long)info, jz);
    free(Ld); free(Ud);
}


void mat_revalue(vf_rng *r, const vf_api *P, const vf_mat *A, int kind, const int *perm_r, const int *perm_c, vf_mat *A2)
{
    mat_copy(A2, A);
    int m = A->m, n = A->n;
    ld *rs = NULL;
    if (kind == 3) { rs = malloc(sizeof(ld) * (size_t)(m + 1)); for (int i = 0; i < m; i++) rs[i] = ldexpl(1.0L, rng_int(r, -6, 6)); }
    /* pivot row of ORIGINAL column j: column j sits at position perm_c[j]; the row whose perm_r equals that position was its pivot */
    int *prow = NULL;
    if (kind == 2 && perm_r && perm_c) { prow = malloc(sizeof(int) * (size_t)(n + 1)); int *inv = malloc(sizeof(int) * (size_t)(m + 1));
        for (int i = 0; i < m; i++) inv[i] = -1;
        for (int i = 0; i < m; i++) if (perm_r[i] >= 0 && perm_r[i] < m) inv[perm_r[i]] = i;
        for (int j = 0; j < n; j++) prow[j] = (perm_c[j] >= 0 && perm_c[j] < m) ? inv[perm_c[j]] : -1;
        free(inv); }
    for (int j = 0; j < n; j++) {
        int hit = kind == 2 && rng_bool(r, 0.25);
        for (int_t q = A->colptr[j]; q < A->colptr[j + 1]; q++) {
            ldc v = A->v[q];
            switch (kind) {
            case 0: v = v * (1 + (2 * rng_unif(r) - 1) * 64 * P->eps); break;
            case 1: v = (2 * rng_unif(r) - 1) + (P->cplx ? (2 * rng_unif(r) - 1) * I : 0); if (rng_bool(r, 0.1)) v *= 8; break;
            case 2: if (hit && prow && A->rowind[q] == prow[j]) v = v * 1e-6L; else if (hit) v = v * (1 + rng_unif(r)); break;
            default: v = v * rs[A->rowind[q]]; break;
            }
            A2->v[q] = P->round(v);
            if (A2->v[q] == 0 && A->v[q] != 0) A2->v[q] = A->v[q];     /* keep the stored pattern's nonzeros nonzero */
        }
    }
    free(rs); free(prow);
}
