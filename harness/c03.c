/* C03 - returned L and U are structurally well-formed (complete LU: every route; incomplete LU: ?gsisx). */
#include "fact.h"

static void c03_run(vf_case *c)
{
    const vf_api *P = c->P; vf_rng *r = &c->rng; char buf[400], why[300];
    int route = rng_int(r, 0, 9);      /* 0-2 gstrf, 3-4 gssv, 5-7 gssvx, 8-9 gsisx */
    gen_spec g; run_opts o;
    gen_spec_random(r, P, &g, 1, 60, 1);
    if (g.pattern == PAT_RANDOM && rng_bool(r, 0.7)) g.pattern = PAT_RANDOM_DIAG;
    if (g.pattern == PAT_STAIR && rng_bool(r, 0.5)) g.pattern = PAT_BLOCKTRI;
    int growthy = rng_bool(r, 0.3);       /* fill-heavy pattern + fill estimate 1 + fill-preserving order: many in-flight expansions of every array */
    if (growthy) { static const int gp[] = { PAT_ARROW, PAT_LOWERDENSE, PAT_GRID, PAT_DENSE, PAT_BLOCKTRI }; g.pattern = rng_pick(r, gp, 5); if (g.n < 8) g.n = g.m = rng_int(r, 8, 40); }
    int tall = route <= 2 && rng_bool(r, 0.3);
    if (tall) g.m = g.n + rng_int(r, 1, 1 + g.n / 2);
    vf_mat A; gen_matrix(r, P, &g, &A);
    gen_run_opts(r, &o, 1);
    if (tall && o.opt.ColPerm == MMD_AT_PLUS_A) o.opt.ColPerm = COLAMD;
    gen_tuning(r, rng_bool(r, 0.9));
    if (g.pattern == PAT_LOWERDENSE && rng_bool(r, 0.6)) { o.opt.ColPerm = NATURAL; o.opt.SymmetricMode = NO; vf_ienv_set(1, rng_int(r, 6, 8)); vf_ienv_set(3, rng_int(r, 5, 10)); vf_ienv_set(2, rng_int(r, 1, 2)); }
    if (growthy) { vf_ienv_set(6, 1); if (rng_bool(r, 0.7)) o.opt.ColPerm = rng_bool(r, 0.5) ? NATURAL : MY_PERMC; if (rng_bool(r, 0.5)) { int ms = rng_int(r, 1, 3); vf_ienv_set(3, ms); vf_ienv_set(7, ms); vf_ienv_set(2, 1); } vf_tag(c, "growthy"); }
    int n = A.n, m = A.m;
    int *mypc = malloc(sizeof(int) * (size_t)(n + 1)); rng_perm(r, mypc, n);
    const char *rn = route <= 2 ? "gstrf" : route <= 4 ? "gssv" : route <= 7 ? "gssvx" : "gsisx";
    gen_spec_str(&g, buf, sizeof buf); vf_desc(c, "route=%s %s; ", rn, buf); tuning_str(buf, sizeof buf); vf_desc(c, "%s; ", buf);
    vf_tag(c, "prec=%c", P->letter); vf_tag(c, "route=%s", rn);
    vf_sig_u64(c, mat_pattern_hash(&A)); vf_sig_u64(c, (uint64_t)route);
    int ssing = sprank(&A) < (A.m < A.n ? A.m : A.n);
    if (route >= 8) vf_note(c, "ilu");
    if (ssing) { vf_note(c, "structsing"); vf_tag(c, "structsing"); }
    superlu_options_t opt; set_default_options(&opt);
    opt.ColPerm = o.opt.ColPerm; opt.DiagPivotThresh = o.opt.DiagPivotThresh; opt.SymmetricMode = o.opt.SymmetricMode; opt.PrintStat = NO;
    int_t info = -999; int judged = 0, ilu = 0; const SuperMatrix *Lp = NULL, *Up = NULL;
    fact_run R; xdrv D; SuperMatrix SA, SB, L, U; SuperLUStat_t stat; int *pc = NULL, *pr = NULL; void *work = NULL;
    memset(&L, 0, sizeof L); memset(&U, 0, sizeof U);
    if (route <= 2) {
        run_opts_str(&o, buf, sizeof buf); vf_desc(c, "%s", buf);
        fact_do(P, &A, &opt, mypc, NULL, 0, 0, &R); info = R.info; Lp = &R.L; Up = &R.U;
        vf_tag(c, "%s", tall ? "tall" : "square");
        /* a third of the successful direct factorizations is refactored on the same pattern with new values (row pivots and storage reused,
           remembered pivots kept or abandoned; square and tall): the structure judged below is then the refactorization's */
        if (info == 0 && R.have_LU && n >= 2 && opt.DiagPivotThresh >= 1e-3 && rng_bool(r, 0.35)) {
            int kind = rng_int(r, 0, 3); vf_mat A2; mat_revalue(r, P, &A, kind, R.perm_r, R.perm_c, &A2);
            int *pr_in = malloc(sizeof(int) * (size_t)(m + 1)); memcpy(pr_in, R.perm_r, sizeof(int) * (size_t)m);
            fact_redo(P, &A2, SamePattern_SameRowPerm, NULL, 0, &R); info = R.info;
            vf_tag(c, "refactor-%s", tall ? "tall" : "square"); if (info == 0) vf_tag(c, memcmp(pr_in, R.perm_r, sizeof(int) * (size_t)m) ? "reuse=abandoned" : "reuse=kept");
            if (info == 0 && !is_perm(R.perm_r, m)) vf_viol(c, "structure", "gstrf refactorization (SamePattern_SameRowPerm, %dx%d): perm_r is not a permutation of 0..%d", m, n, m - 1);
            free(pr_in); mat_free(&A); A = A2;
        }
    } else if (route <= 4) {
        run_opts_str(&o, buf, sizeof buf); vf_desc(c, "%s", buf);
        mk_sparse(P, &A, o.rowmajor, &SA); mk_dense(P, n, 0, n > 0 ? n : 1, NULL, &SB, 0);
        pc = malloc(sizeof(int) * (size_t)(n + 1)); pr = malloc(sizeof(int) * (size_t)(n + 1)); memcpy(pc, mypc, sizeof(int) * (size_t)n);
        StatInit(&stat); P->gssv(&opt, &SA, pc, pr, &L, &U, &SB, &stat, &info); Lp = &L; Up = &U;
        vf_tag(c, "%s", o.rowmajor ? "NR" : "NC");
    } else {
        ilu = route >= 8;
        superlu_options_t xo;
        if (ilu) { gen_ilu_options(r, &xo); ilu_options_str(&xo, buf, sizeof buf); vf_desc(c, "%s", buf); }
        else { xo = o.opt; xo.PrintStat = NO; run_opts_str(&o, buf, sizeof buf); vf_desc(c, "%s", buf); }
        xo.Fact = DOFACT;
        xdrv_init(&D, P, &A, o.rowmajor, 0, 0, 0, NULL, ilu);
        if (xo.ColPerm == MY_PERMC) memcpy(D.perm_c, mypc, sizeof(int) * (size_t)n);
        if (rng_bool(r, 0.4)) { D.lwork = (int_t)generous_lwork(P, n, A.nnz); work = vf_ws_alloc(c, (size_t)D.lwork); D.work = work; vf_tag(c, "mem=workspace"); } else vf_tag(c, "mem=malloc");
        xdrv_call(&D, &xo); info = D.info; Lp = &D.L; Up = &D.U;
        vf_tag(c, "%s", o.rowmajor ? "NR" : "NC"); vf_tag(c, "equed=%c", D.equed[0]);
        if (ilu) { vf_tag(c, "ilurule=0x%x", xo.ILU_DropRule & 0xf); vf_tag(c, "rowperm=%d", (int)xo.RowPerm); }
    }
    int ok_info = ilu ? (info >= 0 && info <= n + 1) : (info == 0 || (route >= 5 && info == n + 1));
    if (ok_info && ilu && ssing) vf_tag(c, "ilu-structsing-not-judged");   /* outside the property's domain (C15: structurally nonsingular) */
    else if (ok_info) {
        judged = 1;
        if (structure_ok(P, Lp, Up, m, n, ilu, why, sizeof why)) vf_viol(c, ilu ? "ilu-structure" : "structure", "%s: %s", rn, why);
        { int ex = route <= 2 ? R.stat.expansions : route <= 4 ? stat.expansions : D.stat.expansions; vf_tag(c, "expansions=%d", ex > 3 ? 3 : ex); if (ex > c->counters[2]) c->counters[2] = ex; }
        int ns, mx, mu; snode_stats(Lp, &ns, &mx, &mu); vf_tag(c, "maxsnode=%d", mx > 4 ? 4 : mx); c->counters[0] += mu; c->counters[1] += ns;
        if (ilu) { const NCformat *Us = Up->Store; int rep = 0; unsigned char *seen = calloc((size_t)n + 1, 1);
            for (int j = 0; j < n && !rep; j++) { for (int_t q = Us->colptr[j]; q < Us->colptr[j + 1]; q++) { if (seen[Us->rowind[q]]) rep = 1; seen[Us->rowind[q]] = 1; } for (int_t q = Us->colptr[j]; q < Us->colptr[j + 1]; q++) seen[Us->rowind[q]] = 0; }
            free(seen); if (rep) vf_tag(c, "ilu-U-repeats-row"); }
        c->nontrivial = n >= 2 && mx >= 2;
    } else if (info < 0) vf_viol(c, "info-negative", "%s returned info=%lld on a valid call", rn, (long long)info);
    else if (info > n + 1 && !(route >= 5 && D.lwork > 0)) vf_viol(c, "info-nomem", "%s reported memory failure info=%lld under library allocation", rn, (long long)info);
    vf_tag(c, "info=%s", info == 0 ? "0" : info <= n ? (ilu ? "replaced" : "singular") : info == n + 1 ? "n+1" : "nomem");
    vf_sig_u64(c, (uint64_t)judged);
    if (route <= 2) fact_free(&R);
    else if (route <= 4) { if (info >= 0 && info <= n) { Destroy_SuperNode_Matrix(&L); Destroy_CompCol_Matrix(&U); } StatFree(&stat); free_sparse(&SA); free_dense(&SB); free(pc); free(pr); }
    else { xdrv_free(&D); free(work); }
    free(mypc); mat_free(&A);
    vf_check_ledger(c, "after factorization lifecycle");
}
VF_REGISTER("C03", c03_run)
