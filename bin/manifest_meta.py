HOOK_COMMITS = ["99a02c9", "f8d9bb5", "b7b5f82", "4931ed9", "63c8e47"]
_ALL = ['C%02d' % i for i in range(1, 21)]
META = {
 'C01': dict(technique='runtime monitoring: residual-bound oracle + ASan/UBSan over generated ?gssv executions',
             level_text='componentwise residual of the returned X against the bound built from the returned factors (long double), evaluated on thousands of generated ?gssv executions per run under ASan+UBSan, bundled and vendor BLAS, 32/64-bit indices; held on what was observed',
             level_note='trusted: gcc sanitizers, 80-bit long double reference arithmetic, bound constant c = 8 / 16'),
 'C02': dict(technique='runtime monitoring: factor-identity / pivot-bound oracles + ASan/UBSan over generated ?gstrf and ?gssv executions',
             level_text='entrywise Pr*A*Pc - L*U against c*n*eps*|L||U|, permutation bijectivity, multiplier bound 1/u, diagonal preference reconstructed from the returned factors, on generated square and tall factorizations',
             level_note='trusted: sanitizers, long double reference; diagonal-preference clause one-sided with 64 eps margin (near-threshold columns undecided)'),
 'C03': dict(technique='runtime monitoring: structural well-formedness predicate + ASan over factorizations from every route',
             level_text='discrete predicate over SCformat/NCformat exactly as the consuming routines index them, on every factorization returned by ?gstrf, ?gssv, ?gssvx (malloc and caller workspace) and ?gsisx',
             level_note='trusted: the predicate transcription; ASan as witness that all indices read lie inside the allocations'),

 'C04': dict(technique='runtime monitoring: singular-return oracle with FE_INEXACT exactness witness + ASan over constructed exactly singular inputs',
             level_text='on every info in [1,n] return: stored candidates of the reported column exactly zero, earlier pivots nonzero, leading-block factor identity, B/X untouched, no solve; "reported exactly when" decided only on executions witnessed exact (FE_INEXACT clear) or rounding-immune (empty row/column); a share of the driver route runs with Equil = YES on inputs scaled by powers of two, where "right-hand side untouched, no solve" is judged on the singular return',
             level_note='trusted: FE_INEXACT as exactness witness, construction of exactly singular / nonsingular inputs; crashes after a zero pivot are the listed finding F6'),
 'C05': dict(technique='runtime monitoring: scaled-system residual oracle + bitwise A/B mutation snapshots + ASan/UBSan over generated ?gssvx executions',
             level_text='A_after = diag(R) A diag(C) per equed bitwise (any association), B_after per the documented table bitwise, indices and padding untouched, residual of X in the scaled system against the factor-derived bound; Trans x Equil x refine x NC/NR x orderings, bundled and vendor BLAS; 40 % of the cases are re-solved with Fact = FACTORED (another Trans, new B) against the same oracles; every fresh factorization starts from a stale equed letter; inputs whose columns lie beyond the exponent range check the equed/A/B contract when ?gsequ gives up',
             level_note='trusted: long double reference; refined X judged only under the Skeel/conditioning gate (stated in evidence as skipped_by_rule)'),

 'C06': dict(technique='runtime monitoring: per-step oracles over generated ?gssvx call histories (refactor / re-solve) + ASan/UBSan',
             level_text='generated histories over {DOFACT, SamePattern, SamePattern_SameRowPerm, FACTORED} under the documented preconditions with value streams that keep or abandon the remembered pivots; every step judged by the C02/C03/C05 oracles, FACTORED steps by byte hashes of all factor objects; the diagonal-preference (pivot policy) oracle is applied to every factorization step, exempting columns that kept their remembered pivot row',
             level_note='trusted: the per-step oracles of C01-C05; histories sampled, not exhausted'),
 'C07': dict(technique='runtime monitoring: bitwise differential of factors across storage-acquisition variants + ASan',
             level_text='per input the factorization is repeated under fill estimates 1..8 and caller workspaces of decreasing length at 4/8-byte alignment; perms and all factor bytes must equal the fill-30/malloc reference; QuerySpace accounting recomputed from the returned structure; complete and incomplete LU; asan and -O2 builds; capacity walk: each growable array (lusup, ucol/usub, lsub) is started at the fill level of a column boundary or any value up to its final size (guarded hook in ?LUMemInit), under library allocation and in a generous workspace, bitwise comparison again; tall matrices; workspaces carry junk incl. small integers that look like stale marks; a workspace several times the dense factors must succeed',
             level_note='trusted: bitwise equality is what correct code produces with the bundled kernels (soaked); intra-workspace overruns show up as changed factors'),
 'C10': dict(technique='runtime monitoring: definition-based elimination-tree / permutation oracles + ASan over generated patterns',
             level_text='bijection, pattern-only dependence (metamorphic twin), etree equal to the tree computed from the definition on A*Pc, parent > child, postorder contiguity, relabelling clause for caller orderings, AC column ranges, untouched inputs for Fact != DOFACT; 32- and 64-bit indices',
             level_note='trusted: the O(n^3) boolean reference for the column elimination tree'),
 'C11': dict(technique='runtime monitoring: long double recomputation of equilibration factors, ratios, threshold rule and scaled values over the whole floating-point range',
             level_text='R, C, rowcnd, colcnd, amax, info and the ?laqgs letter/products recomputed from their definitions for generated m x n matrices incl. subnormal/near-overflow magnitudes, threshold-adjacent values and zero rows/columns; three inherent findings pinned as known',
             level_note='trusted: long double reference; clauses gated where the working-precision product legitimately underflows'),
 'C17': dict(technique='runtime monitoring: optimal-assignment (Hungarian) and dual-feasibility oracles on ?ldperm outputs + ASan',
             level_text='bijection, nonzero diagonal, diagonal product equal to the Hungarian optimum, scaled entries <= 1 and = 1 on the matching, inputs unchanged, structural singularity reported; wide magnitudes, ties, zero diagonals, real and complex',
             level_note='trusted: the harness Hungarian solver (its matching is re-validated), sprank'),
 'C18': dict(technique='runtime monitoring: exhaustive table of documented single-argument corruptions with byte snapshots and allocation ledger',
             level_text='290-row table (routine, corrupted argument, documented info) x base-call variants x four precisions enumerated completely; info code, byte snapshots of every object the property names, ledger empty, no abort; size queries (lwork = -1) are used as base calls too',
             level_note='trusted: the table transcription from the routine headers'),
 'C20': dict(technique='runtime monitoring: handle histories through the Fortran bridge compared bitwise with ?gssv + handle-tagged allocation ledger + ASan',
             level_text='factor/solve*/free histories over 1-4 interleaved handles: caller arrays byte-identical, every solve bitwise equal to ?gssv on the 0-based copy, repeated solves identical, padding untouched, everything a handle allocated released by iopt=3',
             level_note='trusted: determinism of the library (C09); the bridge is driven from C (no Fortran compiler in the image)'),

 'C08': dict(technique='runtime monitoring with fault enumeration: workspace-length sweep inside a canary/ASan-poisoned arena, injected ?expand allocation failures, size-query snapshots',
             level_text='per input every workspace length on the 4-byte grid in windows around 0 and the minimal sufficient length (plus a coarse grid), both alignments, complete and incomplete LU, factor routines and expert drivers: success with factors byte-identical to the malloc run, or info > n; every allocation-failure position among the ?expand requests; lwork = -1 with byte snapshots of all arguments; tall matrices through ?gstrf, ILU inputs with missing diagonals and an emptied last column; a generous workspace must succeed',
             level_note='trusted: canaries + ASan poisoning for outside writes, bitwise comparison for damage inside the workspace; leak on the out-of-space return of ?gstrf is the listed finding F7b'),

 'C14': dict(technique='runtime monitoring: long double reference for sparse triangular solves / products over all flag spellings, strides and paddings + byte snapshots + ASan',
             level_text='sp_?trsv residual for every (uplo, trans, diag) on real and generated factor pairs, sp_?gemv/sp_?gemm against alpha*op(A)*x+beta*y for every documented spelling, alpha/beta class, stride and rectangular shape with guard elements, ?gstrs column independence (bitwise with bundled kernels)',
             level_note='trusted: long double references; two documentation/implementation mismatches are listed findings'),

 'C15': dict(technique='runtime monitoring: ILU driver oracles (replacement-event count from guarded hooks, structure, preconditioner-solve residual, exactness without dropping) + ASan/UBSan',
             level_text='?gsisx on structurally nonsingular inputs over the ILU option lattice: completes, info equals the number of pivot-replacement events, bijections, nonzero finite U diagonal, ILU structure predicate, restored index arrays, finite returned A, X is the solve defined by the returned factors, complete-LU identity when dropping is off and nothing was replaced; 35 % of the cases start from chosen first capacities of the factor arrays (guarded capacity hook), and a 6x6 family with units beyond sqrt(overflow) and a stored zero exercises the rejected-MC64-scaling / ?gsequ fallback path',
             level_note='trusted: the guarded event hooks, long double references; structurally singular inputs are outside the property (finding F14 listed)'),
 'C16': dict(technique='runtime monitoring: writer-as-reference differential over generated HB/RB/MM/triplet encodings + ASan',
             level_text='reader output (dims, nnz, per-column pattern and values = strtod of the printed text) compared exactly with the matrix the generator rendered, over Fortran edit descriptors, counts per line, E/D exponents, scale factors, RHS blocks, symmetric files with and without diagonal entries, coordinate orders and comments; Matrix Market headers with blank and indented comment lines',
             level_note='trusted: the generator emits only well-formed files; readers for known-fatal encodings run in a forked child'),

 'C19': dict(technique='runtime monitoring: ASan+UBSan, MemorySanitizer, valgrind memcheck, exact allocation ledger and junk-fill differential over generated API lifecycles with forced error exits',
             level_text='lifecycle programs over the computational routines with forced singular / out-of-space / size-query exits, executed twice under different junk fill (bitwise equal outputs), ledger empty and no bad free at the end; the same programs and the driver/history/ILU workloads under MemorySanitizer, a subsample under memcheck; all other checks of the suite run under ASan+UBSan with the ledger as well; 30 % of the lifecycles go through the expert drivers (?gssvx / ?gsisx with equilibration, MC64, refinement) ended by a too-short workspace, an injected growth failure, a size query or a FACTORED re-solve; lifecycles also start the growable arrays at small capacities (guarded hook)',
             level_note='trusted: the sanitizers and memcheck; red-zone tools miss intra-object overflows (covered by the bitwise checks of C07/C08); two listed findings (F6, F14) are reported as KNOWN-FINDING'),

 'C12': dict(technique='runtime monitoring: true condition numbers from a long double inverse as one-sided oracle for the estimate, growth factor recomputed from the returned factors + ASan/UBSan',
             level_text='rcond against the true reciprocal condition number in the norm the driver must use (gated by n*eps*cond*growth), rcond <= 1, info = n+1 iff rcond < eps (exact comparison, near-threshold undecided), reciprocal pivot growth recomputed from the returned store also over the leading columns of singular returns; matrices whose 1- and inf-norm condition numbers differ by >= 1e3',
             level_note='trusted: long double inverse; no upper bound on estimate/true is asserted (none exists)'),

 'C13': dict(technique='runtime monitoring: long double LAPACK-definition backward error of the returned X as oracle for BERR, replay of each column through ?gstrs+?gsrfs, exact NOREFINE clauses + ASan/UBSan',
             level_text='BERR(j) inside a derived band around the componentwise backward error of the returned X for the system actually factored (scaled A, scaled B, X in scaled variables), FERR finite and non-negative, at most five steps, NOREFINE gives ferr = berr = 1 exactly and the unrefined X bitwise; all Trans, equed outcomes, storage orientations, ill-conditioned and badly scaled inputs',
             level_note='trusted: long double reference; rows whose denominator underflows are undecided; vendor-BLAS runs fall back to tolerance where bitwise replay differs'),

 'C09': dict(technique='runtime monitoring: ThreadSanitizer on mixed concurrent jobs + bitwise output comparison alone / concurrent / after unrelated calls under junk-filled heaps',
             level_text='job pools mixing drivers, factor/solve/refine/condition routines, orderings and ILU in four precisions on 2-16 threads with injected yields at allocation points (TSan build: data-race reports with a library frame), and bitwise equality of every job output with its solo reference, across repetitions and call histories (-O2 and ASan builds); evidence reports jobs in flight and distinct interleaving signatures; the statistics object and the output-only arrays (ferr, berr, rcond, rpg) carry left-overs of earlier calls in every second execution',
             level_note='trusted: TSan (fully instrumented library; the monitor ledger mutex is hidden from TSan so it creates no happens-before edges); absence of races is only shown for the interleavings produced'),
}
NOT_APPLICABLE = [dict(property_id=p, reason='check not registered yet in this revision (under construction; see DESIGN.md section 5)') for p in _ALL if p not in META]
