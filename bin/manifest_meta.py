HOOK_COMMITS = ["99a02c9"]
_ALL = ['C%02d' % i for i in range(1, 21)]
META = {
 'C01': dict(technique='runtime monitoring: residual-bound oracle + ASan/UBSan over generated ?gssv executions',
             level_text='componentwise residual of the returned X against the bound built from the returned factors (long double), evaluated on thousands of generated ?gssv executions per run under ASan+UBSan, bundled and vendor BLAS, 32/64-bit indices; held on what was observed',
             level_note='trusted: gcc sanitizers, 80-bit long double reference arithmetic, bound constant c = 8 / 16'),
 'C02': dict(technique='runtime monitoring: factor-identity / pivot-bound oracles + ASan/UBSan over generated ?gstrf and ?gssv executions',
             level_text='entrywise Pr*A*Pc - L*U against c*n*eps*|L||U|, permutation bijectivity, multiplier bound 1/u, diagonal preference reconstructed from the returned factors, on generated square and tall factorizations',
             level_note='trusted: sanitizers, long double reference; diagonal-preference clause one-sided with 64 eps margin (near-threshold columns undecided)'),
 'C03': dict(technique='runtime monitoring: structural well-formedness predicate + ASan over factorizations from every route',
             level_text='discrete predicate over SCformat/NCformat exactly as the consuming routines index them, on every factorization returned by ?gstrf, ?gssv, ?gssvx (malloc and caller workspace) and ?gsisx',
             level_note='trusted: the predicate transcription; ASan as witness that all indices read lie inside the allocations'),
}
NOT_APPLICABLE = [dict(property_id=p, reason='check not registered yet in this revision (under construction; see DESIGN.md section 5)') for p in _ALL if p not in META]
