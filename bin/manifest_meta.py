HOOK_COMMITS = ["99a02c9"]
_ALL = ['C%02d' % i for i in range(1, 21)]
META = {
 'C01': dict(technique='runtime monitoring: residual-bound oracle + ASan/UBSan over generated ?gssv executions',
             level_text='componentwise residual of the returned X against the bound built from the returned factors (long double), evaluated on thousands of generated ?gssv executions per run under ASan+UBSan, bundled and vendor BLAS, 32/64-bit indices; held on what was observed',
             level_note='trusted: gcc sanitizers, 80-bit long double reference arithmetic, bound constant c = 8 / 16'),
 'C02': dict(technique='runtime monitoring: factor-identity / pivot-bound oracles + ASan/UBSan over generated ?gstrf and ?gssv executions',
             level_text='entrywise Pr*A*Pc - L*U against c*n*eps*|L||U|, permutation bijectivity, multiplier bound 1/u, diagonal preference reconstructed from the returned factors, on generated square and tall factorizations',
             level_note='trusted: sanitizers, long double reference; diagonal-preference clause one-sided with 64 eps margin (near-threshold columns undecided)'),
 'C03': dict(technique='runtime monitoring: structural well-formedness predicate + ASan over factorizations from every route',
             level_text='discrete predicate over SCformat/NCformat exactly as the consuming routines index them, on every factorization returned by ?gstrf, ?gssv, ?gssvx (malloc and caller workspace) and ?gsisx',
             level_note='trusted: the predicate transcription; ASan as witness that all indices read lie inside the allocations'),

 'C04': dict(technique='runtime monitoring: singular-return oracle with FE_INEXACT exactness witness + ASan over constructed exactly singular inputs',
             level_text='on every info in [1,n] return: stored candidates of the reported column exactly zero, earlier pivots nonzero, leading-block factor identity, B/X untouched, no solve; "reported exactly when" decided only on executions witnessed exact (FE_INEXACT clear) or rounding-immune (empty row/column)',
             level_note='trusted: FE_INEXACT as exactness witness, construction of exactly singular / nonsingular inputs; crashes after a zero pivot are the listed finding F6'),
 'C05': dict(technique='runtime monitoring: scaled-system residual oracle + bitwise A/B mutation snapshots + ASan/UBSan over generated ?gssvx executions',
             level_text='A_after = diag(R) A diag(C) per equed bitwise (any association), B_after per the documented table bitwise, indices and padding untouched, residual of X in the scaled system against the factor-derived bound; Trans x Equil x refine x NC/NR x orderings, bundled and vendor BLAS',
             level_note='trusted: long double reference; refined X judged only under the Skeel/conditioning gate (stated in evidence as skipped_by_rule)'),
}
NOT_APPLICABLE = [dict(property_id=p, reason='check not registered yet in this revision (under construction; see DESIGN.md section 5)') for p in _ALL if p not in META]
