"""Build variants and per-property exploration plans."""
GCC = ['gcc']
SAN = ['-O1', '-g', '-fno-omit-frame-pointer', '-fsanitize=address,undefined', '-fno-sanitize-recover=all']
OPENBLAS = '/usr/lib/x86_64-linux-gnu/libopenblas.so'
VARIANTS = {
    'asan':     dict(cc=GCC, cflags=SAN),
    'asan-vb':  dict(cc=GCC, cflags=SAN + ['-DUSE_VENDOR_BLAS'], vendor=True, ldflags=[OPENBLAS]),
    'asan-i64': dict(cc=GCC, cflags=SAN + ['-DXSDK_INDEX_SIZE=64']),
    'tsan':     dict(cc=GCC, cflags=['-O1', '-g', '-fno-omit-frame-pointer', '-fsanitize=thread']),
    'plain':    dict(cc=GCC, cflags=['-O2', '-g']),
    'cov':      dict(cc=GCC, cflags=['-O0', '-g', '--coverage'], ldflags=['--coverage']),
    'msan':     dict(cc=['clang-14'], cflags=['-O1', '-g', '-fno-omit-frame-pointer', '-fsanitize=memory', '-fsanitize-memory-track-origins']),
    'msan-i64': dict(cc=['clang-14'], cflags=['-O1', '-g', '-fno-omit-frame-pointer', '-fsanitize=memory', '-fsanitize-memory-track-origins', '-DXSDK_INDEX_SIZE=64']),
}

def std_units(module, table, chunk=50, cpu=None):
    """table: list of (variant, precs, quick_count_per_prec, thorough_count_per_prec)"""
    def units(tier, seed):
        out = []
        for variant, precs, q, t in table:
            n = t if tier else q
            if n <= 0: continue
            for p in precs:
                u = dict(variant=variant, module=module, prec=p, start=0, count=n, chunk=chunk)
                if cpu: u['cpu'] = cpu
                out.append(u)
        return out
    return units

PLAN = {}

import os, glob
_d = os.path.join(os.path.dirname(os.path.abspath(__file__)), 'plan.d')
for _f in sorted(glob.glob(os.path.join(_d, '*.py'))):
    exec(compile(open(_f).read(), _f, 'exec'), dict(PLAN=PLAN, std_units=std_units, VARIANTS=VARIANTS))
