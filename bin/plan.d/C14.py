PLAN['C14'] = dict(
    level='exploration',
    units=std_units('C14', [('asan', 'sdcz', 22500, 200000), ('asan-vb', 'sdcz', 12000, 100000), ('asan-i64', 'sdcz', 4500, 40000)], chunk=250),
    rule='one kernel family per case: sp_?trsv (35%: 1-4 calls over uplo x trans x diag; upper-case / long-word / one lower-case argument / upper+diag=U), '
         '?gstrs (28%: trans N/T/C x nrhs 0..5 x ldb padding; joint solve vs every column alone (ldb=n) vs a leading subset with other padding), '
         'sp_?gemv (25%: rectangular A from 11 pattern x 8 value classes, m,n 1..30, alpha/beta in {0,1,-1,random[,imaginary]}, y = NaN/Inf junk when beta=0, '
         'flag spelled upper/long/lower, strides from {1,2,-1,-3}), sp_?gemm (12%: 0..4 columns, ldb/ldc padding, transb N or (square B) T/C); '
         'factor pairs from real ?gssv factorizations (structurally nonsingular patterns, 5 orderings, 4 thresholds, random small tuning) and from a direct generator of valid '
         'SC/NC pairs (random supernode partition up to width 9, unsorted row lists, random permutations); '
         'non-trivial = the oracle was fully evaluated on a problem of dimension >= 2; distinct = hash(pattern / supernode structure, kernel, flags, coefficient classes)',
    counter_names=['sp_?trsv calls checked', 'trsv residual/bound per-mille', 'gemv/gemm output elements checked', 'gemv/gemm error/bound per-mille',
                   '?gstrs joint columns checked', 'gstrs residual/bound per-mille', 'bitwise column comparisons', 'library ABORTs caught'],
    min_nontrivial={'quick': 40000, 'thorough': 500000},
    require_tags={'quick': ['kind=trsv', 'kind=gstrs', 'kind=gemv', 'kind=gemm', 'src=real', 'src=direct', 'maxsnode=1', 'maxsnode=4',
                            'uplo=L', 'uplo=U', 'trans=N', 'trans=T', 'trans=C', 'diag=U', 'diag=N', 'spell=upper', 'spell=longword', 'spell=lower',
                            'alpha=0', 'alpha=1', 'alpha=-1', 'alpha=r', 'beta=0', 'beta=1', 'beta=-1', 'beta=r', 'shape=tall', 'shape=wide', 'shape=square',
                            'incx=2', 'incx=-1', 'incx=-3', 'incy=2', 'incy=-1', 'incy=-3', 'nrhs=1', 'nrhs=5', 'ldpad=0', 'ldpad=1',
                            'colind=bitwise', 'colind=tolerance', 'transb=N', 'ldcpad=1', 'prec=s', 'prec=d', 'prec=c', 'prec=z']},
    assumptions=['triangular / factored-solve residual bound constant c = 8 (real) / 16 (complex) times n*eps*|T||x| resp. n*eps*|L||U||x| (any summation order is covered by 2n rounding errors)',
                 'product bound (nz_row+3)*eps (x4 complex) * (|alpha||op A||x| + |beta||y|) + (nz_row+3)*tiny',
                 'reference arithmetic in 80-bit long double; the system solved by ?gstrs is the one defined by the pair (Pr^T L U Pc^T), not the matrix that was factored',
                 'bitwise column independence of ?gstrs is asserted only for the library\'s own kernels (variants without USE_VENDOR_BLAS); with a vendor BLAS every solve is checked against the residual bound',
                 'solves whose exact solution exceeds sqrt(overflow)/1000 are left undecided'],
)
