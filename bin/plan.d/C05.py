PLAN['C05'] = dict(
    level='exploration',
    units=std_units('C05', [('asan', 'sdcz', 10800, 200000), ('asan-vb', 'sdcz', 3600, 50000), ('asan-i64', 'sdcz', 2700, 30000)], chunk=100),
    rule='generated nonsingular-by-pattern systems with row/column/two-sided bad scaling x Trans x Equil x IterRefine x NC/NR x ColPerm x u x tuning x malloc/workspace; after ?gssvx: A_after = diag(R) A diag(C) per equed (bitwise up to association), '
         'B_after per the documented table (bitwise), index arrays, padding, residual of the returned X in the scaled system against the factor-derived bound (refined X only when n*eps*cond*sigma < 1e-2 (sigma = max/min of |op(A)||x|+|b|, the Skeel condition for working-precision refinement)); non-trivial = residual judged and n >= 2',
    counter_names=['sum residual/bound per-mille', 'max residual/bound per-mille', 'residual verdicts skipped by the conditioning rule'],
    min_nontrivial={'quick': 500, 'thorough': 60000},
    require_tags={'quick': ['equed=N', 'equed=R', 'equed=C', 'equed=B', 'trans=0', 'trans=1', 'trans=2', 'NR', 'NC', 'refine=1', 'refine=0', 'mem=workspace', 'resolve-FACTORED/equed=N', 'resolve-FACTORED/equed=R', 'resolve-FACTORED/equed=C', 'resolve-FACTORED/equed=B', 'columns-beyond-exponent-range']},
    assumptions=['bound constant c = 8 / 16', 'refined solutions are judged only when n*eps*cond_1*sigma < 1e-2 (cond from a long double inverse): outside that range LAPACK-style refinement legitimately loses the componentwise bound (e.g. a 0 = 0 row perturbed by a refinement step)'],
)
