PLAN['C04'] = dict(
    level='exploration',
    units=std_units('C04', [('asan', 'sdcz', 3000, 150000), ('plain', 'sdcz', 1000, 50000), ('asan-vb', 'sdcz', 800, 30000), ('asan-i64', 'sdcz', 800, 30000)], chunk=100),
    rule='exactly singular matrices by construction (empty rows/columns in any number and position, Hall violations without empty lines, proportional row/column pairs with +-2^k or small-integer data) and exactly nonsingular controls (permuted triangular), '
         'through ?gstrf (FE_INEXACT exactness witness), ?gssv, ?gssvx and ?gssvx refactorizations that reuse remembered row pivots (thresholds incl. 0); clause "reported exactly when" is asserted only on executions witnessed exact or with rounding-immune deficiency; '
         'non-trivial = a singular return was inspected or the verdict was decided; distinct = hash(pattern, route, ColPerm, storage, outcome)',
    counter_names=['singular returns inspected (candidates zero, leading block, B untouched)', 'executions with FE_INEXACT clear'],
    min_nontrivial={'quick': 1000, 'thorough': 60000},
    require_tags={'quick': ['decided-by=exact-run', 'decided-by=immune', 'kind=hall', 'kind=dup-row', 'kind=nonsingular', 'route=gssv', 'route=gssvx', 'route=gssvx-refactor', 'refactor=done', 'info=singular', 'gssvx-equil=YES', 'equil-singular-return/equed=R', 'equil-singular-return/equed=B']},
    assumptions=['FE_INEXACT clear between entry and return of ?gstrf implies every floating-point operation of that call was exact', 'the floating-point counterexample of DESIGN.md (structurally singular, inexact run, info=0) is inherent and not asserted'],
)
