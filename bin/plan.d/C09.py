import os as _os, re as _re

# ThreadSanitizer keeps running after a report (halt_on_error=0) and must not turn the worker's exit status into a
# failure (exitcode=0): the reports are read from the worker's stderr by c09_post below.
_C09_ENV = {'TSAN_OPTIONS': 'halt_on_error=0:exitcode=0:second_deadlock_stack=1:history_size=4:report_signal_unsafe=0'}

def _c09_units(tier, seed):
    #        variant  precisions  quick  thorough   (cases per precision; one case = 8..16 jobs, ~300 job executions)
    table = [('tsan',  'sdcz',      60,   1800),
             ('plain', 'sdcz',     150,   3600),
             ('asan',  'sdcz',     100,   2400)]
    out = std_units('C09', table, chunk=10, cpu=60)(tier, seed)
    for u in out:
        if u['variant'] == 'tsan': u['env'] = dict(_C09_ENV); u['chunk'] = 5
    return out

_C09_FRAME = _re.compile(r'^\s+#(\d+) (\S+) (.*?) \(([^()]*)\)\s*$')
_C09_ACCESS = _re.compile(r'^  (?:Previous )?(?:atomic )?(?:read|write) of size \d+ at \S+ by (.*?):\s*$', _re.I)
_C09_STDIO = {'printf', 'fprintf', 'vfprintf', 'vprintf', 'puts', 'fputs', 'fputc', 'putc', 'putchar', 'fwrite', 'fflush', 'perror',
              '_IO_puts', '_IO_fwrite', '__printf_chk', '__fprintf_chk'}

def _c09_lib_roots():
    roots = ['/repo']
    r = _os.environ.get('VERIF_REPO')
    if r and r.rstrip('/') not in roots: roots.append(r.rstrip('/'))
    return roots

def _c09_is_lib(path, roots):
    for r in roots:
        for d in ('SRC', 'CBLAS', 'FORTRAN'):
            if path.startswith('%s/%s/' % (r, d)): return True
    return False

def _c09_generic(fn):
    """precision-generic spelling of a library routine name: dgssvx -> ?gssvx, sp_ztrsv -> sp_?trsv, ilu_cdrop_row -> ilu_?drop_row"""
    fn = _re.sub(r'^(sp_|ilu_)[sdcz](?=[a-zA-Z])', r'\1?', fn)
    return _re.sub(r'^[sdcz](?=gs|Pivot|la[qnc]|Query|LUMem|LUWork|expand|Create_|Copy_|Print|fill|pivotL|panel_|column_|snode_|copy_to_|pruneL|read|mach|ldperm|usolve|lsolve|matvec)', '?', fn)

def _c09_parse_report(lines, roots):
    """lines of one TSan report -> dict(kind, stacks=[list of (func, path)], library=bool, stdio=bool, key, where)"""
    kind = 'report'
    m = _re.search(r'WARNING: ThreadSanitizer: (.*?) \(pid=', lines[0])
    if m: kind = m.group(1).strip().replace(' ', '-')
    stacks, cur = [], None
    for ln in lines[1:]:
        if _C09_ACCESS.match(ln): cur = []; stacks.append(cur); continue
        fm = _C09_FRAME.match(ln)
        if fm:
            if cur is not None: cur.append((fm.group(2), fm.group(3).split(':')[0], fm.group(4)))
            continue
        cur = None
    def runtime(fr):       # sanitizer runtime (interceptors): not the place of the access
        func, path, module = fr
        return 'libtsan' in module or 'libsanitizer' in path or (path in ('<null>', '') and 'slumon' not in module)
    lib_access, stdio, outer, inner = False, True, [], []
    for st in stacks:
        real = [fr for fr in st if not runtime(fr)]
        top = real[0] if real else (st[0] if st else None)
        if not st or st[0][0] not in _C09_STDIO: stdio = False
        libfr = [fr for fr in st if _c09_is_lib(fr[1], roots)]
        inner.append('%s (%s)' % (libfr[0][0], _os.path.basename(libfr[0][1])) if libfr else (top[0] if top else '?'))
        # only a stack whose access itself is library code names an entry point in the key (the other side of a
        # use-after-free is a free() reached from anywhere and is left out)
        if st and st[0][0] in ('free', 'malloc', 'calloc', 'realloc', 'cfree'): continue
        if top is not None and _c09_is_lib(top[1], roots) and libfr: lib_access = True; outer.append(_c09_generic(libfr[-1][0]))
    if not stacks: stdio = False
    key = 'tsan:%s@%s' % (kind, '|'.join(sorted(set(outer))) if outer else '?')
    return dict(kind=kind, library=lib_access and not stdio, stdio=stdio and bool(stacks), key=key, where=' / '.join(inner), nstacks=len(stacks))

def c09_post(allcases, soft, tier):
    roots = _c09_lib_roots()
    seen, lib_reports, other_reports, stdio_reports, keys = 0, 0, 0, 0, {}
    other_sample = ''
    for ch, text in soft:
        if 'ThreadSanitizer' not in text: continue
        case_idx = ch['start']; block = None
        for ln in text.split('\n'):
            m = _re.match(r'VF-C09-CASE (\d+) BEGIN', ln)
            if m: case_idx = int(m.group(1)); continue
            if ln.startswith('WARNING: ThreadSanitizer:'): block = [ln]; block_case = case_idx; continue
            if block is not None:
                if ln.startswith('=================='):
                    seen += 1
                    rp = _c09_parse_report(block, roots)
                    if rp['stdio']: stdio_reports += 1
                    elif rp['library']:
                        lib_reports += 1
                        e = keys.setdefault(rp['key'], dict(n=0, ch=ch, idx=block_case, where=rp['where'], text='\n'.join(block[:40])))
                        e['n'] += 1
                    else:
                        other_reports += 1
                        if not other_sample: other_sample = '\n'.join(block[:30])
                    block = None
                else: block.append(ln)
    viol = []
    for k, e in sorted(keys.items()):
        viol.append((e['ch'], e['idx'], k, 'ThreadSanitizer report with the racing access inside the library, innermost library frames: %s; %d report(s) with this pair of entry points in this run. First report: %s'
                     % (e['where'], e['n'], e['text'][:1500].replace('\n', ' | '))))
    tsan_cases = [c for c in allcases if c['_u']['variant'] == 'tsan']
    cov = dict(tsan_cases=len(tsan_cases), tsan_job_executions_in_threads=sum(c['cn'][0] for c in tsan_cases),
               tsan_reports_seen=seen, tsan_reports_in_library=lib_reports, tsan_reports_distinct_entry_pairs=len(keys),
               tsan_reports_stdio_only=stdio_reports, tsan_reports_outside_library=other_reports,
               thread_groups_total=sum(c['cn'][4] for c in allcases), thread_groups_with_distinct_interleavings=sum(c['cn'][3] for c in allcases))
    if other_sample: cov['tsan_outside_library_sample'] = other_sample[:2000]
    return viol, cov

PLAN['C09'] = dict(
    level='exploration',
    units=_c09_units,
    post=c09_post,
    rule='one case = a list of 8-16 independent jobs (family in {?gssv, ?gssvx with refine+cond+growth, sp_preorder+?gstrf+?gstrs+?gscon+?gsrfs, ?gsisx with MC64 and all drop rules, '
         'get_perm_c for NATURAL/MMD_ATA/MMD_AT_PLUS_A/COLAMD, sp_preorder+sp_coletree/sp_symetree} x precision (70% the case precision, else any of s/d/c/z) x generated structurally '
         'nonsingular matrix (10 pattern classes, 6 value classes, n 2..45, tail to 90 / 120 for orderings) x options x NC/NR x malloc/caller workspace x tuning table); '
         'phase 1: every job alone twice under two heap/workspace junk fills (hash of info, perms, etree, factors, A, B, X, R, C, rcond, rpg, ferr, berr, mem_usage, op counts must agree); '
         'phase 2: T in {2,4,8} (thorough: sometimes 16) pthreads over independently shuffled queues of the same jobs on private copies of the data, released by a barrier, PRNG yields/sleeps at allocation points, '
         'each queue set twice with different perturbation seeds, every job output hash == its alone hash; phase 3: job X, 1-4 other jobs, X again in one thread; '
         'tsan variant: every ThreadSanitizer report whose racing access lies in /repo/(SRC|CBLAS|FORTRAN) is a violation, keyed by the pair of outermost library entry points (precision letter generalised); '
         'non-trivial = at least two jobs were in flight simultaneously, every queue entry compared, >= 2 factor/solve jobs returned info 0; distinct = hash of the observed interleavings '
         '(global order of (thread, job, start/finish) events)',
    counter_names=['job executions inside thread pools', 'largest thread count whose jobs overlapped', 'max jobs in flight simultaneously', 'thread-count groups whose two repetitions had distinct interleaving signatures',
                   'thread-count groups run', 'job executions in history phase', 'jobs whose two executions alone agreed bitwise', 'job starts that found another job in flight'],
    min_nontrivial={'quick': 1000, 'thorough': 25000},
    require_tags={t: ['fam=gssv', 'fam=gssvx', 'fam=gstrf+gstrs', 'fam=gsisx', 'fam=get_perm_c', 'fam=sp_preorder', 'prec=s', 'prec=d', 'prec=c', 'prec=z', 'mixed-precision',
                      'T=2', 'T=4', 'T=8', 'inflight=8', 'interleavings=all-distinct', 'gssvx+refine+cond+growth', 'gssvx+equil', 'ilu+mc64', 'drop=none', 'drop=basic', 'drop=prows', 'drop=column', 'drop=area',
                      'drop=dynamic', 'drop=interp', 'milu=0', 'milu=1', 'milu=2', 'milu=3', 'symetree', 'mem=workspace', 'NR',
                      'colperm=NATURAL', 'colperm=MMD_ATA', 'colperm=MMD_AT_PLUS_A', 'colperm=COLAMD', 'colperm=MY_PERMC', 'info=0', 'coldstart'] + (['T=16'] if t == 'thorough' else [])
                  for t in ('quick', 'thorough')},
    assumptions=['bitwise equality is what reentrant single-threaded code produces for private copies of identical inputs (no tolerance anywhere)',
                 'timings (stat->utime) are excluded from the output hash; operation counts, expansions and refinement steps are included',
                 'factors/X are compared only when the call reports success (info = 0, n+1, or an ILU replacement count); after a zero pivot only info, perm_c, etree, scalings are compared',
                 'the tsan variant has no uninstrumented code besides libc/libm; reports whose racing accesses are both outside /repo sources are counted (coverage: tsan_reports_outside_library) but are not library findings',
                 'tsan worker threads run their jobs with synchronisation operations ignored (AnnotateIgnoreSyncBegin/End): the monitor\'s ledger mutex, taken at every '
                 'SUPERLU_MALLOC/SUPERLU_FREE, would otherwise order nearly all cross-thread accesses and hide races that plain malloc/free would not hide; the library itself contains no synchronisation',
                 'the first case of every worker process runs its jobs concurrently before any library routine has run single-threaded (first-use initialisation races)',
                 'stdin readers are excluded (a process-wide stream is shared by definition)'],
)
