PLAN['C01'] = dict(
    level='exploration',
    units=std_units('C01', [('asan', 'sdcz', 6000, 200000), ('asan-vb', 'sdcz', 2000, 40000), ('asan-i64', 'sdcz', 1500, 40000)], chunk=100),
    rule='seeded random square systems (11 pattern classes x 8 value classes, n 1..60, thorough tail to n=400) x ColPerm x u x SymmetricMode x NC/NR x nrhs 0..4 x ldb padding x tuning table; '
         'non-trivial = info 0, n>=2, nrhs>=1; distinct = hash(pattern, ColPerm, storage, SymmetricMode, outcome)',
    counter_names=['sum of residual/bound in per-mille', 'max residual/bound in per-mille'],
    min_nontrivial={'quick': 500, 'thorough': 100000},
    require_tags={'quick': ['NR', 'NC', 'colperm=MY_PERMC', 'colperm=COLAMD', 'colperm=MMD_ATA', 'colperm=MMD_AT_PLUS_A', 'colperm=NATURAL', 'maxsnode=4', 'expansions=1']},
    assumptions=['bound constant c = 8 (real) / 16 (complex), calibrated on the unchanged tree', 'reference residual in 80-bit long double'],
)
