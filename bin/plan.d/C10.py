PLAN['C10'] = dict(
    level='exploration',
    # the routines are precision independent: one precision letter per variant; the metamorphic twin of each case
    # is built in a random precision (s/d/c/z)
    units=std_units('C10', [('asan', 'd', 96000, 900000), ('asan-i64', 'd', 32000, 300000)], chunk=250),
    rule='seeded m x n patterns (n 1..80, 4-5% tail to 150 columns / 200 rows): 11 library pattern classes, incidence-row graphs, random forests, all-empty; '
         'x dense rows/columns, duplicated rows, emptied rows/columns, row/column scrambling, unsorted columns, explicit zeros; '
         'x {NATURAL, MMD_ATA, MMD_AT_PLUS_A (square), COLAMD, MY_PERMC (identity/reverse/random)} x SymmetricMode x refactor mode; '
         'each case: get_perm_c (+ twin with other values/Dtype/heap junk), sp_preorder(DOFACT) (+ twin), sp_preorder(Fact != DOFACT); '
         'non-trivial = n >= 3 and the elimination tree has an edge; distinct = hash(pattern, method, SymmetricMode, refactor mode, input permutation)',
    counter_names=['cases where the postorder moved a column', 'n (max)', 'tree edges (sum)', 'roots (max)', 'COLAMD cases above the dense-row threshold',
                   'COLAMD cases above the dense-column threshold', 'columns moved by the postorder (sum)'],
    min_nontrivial={'quick': 40000, 'thorough': 700000},
    require_tags={t: ['method=NATURAL', 'method=MMD_ATA', 'method=MMD_AT_PLUS_A', 'method=COLAMD', 'method=MY_PERMC', 'sym=0', 'sym=1',
                      'shape=square', 'shape=tall', 'shape=wide', 'emptycols=1', 'emptyrows=1', 'post=moved', 'post=identity', 'post=suppressed',
                      'MY_PERMC+post=moved', 'roots=1', 'roots=11+', 'tree=branching', 'tree=chain', 'COLAMD+denserow', 'COLAMD+densecol',
                      'class=lib', 'class=edges', 'class=forest', 'class=empty', 'n=81+',
                      'refact=SamePattern', 'refact=SamePattern_SameRowPerm', 'refact=FACTORED'] for t in ('quick', 'thorough')},
    assumptions=['all clauses are discrete (no tolerance)',
                 'the reference tree is the definition: boolean pattern of (A*Pc)^T(A*Pc), naive symbolic Cholesky, parent = first subdiagonal entry; explicit zeros are structural',
                 'pattern-only dependence is checked on identical index arrays with different values, Dtype and heap junk (not on reordered row indices within a column)'],
)
