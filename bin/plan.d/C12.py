PLAN['C12'] = dict(
    level='exploration',
    units=std_units('C12', [('asan', 'sdcz', 12000, 100000), ('asan-vb', 'sdcz', 3000, 25000), ('asan-i64', 'sdcz', 2100, 20000)], chunk=100),
    rule='?gssvx with ConditionNumber = PivotGrowth = YES on five seeded classes: library generator (10 patterns x scaled/graded/integer values), well-conditioned base x diagonal scalings over 10^0..10^14 (10^6 single), '
         'near-singular (row = delta*row + combination of rows; integer matrix with an exact dependency + 2^-k), one dense scaled row/column on a diagonal (n up to 76: 1-norm and inf-norm condition numbers differ up to n^2/2, '
         'oriented so that the norm the driver must not use gives the larger condition number), exactly singular matrices as in C04 (small share); x NC/NR x Trans x Equil x ColPerm x u x tuning x malloc/workspace x nrhs 0..2. '
         'Oracle on F = matrix that was factored (arrays after the call; A^T for SLU_NR): true condition number from a long double inverse in the norm selected by the effective transpose; '
         'rcond >= true*(1 - c*n*eps*cond*rho - (4n+100)eps) only when n*eps*cond*rho < 0.02 (rho = || |L||U| ||/||F||, c = 10 real / 30 complex); rcond <= 1 + (c*n*rho + 8n) eps; info = n+1 <=> rcond < ?mach("E") (4 ulp undecided); '
         'recip_pivot_growth = min_j max|A_j|/max|U_j| from the returned store within 8 eps (library magnitude |re|+|im|; a column with max|U_j| = 0 may count as 1 or be skipped), over the leading info columns for singular returns. '
         'non-trivial = one-sided bound judged inside the gate or warning clause decided (n >= 2), or a singular growth comparison; distinct = hash(pattern, Trans, storage, Equil, ColPerm, equed, class, outcome)',
    counter_names=['one-sided bound judged (inside the gate)', 'max rcond_est/rcond_true per-mille', 'max shortfall (1 - est/true) ppm', 'growth comparisons (nonsingular)', 'growth comparisons (singular returns)',
                   'info = n+1 returns', 'cases with norm gap >= 1e3', 'one-sided bound skipped by the gate'],
    min_nontrivial={'quick': 8000, 'thorough': 200000},
    require_tags={'quick': ['norm=1', 'norm=I', 'NR', 'NC', 'trans=0', 'trans=1', 'trans=2', 'equed=N', 'equed=R', 'equed=C', 'equed=B', 'gate=in', 'gate=out', 'normgap>=1e3', 'info=n+1', 'info=0',
                            'warn=yes', 'warn=no', 'singular-growth=compared', 'growthmin=snode-inner-col', 'growthmax-in=U-store', 'growthmax-in=snode-above-diag', 'growthmax-in=snode-diag',
                            'cond=1e0-1e2', 'cond=1e2-1e4', 'cond=1e4-1e6', 'cond=1e6-1e8', 'cond=1e8-1e11', 'cond=1e11-1e14', 'class=gen', 'class=scaled', 'class=nearsing', 'class=normgap', 'class=singular', 'mem=workspace']},
    assumptions=['backward error of factorization plus the two triangular solves of one estimator step is bounded by c*n*eps*|L||U| with c = 10 (real) / 30 (complex)',
                 'reference inverse in 80-bit long double (relative error about n*2^-64*cond, negligible inside the gate)',
                 'no upper bound on rcond_est/rcond_true is asserted (Hager/Higham gives none); its maximum is reported as a counter'],
)
