PLAN['C20'] = dict(
    level='exploration',
    # asan-vb / asan-i64 case indices are a prefix of the asan ones for the same precision: the case
    # generator does not depend on the variant, so a vendor-only mismatch is decided bitwise by variant asan
    units=std_units('C20', [('asan', 'sdcz', 8000, 60000), ('asan-vb', 'sdcz', 2400, 20000), ('asan-i64', 'sdcz', 2400, 20000)], chunk=100),
    rule='one case = one history factor, solve*, free through c_fortran_?gssv_ over 1..4 handles (sequential / randomly interleaved / phased), '
         'each handle with its own seeded matrix (10 structurally nonsingular pattern classes x 8 value classes, n 1..40, thorough tail n 80..200) in 1-based CSC, '
         'some handles sharing the same caller arrays; 0..4 solves per handle with nrhs 1..4, ldb = n + 0..5, 30% repeats of an earlier b; one tuning table per case; '
         '7% of the histories contain one exactly singular matrix (zero column / empty column / zero row: factor, no solve, free). '
         'Every new solve is compared bytewise with ?gssv(default options) on the 0-based copy with the same b image; caller arrays are compared with their '
         'snapshots after every request; ledger: blocks allocated during a factor request must all be gone after the free request of that handle. '
         'non-trivial = at least one handle with info 0 whose solve(s) matched and whose free was verified on the ledger; distinct = hash(patterns, history, infos)',
    counter_names=['bridge requests', 'reference ?gssv runs', 'repeated solves compared', 'max simultaneously live handles', 'singular handles',
                   'vendor: non-bitwise but within tolerance', 'ledger blocks owned by handles (sum)'],
    min_nontrivial={'quick': 5000, 'thorough': 150000},
    require_tags={'quick': ['handles=1', 'handles=2', 'handles=3', 'handles=4', 'live=2', 'live=3', 'live=4', 'sched=interleaved', 'sched=phased', 'sched=sequential',
                            'nrhs=1', 'nrhs=2', 'nrhs=3', 'nrhs=4', 'ldpad=0', 'ldpad=1', 'repeat=1', 'cmp=gssv-bitwise', 'cmp=repeat-bitwise', 'shared=1',
                            'singular=planned', 'singular-freed=1', 'info=0', 'prec=s', 'prec=d', 'prec=c', 'prec=z'],
                  'thorough': ['big=1', 'live=4', 'cmp=gssv-bitwise', 'cmp=repeat-bitwise', 'singular-freed=1', 'shared=1']},
    assumptions=['the bridge C files are called from C with pointer arguments as a Fortran caller would; Fortran name mangling and the .F90 drivers are not executed',
                 'bitwise verdicts are issued in variants asan / asan-i64 (bundled C kernels); in asan-vb a non-bitwise solve is held within 1024 n eps (normwise) and otherwise skipped as inconclusive(vendor)',
                 'solves are not issued on handles whose factor request reported a zero pivot (the property is about nonsingular A); such handles are only freed'],
)
