import re as _re
def _c19_units(tier, seed):
    u = []
    def add(variant, module, precs, q, t, chunk=50, **kw):
        n = t if tier else q
        if n <= 0: return
        for p in precs: u.append(dict(dict(variant=variant, module=module, prec=p, start=0, count=n, chunk=chunk), **kw))
    # the lifecycle module under ASan+UBSan (32/64-bit indices), MemorySanitizer and valgrind memcheck
    add('asan', 'C19', 'sdcz', 4000, 40000, 100)
    add('asan-i64', 'C19', 'sdcz', 600, 5000, 100)
    add('msan', 'C19', 'sdcz', 600, 8000, 50)
    vg = ['valgrind', '-q', '--error-exitcode=95', '--track-origins=no', '--num-callers=12']
    add('plain', 'C19', 'dz', 12, 400, 1, wrapper=vg, env={'VF_NOJUNK': '1'}, cpu=120, wall=1800)
    # other properties' workloads under MemorySanitizer: uninitialised-value clause on drivers, histories, ILU
    add('msan', 'C01', 'dz', 150, 5000, 50)
    add('msan', 'C05', 'dz', 150, 5000, 50)
    add('msan', 'C06', 'dz', 60, 2000, 20)
    add('msan', 'C15', 'dz', 150, 5000, 50)
    add('msan', 'C08', 'd', 8, 200, 2, cpu=120)
    # MemorySanitizer with 64-bit indices: partial clears / short copies of int_t arrays read uninitialised words only in this configuration
    add('msan-i64', 'C19', 'dz', 300, 4000, 50)
    add('msan-i64', 'C17', 'ds', 400, 6000, 100)
    add('msan-i64', 'C16', 'dz', 200, 3000, 50)
    add('msan-i64', 'C10', 'd', 600, 8000, 100)
    add('msan-i64', 'C15', 'dz', 100, 3000, 50)
    # refactor / re-solve histories (reuse of storage that moves during a refactorization) under ASan: memory-class keys only
    add('asan', 'C06', 'sdcz', 250, 8000, 25)
    # storage-acquisition variants incl. the capacity walk (every growth site at the exactly-full state) under ASan: memory-class keys only
    add('asan', 'C07', 'sdcz', 600, 6000, 25, cpu=20)
    if tier:
        add('plain', 'C05', 'd', 0, 100, 1, wrapper=vg, env={'VF_NOJUNK': '1'}, cpu=120, wall=1800)
        add('plain', 'C15', 'd', 0, 100, 1, wrapper=vg, env={'VF_NOJUNK': '1'}, cpu=120, wall=1800)
    return u

_VG = _re.compile(r'==\d+== (Invalid (?:read|write) of size \d+|Conditional jump or move depends on uninitialised value\(s\)|Use of uninitialised value of size \d+|Invalid free\(\) / delete / delete\[\] / realloc\(\)|Syscall param .*? uninitialised byte\(s\)|Mismatched free\(\).*|Source and destination overlap.*)\n((?:==\d+==    (?:at|by) .*\n)+)')
_FR = _re.compile(r'(?:at|by) 0x[0-9A-F]+: (\S+) \((\S+?):(\d+)\)')
def _c19_post(allcases, soft, tier):
    viol, seen = [], {}
    nrep = 0
    for ch, txt in soft:
        sm = _re.search(r'@@VF-SUFFIX (\S*)', txt); sfx = sm.group(1) if sm else ''      # notes of the (single) case the worker ran
        for m in _VG.finditer(txt):
            nrep += 1
            kind = _re.sub(r' of size \d+', '', m.group(1)); kind = _re.sub(r'\s+', '-', kind.strip())[:50]
            frames = [f for f in _FR.findall(m.group(2))]
            lib = [f[0] for f in frames if _re.match(r'[sdcz]?[a-z_0-9]+\.c$', f[1]) and not f[1].startswith(('c0', 'c1', 'c2', 'vf_', 'fact', 'core', 'gen', 'ref', 'api'))]
            if not lib: continue     # harness-only stacks are not library findings
            key = 'valgrind:%s@%s' % (kind, '>'.join(lib[:2])) + sfx
            if key in seen: seen[key] += 1; continue
            seen[key] = 1
            viol.append((ch, None, key, 'valgrind memcheck: %s in %s (chunk starting at case %d)' % (m.group(1), '>'.join(lib[:3]), ch['start'])))
    return viol, dict(valgrind_reports=nrep, valgrind_distinct_library_reports=len(seen))

PLAN['C19'] = dict(
    level='exploration',
    units=_c19_units, post=_c19_post, own_module='C19',
    key_filter=r'^(asan:|ubsan:|msan:|valgrind:|crash:|hang@|abort:|leak|badfree|output-depends-on-heap-junk|workspace-layout-broken|workspace-accounting-broken)',
    rule='70 % of the cases: lifecycle programs over the computational routines (create -> get_perm_c/sp_preorder -> ?gstrf -> random sequence of ?gstrs, ?gscon, ?gsrfs, ?PivotGrowth, ?QuerySpace, sp_?trsv, matrix copy, ?CompRow_to_CompCol against a stable counting-sort reference, ?GenXtrue/?FillRHS/?Copy_Dense_Matrix with padded arrays -> destroy) with forced exit paths '
         '(singular input, too-small and sufficient caller workspace, injected ?expand failure, failure of the work-array allocation in ?LUWorkInit, size query), each executed twice under different junk fill of fresh library allocations (bitwise equal outputs), ledger empty at the end, no bad free; 30 % of the cases: expert-driver lifecycles (?gssvx / ?gsisx with equilibration, MC64 row permutation, refinement, estimates) ended by a too-short caller workspace of random length, an injected growth failure, a size query or run to completion and re-solved with Fact = FACTORED, same two-execution differential and ledger; '
         'the same programs under MemorySanitizer and valgrind memcheck, plus the C01/C05/C06/C08/C15 workloads under MemorySanitizer and the C06 refactor/re-solve histories and C07 storage variants (capacity walk) under ASan (only memory-class keys count here); every other check of this suite also runs under ASan+UBSan with the ledger; '
         'non-trivial = a successful factorization followed by at least one further routine, or a forced exit path',
    counter_names=['post-factorization routine calls'],
    min_nontrivial={'quick': 2500, 'thorough': 40000},
    require_tags={'quick': ['exit=ok', 'exit=singular', 'exit=nomem', 'exit=query', 'forced=0', 'forced=1', 'forced=3', 'work-allocation-failed', 'op=0', 'op=2', 'op=3', 'op=4', 'op=5', 'op=6', 'op=7', 'op=8', 'op=9', 'drv=gssvx', 'drv=gsisx', 'drv-exit=ok', 'drv-exit=nomem', 'drv-exit=query', 'drv-exit=singular', 'drv-forced=3', 'capacity-start', 'drv-capacity-start']},
    assumptions=['junk-fill differential and MemorySanitizer/memcheck are complementary detectors of uninitialised-value dependence', 'LeakSanitizer is off: leaks are decided by the exact allocation ledger'],
)
