# C18: exhaustive enumeration of the table of documented single-argument corruptions.
# case index -> (row = index % NROWS, base-call slot = index // NROWS); counts are NROWS * (number of base slots).
_C18_NROWS = 290          # must equal NROWS of harness/c18.c (the module tags every case with nrows=<NROWS>.)
_C18_NPROBE = 5         # rows with doc = 0 (executed, nothing asserted, never counted as non-trivial)
_C18_NBQ, _C18_NBT = 32, 512   # base-call slots per row: quick / thorough (32 slots = storage x Fact mode x equed letter)
PLAN['C18'] = dict(
    level='fault_enumeration',
    exhaustive=True,
    units=std_units('C18', [('asan', 'sdcz', _C18_NROWS * _C18_NBQ, _C18_NROWS * _C18_NBT),
                            ('asan-i64', 'sdcz', 0, _C18_NROWS * 16)], chunk=200),
    rule='table of %d (routine, single-argument corruption, documented info) rows transcribed from the headers of ?gssv, ?gssvx, ?gsisx, ?gstrs, ?gsrfs, '
         '?gscon, ?gsequ, sp_?trsv; case index -> (row = index mod NROWS, base slot = index div NROWS): every row x every base slot x 4 precisions is executed '
         '(slot decides NC/NR storage, Fact mode DOFACT/SamePattern/SamePattern_SameRowPerm/FACTORED, equed letter, trans/norm/uplo; the seeded part is the small '
         'nonsingular system n 1..9, scaling, nrhs, ldb/ldx padding, ColPerm, Equil, Trans, refinement, lwork>0). Each case first runs the VALID call (info must be >= 0; '
         'FACTORED and SamePattern_SameRowPerm bases keep its real factors), re-initialises the caller objects, corrupts one argument, snapshots A/B/X/perm_c/perm_r/R/C/L/U '
         '(headers, store structs, arrays), calls, and demands info = -(position), identical snapshots, no retained allocation, no bad free, no ABORT. '
         'non-trivial = a documented row whose corrupted call was executed; distinct = (row, base slot, precision). %d rows are probes of undocumented rejections: recorded, not asserted.'
         % (_C18_NROWS, _C18_NPROBE),
    counter_names=['documented rows that held', 'calls rejected with the documented code', 'probe rows executed', 'snapshot regions compared', 'valid base calls executed'],
    min_nontrivial={'quick': int(0.98 * 4 * (_C18_NROWS - _C18_NPROBE) * _C18_NBQ), 'thorough': int(0.98 * (4 * _C18_NBT + 2 * 16) * (_C18_NROWS - _C18_NPROBE))},
    require_tags={t: ['nrows=%d.' % _C18_NROWS] + ['row=%03d' % i for i in range(_C18_NROWS)]
                     + ['rt=' + s for s in ('gssv', 'gssvx', 'gsisx', 'gstrs', 'gsrfs', 'gscon', 'gsequ', 'trsv')]
                     + ['prec=s', 'prec=d', 'prec=c', 'prec=z', 'outcome=rejected', 'base=NR/FACTORED', 'base=NC/FACTORED', 'base=NR/DOFACT',
                        'base=NR/SamePattern_SameRowPerm', 'base=NC/SamePattern/', 'base=size-query']
                  for t in ('quick', 'thorough')},
    assumptions=['expected codes are the argument positions in the routine headers (info = -i: the i-th argument had an illegal value); ?gssv documents the argument '
                 'types but not the negative codes, the position convention of the property statement is applied to it',
                 'a corruption is asserted only when the header states the violated constraint (type tags, square/non-negative dimensions, leading dimension, '
                 'enumerated option/letter values, positive scale factors with FACTORED, lwork values); '
                 'equed, etree, stat and scalar outputs are recorded but not compared (drivers reset equed before validating, as documented for Fact != FACTORED)',
                 'the headers of [scz]gssvx.c name SLU_D as Dtype of A (copy/paste slip); SLU_D is never used as the wrong tag of that row'],
)
