PLAN['C11'] = dict(
    level='exploration',
    units=std_units('C11', [('asan', 'sdcz', 36000, 450000), ('asan-i64', 'sdcz', 8000, 100000)], chunk=500),
    rule='seeded m x n matrices (1..30, thorough 1..60; 11 pattern classes of the shared generator, or small covering patterns) with a module-private '
         'value generator: 12 magnitude classes (moderate; row/column/both scaled over 2^+-100 single / 2^+-920 double; near overflow; subnormal; '
         'every entry anywhere in the full exponent range; row maxima / largest entry / scaled column maxima placed exactly at and up to 7 ulps around '
         '0.1, SMALL, LARGE, sfmin, 1/sfmin), complex entries general / purely real / purely imaginary / |re|=|im|; zero rows and/or columns at first, '
         'last or random positions, structural or stored zeros (incl. -0), both present in one matrix; ?laqgs is fed either the ?gsequ outputs or '
         'factors from ?gsequ with synthetic threshold-adjacent (rowcnd, colcnd, amax), or fully synthetic inputs when ?gsequ reported a zero row/column; '
         'cases 0, 1, 2 of every unit are pinned witnesses of the three listed library findings (row-scaled underflow of a non-zero column; overflow of c*r in the B branch; rowcnd with every row clamped). '
         'non-trivial = all clauses evaluated and held on a matrix with >= 2 stored entries and no column in the undecided (underflow) zone; '
         'distinct = hash(pattern, values, class, info class, scalars given to ?laqgs)',
    counter_names=['cases with info = 0 (all factor clauses asserted)', 'cases with a zero row/column reported', 'cases gated by row-scaled underflow', 'clamped rows + columns'],
    min_nontrivial={'quick': 25000, 'thorough': 1200000},
    require_tags={'quick': ['prec=s', 'prec=d', 'prec=c', 'prec=z', 'info=none', 'info=zero-row', 'info=zero-col', 'info=zero-row-and-col',
                            'gate=full', 'gate=subnormal-colmax', 'gate=entry-underflow-only', 'clampR=low', 'clampR=high', 'clampC=low',
                            'equed=N', 'equed=R', 'equed=C', 'equed=B', 'thr=rowcnd', 'thr=colcnd', 'thr=small', 'thr=large',
                            'thrnear=rowcnd-below', 'thrnear=rowcnd-above', 'thrnear=colcnd-below', 'thrnear=colcnd-above',
                            'thrnear=small-below', 'thrnear=small-above', 'thrnear=large-below', 'thrnear=large-above',
                            'laqgs-in=gsequ', 'laqgs-in=gsequ-factors+synthetic-scalars', 'laqgs-in=synthetic-all',
                            'class=nearoverflow', 'class=subnormal', 'class=fullrange', 'class=thr-rowcnd', 'class=thr-amax', 'class=thr-colcnd',
                            'class=clamp-row', 'class=clamp-col', 'shape=tall', 'shape=wide', 'shape=square'],
                  'thorough': ['info=none', 'info=zero-row-and-col', 'gate=full', 'equed=N', 'equed=R', 'equed=C', 'equed=B', 'thr=rowcnd', 'thr=colcnd', 'thr=small', 'thr=large']},
    assumptions=['sfmin = smallest normal number, bignum = 1/sfmin, SMALL = sfmin/2^-23|2^-52, LARGE = 1/SMALL, THRESH = 0.1 (constants written into the harness, not read from ?mach)',
                 '|re|+|im| of every generated entry is finite (components capped at huge/2 when both are non-zero)',
                 'next to a threshold (|x - T| <= 2 eps T) either outcome of the comparison is accepted',
                 'a non-zero column whose row-scaled maximum is below 4 denorm_min is not asserted by the random workload (pinned witness only)',
                 'reference arithmetic in 80-bit long double'],
)
