PLAN['C15'] = dict(
    level='exploration',
    units=std_units('C15', [('asan', 'sdcz', 12000, 150000), ('asan-vb', 'sdcz', 3600, 40000), ('asan-i64', 'sdcz', 3600, 30000)], chunk=100),
    rule='structurally nonsingular generated matrices (zero diagonals by row relabelling, exactly zero columns / leading entries, duplicated leading columns) x ILU option lattice (drop rules incl. secondary rules with and without interpolation, tolerances 0..1, fill factors, norms, MILU variants, MC64 on/off, Trans, orderings, thresholds, Equil) x NC/NR x tunings x malloc/workspace x chosen first capacities of the factor arrays (guarded hook), plus a 6x6 family with equations/unknowns in units beyond sqrt(overflow) and a stored zero (MC64 scaling rejected, ?gsequ fallback); '
         'info against the count of pivot-replacement events from the guarded hooks, structure, bijections, U diagonal, restored index arrays, finite values of the returned A, X against the solve defined by the returned factors (residual w.r.t. Pr^T L U Pc^T), exactness when dropping is off and nothing was replaced',
    counter_names=['gsisx calls', 'pivot replacement events', 'max preconditioner-solve residual/bound per-mille', 'solutions judged', 'no-drop exactness verdicts'],
    min_nontrivial={'quick': 1500, 'thorough': 80000},
    require_tags={'quick': ['pivots-replaced', 'nodrop-exactness-judged', 'rowperm=1', 'rowperm=0', 'milu=0', 'milu=1', 'milu=2', 'milu=3', 'rule=0x0', 'trans=1', 'trans=2', 'NR', 'mem=workspace', 'info=replaced', 'capacity-start', 'units-beyond-sqrt-overflow']},
    assumptions=['the event hooks (guard SLU_VERIF_HOOKS) report each pivot replacement once', 'bound constant c = 8 / 16'],
)
