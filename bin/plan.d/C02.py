PLAN['C02'] = dict(
    level='exploration',
    units=std_units('C02', [('asan', 'sdcz', 10800, 200000), ('asan-vb', 'sdcz', 3600, 40000), ('asan-i64', 'sdcz', 2700, 40000)], chunk=100),
    rule='seeded random matrices (11 pattern x 8 value classes; square n 1..50 and tall m>n through ?gstrf, square through ?gssv incl. row storage; thorough tail n<=300; 45 % of the successful direct factorizations are followed by 1-2 refactorizations through ?gstrf on the same pattern with new values - tiny perturbation / unrelated / remembered pivots shrunk below the threshold / rows rescaled - with Fact = SamePattern_SameRowPerm (pivots kept or abandoned) or SamePattern, square and tall, each judged by the same oracles) '
         'x ColPerm (incl. caller permutation) x u in {1,.5,.1,.01,1e-3,1e-8} x SymmetricMode x tuning table; non-trivial = info 0 and n>=2; distinct = hash(pattern, ColPerm, route, storage, SymmetricMode, outcome)',
    counter_names=['sum identity/bound per-mille', 'max identity/bound per-mille', 'columns where the diagonal was chosen although not the maximum (preference clause decisive)', 'near-threshold columns left undecided', 'refactorizations through ?gstrf judged'],
    min_nontrivial={'quick': 500, 'thorough': 100000},
    require_tags={'quick': ['route=gstrf', 'route=gssv', 'tall', 'NR', 'colperm=MY_PERMC', 'diagpref=decisive', 'multiplier>1', 'maxsnode=4', 'expansions=1', 'refactor=SameRowPerm', 'refactor=SamePattern', 'refactor-tall', 'refactor-square', 'reuse=kept', 'reuse=abandoned']},
    assumptions=['bound constant c = 8 (real) / 16 (complex)', 'complex multiplier bound uses sqrt(2)/u because the library compares |re|+|im|', 'diagonal-preference clause is one-sided with a 64 eps margin; near-threshold columns are undecided'],
)
