PLAN['C13'] = dict(
    level='exploration',
    units=std_units('C13', [('asan', 'sdcz', 20000, 250000), ('asan-vb', 'sdcz', 6000, 60000), ('asan-i64', 'sdcz', 3000, 30000)], chunk=250),
    rule='generated nonsingular-by-pattern unsymmetric systems (n 1..48, 12 pattern x 6 value classes, row/column/two-sided scaling, graded) x Trans x Equil x NC/NR x ColPerm x u x tuning x IterRefine in {NOREFINE 18%, SLU_SINGLE, SLU_DOUBLE, SLU_EXTRA}; '
         '45% of the cases get a weak diagonal (1..n/4 diagonal entries scaled by 10^-1..-6/-14) with u in {0, 1e-8, 1e-4, 1e-2} so that the first solve has a large backward error and refinement runs 1..5 steps; '
         'nrhs 1..3 with zero columns, columns with zero components, columns below safe2 (safe1/safe2 branch), badly scaled columns, A*y columns. '
         'After ?gssvx: BERR(j) must lie in the long double band of the LAPACK componentwise backward error of the returned X(:,j)/S in the factored system (diag(R) A diag(C), documented scaled B), '
         'margins: residual rounding 4(nz_i+2) eps absolute + 2(nz_i+4) eps relative per row, underflowed products, one rounding per component for undoing X *= S; rows 0 = 0 contribute nothing, rows with a denominator below 2*safmin are undecided; '
         'each column is also replayed alone through the real ?gstrs + ?gsrfs on copies: when the replay reproduces the driver bit for bit (always, in the reference-BLAS build) the band is evaluated on the scaled iterate itself without the unscaling uncertainty, '
         'the per-column step count must be <= 5, stat.RefineSteps must equal the count of the last column, and no column may depend on its predecessors; FERR finite and >= 0; '
         'NOREFINE: ferr = berr = 1.0 exactly and X = S*(?gstrs solution) bitwise (vendor BLAS: bitwise or a backward-stable solve by the factor-derived bound, mid-range data only). '
         'non-trivial = n >= 2 and at least one column judged; distinct = hash(pattern, options, equed, steps, berr class)',
    counter_names=['columns judged (band A: returned X)', 'columns judged (band B: replayed iterate, bitwise)', 'columns with berr > 1000 eps', 'columns whose single-column replay did not reproduce the driver (vendor BLAS)', 'columns with a row in the underflow range (undecided row)', 'columns with a decisive safe1-branch row', 'cases with RefineSteps = 5', 'NOREFINE columns reproduced bitwise by ?gstrs'],
    min_nontrivial={'quick': 20000, 'thorough': 400000},
    require_tags={'quick': ['equed=N', 'equed=R', 'equed=C', 'equed=B', 'trans=0', 'trans=1', 'trans=2', 'NR', 'NC', 'refine=0', 'refine=1', 'refine=2', 'refine=3',
                            'steps=0', 'steps=1', 'steps=2', 'steps=3', 'steps=4', 'steps=5', 'berr=large', 'berr=eps-level', 'rows=safe-branch', 'rows=zero', 'bcol=zero', 'bcol=tiny', 'replay=exact', 'info=n+1'],
                  'thorough': ['equed=C', 'steps=5', 'berr=large', 'rows=safe-branch', 'rows=zero', 'replay=exact', 'info=n+1']},
    assumptions=['the system "actually factored" is F = A_after (or its stored transpose for SLU_NR) with right-hand side B0 scaled as documented (formed natively from B0; C05 checks that B is returned that way) and unknown X/S',
                 'magnitude of complex numbers is |re|+|im| as in the library; safe1 = (n+1)*safmin, safe2 = safe1/eps with the library eps = 2^-53 / 2^-24',
                 'margins: |BERR_lib - berr_ref| per row <= 4(nz_i+2) eps + 2(nz_i+4) eps * berr + underflow terms (derived in the module header); a row whose denominator is below 2*safmin is undecided',
                 'FERR finite is demanded only when |inv(F)| * max(|op(F)||x|+|b|) * n * 1e6 < overflow threshold',
                 'bitwise replay clauses (rhs-coupling, NOREFINE X) only in the reference-BLAS build; the vendor-BLAS build uses them when they happen to reproduce'],
)
