PLAN['C17'] = dict(
    level='exploration',
    units=std_units('C17', [('asan', 'sdcz', 36000, 300000), ('asan-i64', 'sdcz', 12000, 80000)], chunk=500),
    rule='?ldperm(job=5) called directly on seeded square CSC matrices: 11 pattern classes (n 1..60, thorough tail to 150) x row relabelling '
         '(none/random/cyclic/reverse -> structurally zero diagonals) x value class (8 generator classes, wide 2^+-480 (2^+-80 single), all-equal magnitudes, '
         'few magnitudes, symmetric, rank-one magnitudes, extreme 2^+-660 double only) x complex shape (general/real/mixed) x explicit zeros x forced Hall violations '
         '(empty row/column, k lines confined to k-1); oracle = sprank for the class, Hungarian optimum on log(|re|+|im|), dual feasibility/tightness of u,v, byte snapshots; '
         'non-trivial = nonsingular with n>=2 and every clause evaluated, or structurally singular; distinct = hash(pattern, value class, class)',
    counter_names=['sum of scaling residual/tolerance in per-mille', 'max scaling residual/tolerance in per-mille', 'max (optimum - library)/margin in per-mille',
                   'structurally singular cases', 'nonsingular cases fully evaluated'],
    min_nontrivial={'quick': 30000, 'thorough': 500000},
    require_tags={'quick': ['class=nonsing', 'class=singular', 'ret=0', 'ret=1', 'ret=2', 'warn2=justified', 'ident=0', 'ident=1', 'zdiag=many', 'zdiag=few',
                            'val=ties', 'val=wide', 'val=sym', 'val=rank1', 'val=few', 'val=extreme', 'val=gen', 'rows=random', 'rows=cyclic',
                            'forced=hallcols', 'forced=hallrows', 'forced=emptycol', 'forced=emptyrow', 'xzero=1', 'densecol=0', 'densecol=1', 'cmode=0', 'cmode=3', 'n=31-60', 'n=1'],
                  'thorough': ['class=nonsing', 'class=singular', 'ret=2', 'warn2=justified', 'ident=0', 'n=61+', 'class=xzero-ambiguous']},
    assumptions=['magnitude of a complex entry is |re|+|im| (what the c/z wrappers hand to MC64)',
                 'tolerance on u_i+v_j+log|a_ij|: 64 eps_T (1+|u_i|+|v_j|+|log|a_ij||) + 8 n^2 eps_double (1+max|u|+max|v|+max|log|a||); optimality margin 16 n (8+n^2) eps_double (same scale)',
                 'return value 2 (MC64 warning: scale factors large) is accepted on nonsingular input only if some u_i or v_j >= log(DBL_MAX)/2',
                 'matrices whose only perfect matchings pass through explicitly stored zeros are skipped (statement does not define the expected answer)'],
)
