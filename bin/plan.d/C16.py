PLAN['C16'] = dict(
    level='exploration',
    units=std_units('C16', [('asan', 'sdcz', 4500, 50000), ('asan-i64', 'sdcz', 675, 5000)], chunk=100),
    rule='seeded file writer = reference (values are strtod/strtof of the exact text printed, D exponent == E): '
         'Harwell-Boeing (FILE*) and Rutherford-Boeing (stdin) with types R/C x U/S/R, pointer/index formats (kIw) k=1..80/w, value formats '
         '(kEw.d) (kDw.d) (kFw.d) (kEw.dE3) (1PkEw.d) (1P,kEw.d) in either letter case, exponent letters E/D/e/d or mixed, 1..max fields per line, '
         'short last line, complex pairs split across lines, HB with/without RHS block (F/G/X, line 5), header lines at their formal width or padded to 80, '
         'symmetric files with all/some/no diagonal entries, sorted or shuffled rows, rectangular RRA; Matrix Market coordinate real/complex '
         'general/symmetric, keyword case, 0-4 comment lines (incl. 64..100-character rule lines and 520..1000-character lines), blank lines, any entry order, '
         'lower/upper/mixed triangle; triplet files "n nnz" (and the documented "rows cols nnz") 1-based or 0-based; header-less triplets (double). '
         'n <= 40 (thorough: 5% up to 120). Encodings on which the unchanged library is known to die run the reader in a forked child (0.4 s CPU limit) '
         'and are reported under one stable key per cause. non-trivial = reader returned and the full comparison ran on n>=2, nnz>=2; '
         'distinct = hash(format, descriptors, pattern, options)',
    counter_names=['entries compared', 'child probes', 'child deaths', 'file bytes'],
    min_nontrivial={'quick': 1800, 'thorough': 60000},
    require_tags={'quick': ['value-fields=touching', 'fmt=HB', 'fmt=RB', 'fmt=MM', 'fmt=TRI', 'fmt=TRINH', 'type=RUA', 'type=RSA', 'type=CUA', 'type=CSA', 'type=RRA', 'type=CRA',
                            'vfmt=E', 'vfmt=D', 'vfmt=F', 'P=none', 'P=nocomma', 'P=comma', 'explet=E', 'explet=D', 'explet=e', 'explet=d', 'explet=m', 'exp3=1',
                            'rhs=0', 'rhs=1', 'diag=all', 'diag=some', 'diag=none', 'mm=symmetric', 'mm=general', 'mm-tri=lower', 'mm-tri=upper', 'mm-tri=mixed',
                            'mm-order=shuffled', 'mm-comments=0', 'mm-comments=2', 'base=0', 'base=1', 'hdr=2', 'hdr=3', 'lastline=short', 'lastline=full',
                            'pair-split=1', 'kval=1', 'kval=max', 'desc-case=lower', 'rows=shuffled', 'outcome=equal'],
                  'thorough': ['fmt=HB', 'fmt=RB', 'fmt=MM', 'fmt=TRI', 'fmt=TRINH', 'P=comma', 'exp3=1', 'diag=none', 'mm-tri=mixed', 'hdr=3', 'outcome=equal']},
    assumptions=['glibc: the readers that use stdin are fed by assigning the `stdin` FILE* (restored afterwards)',
                 'single precision accepts either (float)strtod(text) or strtof(text)',
                 'kP scale factors only with E/D fields that carry an exponent (neutral on input); F fields always carry a decimal point',
                 'files are strictly well-formed: fixed-column header records are never shorter than their formal width, no duplicate entries, '
                 'symmetric files never store both (i,j) and (j,i)'],
)
