PLAN['C07'] = dict(
    level='exploration',
    units=std_units('C07', [('asan', 'sdcz', 1000, 40000), ('plain', 'sdcz', 1000, 40000), ('asan-i64', 'sdcz', 480, 10000)], chunk=25, cpu=20),
    rule='per generated matrix (fill-producing patterns, complete and incomplete LU, all orderings/thresholds/tunings): reference = fill estimate 30 + library allocation; variants = fill estimate 1..8 (0..many in-flight expansions), '
         'caller workspace on a geometric ladder of lengths down to the first reported shortage at 4- and 8-byte alignment with fill 30 and fill 1..3, then a bisection to the smallest sufficient length and a sample of lengths on the 4-byte grid right above it (reduced-growth expansions); byte hash of (perm_r, perm_c, supernode partition, row lists, L values, U colptr/rowind/values) must equal the reference; '
         'QuerySpace for_lu against the documented accounting; the reported number of memory expansions against the growths in flight the monitor observed during that call (hook events inside a workspace, ?expand allocations in the ledger otherwise), also for a SamePattern_SameRowPerm refactorization in the same storage after a capacity start; non-trivial = at least 4 bitwise comparisons and at least one expansion; distinct = hash(pattern, ColPerm, kind)',
    counter_names=['bitwise comparisons that agreed', 'workspace runs compared', 'workspace runs that reported shortage', 'max expansions in one factorization', 'comparisons in the band just above the smallest sufficient length', 'runs started at a chosen initial capacity that agreed', 'expansion reports compared with observed growths', 'refactorizations whose report was judged'],
    min_nontrivial={'quick': 300, 'thorough': 15000},
    require_tags={'quick': ['complete', 'ilu', 'mem=workspace', 'align=4', 'align=8', 'maxexpansions=3', 'minexpansions=0', 'band-above-minimum', 'tall', 'square', 'capacity-walk', 'ilu-missing-diagonal', 'refactor-report']},
    assumptions=['bundled C kernels have no alignment-dependent code paths (bitwise equality is what correct code produces; confirmed by the soak on the unchanged tree)'],
)
