PLAN['C03'] = dict(
    level='exploration',
    units=std_units('C03', [('asan', 'sdcz', 13500, 250000), ('asan-i64', 'sdcz', 3600, 50000)], chunk=100),
    rule='structure predicate (as the consumers ?gstrs/sp_?trsv/?PivotGrowth/?QuerySpace read SCformat/NCformat) on every factorization returned by ?gstrf (square, tall), ?gssv (NC/NR), ?gssvx (malloc / caller workspace, Equil) and ?gsisx (ILU option lattice); '
         'non-trivial = a multi-column supernode is present; distinct = hash(pattern, route, outcome)',
    counter_names=['multi-column supernodes seen', 'supernodes seen', 'max in-flight expansions in one factorization'],
    min_nontrivial={'quick': 500, 'thorough': 100000},
    require_tags={'quick': ['route=gstrf', 'route=gssv', 'route=gssvx', 'route=gsisx', 'tall', 'mem=workspace', 'maxsnode=4', 'ilu-U-repeats-row', 'growthy', 'expansions=3', 'refactor-tall', 'refactor-square', 'reuse=abandoned']},
    assumptions=['the predicate is transcribed from how the consuming routines index the structures', 'ASan witnesses that every index read by the predicate lies inside the allocation'],
)
