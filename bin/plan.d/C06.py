PLAN['C06'] = dict(
    level='exploration',
    units=std_units('C06', [('asan', 'sdcz', 3600, 80000), ('asan-vb', 'sdcz', 1350, 20000), ('asan-i64', 'sdcz', 1350, 15000)], chunk=40),
    rule='generated call histories of ?gssvx on one sparsity pattern: alphabet {DOFACT, SamePattern, SamePattern_SameRowPerm, FACTORED(Trans,nrhs)} under the documented preconditions (examples dlinsolx2/3), value streams {same, 1e-3 perturbation, unrelated values, global and per-line rescaling}, malloc and caller workspace, NC/NR; '
         'every step: A/B mutation, structure, factor identity, multiplier bound, residual in the scaled system; FACTORED steps: byte hashes of L,U,perm_r,perm_c,etree,R,C,A; non-trivial = at least two solution verdicts in the history',
    counter_names=['steps executed', 'reuse steps whose remembered row pivots were abandoned', 'reuse steps that kept the remembered pivots', 'max factor identity/bound per-mille', 'max residual/bound per-mille', 'reuse steps with in-flight expansions', 'columns whose diagonal was taken although it was not the largest candidate'],
    min_nontrivial={'quick': 300, 'thorough': 30000},
    require_tags={'quick': ['op=DOFACT', 'op=SamePattern', 'op=SameRowPerm', 'op=FACTORED', 'rowperm-abandoned', 'mem=workspace', 'NR', 'reuse-expansion=workspace', 'reuse-expansion=malloc']},
    assumptions=['each per-step predicate is one already argued for C01-C05', 'refined solutions judged only under the Skeel/conditioning gate'],
)
