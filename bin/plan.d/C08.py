PLAN['C08'] = dict(
    level='fault_enumeration',
    units=std_units('C08', [('asan', 'sdcz', 72, 500), ('asan-i64', 'sdcz', 32, 160)], chunk=4, cpu=120),
    rule='per generated input (complete and incomplete LU; ?gstrf/?gsitrf directly and through ?gssvx/?gsisx incl. row storage and MC64): (sweep) the workspace sits in an arena with 128-byte canaries and ASan-poisoned surroundings; every length on the 4-byte grid from 0 to beyond the smallest sufficient length (found by bisection) for one alignment when that length is <= 24 KiB (64 KiB thorough), '
         'windows around 0 and the threshold plus a coarse grid otherwise and for the other alignment: outcome must be success (structure ok, perms/L/U bytes equal to the library-allocation run) or info > n, never a crash/hang/outside write, and the guarded hook after every growth inside the workspace must find the stack head below its tail; '
         '(growthfail) every k-th allocation request issued from ?expand is failed in turn under library allocation: info > n, or survived with identical factors; (query) lwork = -1 through the drivers: byte snapshots of every argument; '
         'non-trivial = >= 10 short and >= 10 sufficient lengths seen (sweep) / >= 2 injected failures (growthfail) / query executed',
    counter_names=['workspace runs', 'runs that reported shortage', 'injected growth failures reported as info > n', 'injected growth failures survived with identical factors', 'size queries', 'growth requests enumerated (growthfail) / growths observed inside the workspace via the guarded hook (sweep)', 'workspace runs that succeeded', 'largest minimal sufficient lwork (bytes)'],
    min_nontrivial={'quick': 100, 'thorough': 1500},
    require_tags={'quick': ['tall', 'mode=sweep', 'mode=growthfail', 'mode=query', 'route=gstrf', 'route=gsitrf', 'route=gssvx', 'route=gsisx']},
    assumptions=['canaries detect writes at byte granularity next to the workspace, ASan poisoning detects reads/writes farther out', 'bitwise equality with the library-allocation run detects overruns between the four factor arrays inside the workspace'],
    exhaustive=False,
)
